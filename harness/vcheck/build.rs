//! Enumerates the public parsing entry points of the tls-parser tree under test, so that C01 ("every public parsing entry point")
//! is not limited to the hand-written table in src/props/c01.rs: every `pub fn` at module level whose first parameter is a byte
//! slice and whose result is an `IResult` over byte slices, and every type deriving `Nom*` (which gives it a public `parse`), that
//! the table does not mention is added to the run automatically (OUT_DIR/auto_entries.rs), with generated extra arguments.
//! What cannot be called mechanically (a parameter of a type this script has no generator for) is listed in AUTO_SKIPPED and
//! reported in the evidence.
use std::fs;
use std::path::{Path, PathBuf};

fn repo_path() -> PathBuf {
    let manifest = fs::read_to_string(Path::new(&std::env::var("CARGO_MANIFEST_DIR").unwrap()).join("Cargo.toml")).unwrap();
    for line in manifest.lines() {
        let l = line.trim();
        if l.starts_with("tls-parser") {
            if let Some(p) = l.split("path").nth(1) {
                let q: Vec<&str> = p.split('"').collect();
                if q.len() >= 2 {
                    return PathBuf::from(q[1]);
                }
            }
        }
    }
    PathBuf::from("/repo")
}

/// remove comments and string literals (good enough for signatures)
fn strip(src: &str) -> String {
    let b: Vec<char> = src.chars().collect();
    let mut out = String::with_capacity(src.len());
    let mut i = 0;
    while i < b.len() {
        if b[i] == '/' && i + 1 < b.len() && b[i + 1] == '/' {
            while i < b.len() && b[i] != '\n' {
                i += 1;
            }
        } else if b[i] == '/' && i + 1 < b.len() && b[i + 1] == '*' {
            i += 2;
            while i + 1 < b.len() && !(b[i] == '*' && b[i + 1] == '/') {
                i += 1;
            }
            i += 2;
        } else if b[i] == '"' {
            out.push('"');
            i += 1;
            while i < b.len() && b[i] != '"' {
                if b[i] == '\\' {
                    i += 1;
                }
                i += 1;
            }
            out.push('"');
            i += 1;
        } else {
            out.push(b[i]);
            i += 1;
        }
    }
    out
}

fn split_top(s: &str) -> Vec<String> {
    let mut out = Vec::new();
    let mut depth = 0i32;
    let mut cur = String::new();
    for c in s.chars() {
        match c {
            '<' | '(' | '[' => depth += 1,
            '>' | ')' | ']' => depth -= 1,
            ',' if depth == 0 => {
                out.push(cur.trim().to_string());
                cur.clear();
                continue;
            }
            _ => {}
        }
        cur.push(c);
    }
    if !cur.trim().is_empty() {
        out.push(cur.trim().to_string());
    }
    out
}

fn norm(s: &str) -> String {
    s.split_whitespace().collect::<Vec<_>>().join(" ")
}

fn is_byte_slice(ty: &str) -> bool {
    let t: String = ty.chars().filter(|c| !c.is_whitespace()).collect();
    if !(t.starts_with('&') && t.ends_with("[u8]")) {
        return false;
    }
    let mid = &t[1..t.len() - 4];
    mid.is_empty() || (mid.starts_with('\'') && mid[1..].chars().all(|c| c.is_alphanumeric() || c == '_'))
}

fn arg_for(ty: &str) -> Option<&'static str> {
    let t: String = ty.chars().filter(|c| !c.is_whitespace()).collect();
    Some(match t.as_str() {
        "u8" => "a.curve_type",
        "u16" => "a.len16",
        "u32" => "a.len as u32",
        "u64" => "a.len as u64",
        "usize" => "a.len",
        "bool" => "a.flag",
        "&TlsRecordHeader" => "&a.tls_hdr",
        "TlsRecordHeader" => "a.tls_hdr",
        "&DTLSRecordHeader" => "&a.dtls_hdr",
        "ECCurveType" => "tls_parser::ECCurveType(a.curve_type)",
        "TlsVersion" => "tls_parser::TlsVersion(a.len16)",
        "TlsExtensionType" => "tls_parser::TlsExtensionType(a.len16)",
        "TlsRecordType" => "tls_parser::TlsRecordType(a.curve_type)",
        "TlsHandshakeType" => "tls_parser::TlsHandshakeType(a.curve_type)",
        _ => return None,
    })
}

fn word_in(hay: &str, w: &str) -> bool {
    let mut start = 0;
    while let Some(p) = hay[start..].find(w) {
        let a = start + p;
        let b = a + w.len();
        let before = hay[..a].chars().next_back();
        let after = hay[b..].chars().next();
        let idc = |c: Option<char>| c.map_or(false, |c| c.is_alphanumeric() || c == '_');
        if !idc(before) && !idc(after) {
            return true;
        }
        start = b;
    }
    false
}

fn main() {
    let repo = repo_path();
    let srcdir = repo.join("src");
    println!("cargo:rerun-if-changed={}", srcdir.display());
    println!("cargo:rerun-if-changed=build.rs");
    println!("cargo:rerun-if-changed=src/props/c01.rs");
    println!("cargo:rerun-if-changed=Cargo.toml");
    let table = fs::read_to_string("src/props/c01.rs").unwrap_or_default();
    let librs = strip(&fs::read_to_string(srcdir.join("lib.rs")).unwrap_or_default());
    let mut files: Vec<PathBuf> = fs::read_dir(&srcdir).map(|d| d.filter_map(|e| e.ok()).map(|e| e.path()).filter(|p| p.extension().map_or(false, |x| x == "rs")).collect()).unwrap_or_default();
    files.sort();
    let mut entries = String::new();
    let mut skipped = String::new();
    let (mut found, mut in_table, mut added, mut nskipped) = (0usize, 0usize, 0usize, 0usize);
    for f in &files {
        println!("cargo:rerun-if-changed={}", f.display());
        let module = f.file_stem().unwrap().to_string_lossy().to_string();
        if module == "lib" || module == "tls_serialize" {
            continue;
        }
        // only modules whose items are re-exported at the crate root (`pub use <module>::*;`)
        if !librs.contains(&format!("pub use {}::*", module)) {
            continue;
        }
        let src = strip(&fs::read_to_string(f).unwrap_or_default());
        // cut the unit-test module
        let src = match src.find("#[cfg(test)]") {
            Some(p) => src[..p].to_string(),
            None => src,
        };
        // ---- free functions
        let mut pos = 0;
        while let Some(p) = src[pos..].find("pub fn ") {
            let at = pos + p;
            pos = at + 7;
            // module level only: the line must start with `pub fn` (methods are indented)
            let line_start = src[..at].rfind('\n').map_or(0, |x| x + 1);
            if src[line_start..at].chars().any(|c| !c.is_whitespace()) || at != line_start {
                continue;
            }
            let end = match src[at..].find('{') {
                Some(e) => at + e,
                None => continue,
            };
            let sig = norm(&src[at + 7..end]);
            let name: String = sig.chars().take_while(|c| c.is_alphanumeric() || *c == '_').collect();
            let rest = &sig[name.len()..];
            // generics: lifetimes only
            let (generics, rest) = if rest.starts_with('<') {
                let mut d = 0;
                let mut e = 0;
                for (k, c) in rest.char_indices() {
                    if c == '<' {
                        d += 1;
                    }
                    if c == '>' {
                        d -= 1;
                        if d == 0 {
                            e = k;
                            break;
                        }
                    }
                }
                (&rest[1..e], &rest[e + 1..])
            } else {
                ("", rest)
            };
            let open = match rest.find('(') {
                Some(o) => o,
                None => continue,
            };
            let mut d = 0;
            let mut close = 0;
            for (k, c) in rest.char_indices().skip(open) {
                if c == '(' {
                    d += 1;
                }
                if c == ')' {
                    d -= 1;
                    if d == 0 {
                        close = k;
                        break;
                    }
                }
            }
            let params = split_top(&rest[open + 1..close]);
            let ret = rest[close + 1..].trim();
            if params.is_empty() {
                continue;
            }
            let ptypes: Vec<String> = params.iter().map(|p| p.splitn(2, ':').nth(1).unwrap_or("").trim().to_string()).collect();
            if !is_byte_slice(&ptypes[0]) || !ret.contains("IResult") {
                continue;
            }
            found += 1;
            if word_in(&table, &name) {
                in_table += 1;
                continue;
            }
            if split_top(generics).iter().any(|g| !g.trim_start().starts_with('\'')) {
                nskipped += 1;
                skipped.push_str(&format!("    ({:?}, \"generic over a type parameter\"),\n", name));
                continue;
            }
            let mut args = Vec::new();
            let mut bad = None;
            for t in &ptypes[1..] {
                match arg_for(t) {
                    Some(a) => args.push(a.to_string()),
                    None => {
                        bad = Some(t.clone());
                        break;
                    }
                }
            }
            if let Some(t) = bad {
                nskipped += 1;
                skipped.push_str(&format!("    ({:?}, {:?}),\n", name, format!("no generator for a parameter of type {}", t)));
                continue;
            }
            added += 1;
            let call = if args.is_empty() { format!("tls_parser::{}(i)", name) } else { format!("tls_parser::{}(i, {})", name, args.join(", ")) };
            entries.push_str(&format!("        (\"auto:{}\", (|i, a| {{ let _ = a; epa!(i, {}) }}) as fn(&[u8], &Args) -> EpOut),\n", name, call));
        }
        // ---- types deriving Nom / NomBE / NomLE (public `parse` through nom_derive::Parse)
        let mut pos = 0;
        while let Some(p) = src[pos..].find("#[derive(") {
            let at = pos + p;
            pos = at + 9;
            let close = match src[at..].find(")]") {
                Some(c) => at + c,
                None => continue,
            };
            let derives = &src[at + 9..close];
            if !split_top(derives).iter().any(|d| matches!(d.trim(), "Nom" | "NomBE" | "NomLE")) {
                continue;
            }
            // item header: up to `{` or `(` or `;` after `pub struct|enum NAME`
            let after = &src[close + 2..];
            let kw = match (after.find("pub struct "), after.find("pub enum ")) {
                (Some(a), Some(b)) => a.min(b),
                (Some(a), None) => a,
                (None, Some(b)) => b,
                _ => continue,
            };
            let attrs = &after[..kw];
            if attrs.contains("#[derive(") {
                continue;
            }
            let head = &after[kw..];
            let head = head.trim_start_matches("pub struct ").trim_start_matches("pub enum ");
            let name: String = head.chars().take_while(|c| c.is_alphanumeric() || *c == '_').collect();
            if name.is_empty() {
                continue;
            }
            found += 1;
            if word_in(&table, &format!("{}::parse", name)) || table.contains(&format!("{}::parse", name)) {
                in_table += 1;
                continue;
            }
            if attrs.contains("Selector") || attrs.contains("ExtraArgs") {
                nskipped += 1;
                skipped.push_str(&format!("    ({:?}, \"derived parser takes a selector / extra arguments\"),\n", format!("{}::parse", name)));
                continue;
            }
            added += 1;
            entries.push_str(&format!("        (\"auto:{}::parse\", (|i, a| {{ let _ = a; epa!(i, <tls_parser::{}>::parse(i)) }}) as fn(&[u8], &Args) -> EpOut),\n", name, name));
        }
    }
    let out = format!(
        "/// public parsing entry points of the tree under test that the hand-written table does not name (generated by build.rs)\nfn auto_entries() -> Vec<Entry> {{\n    #[allow(unused_imports)]\n    use nom_derive::Parse as _;\n    vec![\n{}    ]\n}}\n/// (found in the sources, named by the hand-written table, added automatically, not callable mechanically)\npub const AUTO_COUNTS: (usize, usize, usize, usize) = ({}, {}, {}, {});\npub const AUTO_SKIPPED: &[(&str, &str)] = &[\n{}];\n",
        entries, found, in_table, added, nskipped, skipped
    );
    let dest = Path::new(&std::env::var("OUT_DIR").unwrap()).join("auto_entries.rs");
    fs::write(dest, out).unwrap();
}
