//! Enumeration of every byte slice reachable from values returned by the crate (for provenance checks).

use tls_parser::*;

pub type Sl = (usize, usize); // (address, length)

fn s(out: &mut Vec<Sl>, b: &[u8]) {
    out.push((b.as_ptr() as usize, b.len()));
}
fn os(out: &mut Vec<Sl>, b: Option<&[u8]>) {
    if let Some(b) = b {
        s(out, b);
    }
}

pub fn cke(out: &mut Vec<Sl>, c: &TlsClientKeyExchangeContents) {
    match c {
        TlsClientKeyExchangeContents::Dh(b) | TlsClientKeyExchangeContents::Unknown(b) => s(out, b),
        TlsClientKeyExchangeContents::Ecdh(p) => s(out, p.point),
        #[allow(unreachable_patterns)]
        _ => {}
    }
}

pub fn hs(out: &mut Vec<Sl>, m: &TlsMessageHandshake) {
    match m {
        TlsMessageHandshake::HelloRequest | TlsMessageHandshake::EndOfEarlyData | TlsMessageHandshake::KeyUpdate(_) => {}
        TlsMessageHandshake::ClientHello(c) => {
            s(out, c.random);
            os(out, c.session_id);
            os(out, c.ext);
        }
        TlsMessageHandshake::ServerHello(c) => {
            s(out, c.random);
            os(out, c.session_id);
            os(out, c.ext);
        }
        TlsMessageHandshake::ServerHelloV13Draft18(c) => {
            s(out, c.random);
            os(out, c.ext);
        }
        TlsMessageHandshake::NewSessionTicket(t) => s(out, t.ticket),
        TlsMessageHandshake::HelloRetryRequest(h) => os(out, h.ext),
        TlsMessageHandshake::Certificate(c) => c.cert_chain.iter().for_each(|x| s(out, x.data)),
        TlsMessageHandshake::ServerKeyExchange(k) => s(out, k.parameters),
        TlsMessageHandshake::CertificateRequest(c) => c.unparsed_ca.iter().for_each(|x| s(out, x)),
        TlsMessageHandshake::ServerDone(b) | TlsMessageHandshake::CertificateVerify(b) | TlsMessageHandshake::Finished(b) => s(out, b),
        TlsMessageHandshake::ClientKeyExchange(c) => cke(out, c),
        TlsMessageHandshake::CertificateStatus(c) => s(out, c.blob),
        TlsMessageHandshake::NextProtocol(n) => {
            s(out, n.selected_protocol);
            s(out, n.padding);
        }
        #[allow(unreachable_patterns)]
        _ => {}
    }
}

pub fn msg(out: &mut Vec<Sl>, m: &TlsMessage) {
    match m {
        TlsMessage::Handshake(h) => hs(out, h),
        TlsMessage::ChangeCipherSpec | TlsMessage::Alert(_) => {}
        TlsMessage::ApplicationData(d) => s(out, d.blob),
        TlsMessage::Heartbeat(h) => s(out, h.payload),
        #[allow(unreachable_patterns)]
        _ => {}
    }
}

pub fn msgs(out: &mut Vec<Sl>, v: &[TlsMessage]) {
    v.iter().for_each(|m| msg(out, m));
}

pub fn ext(out: &mut Vec<Sl>, e: &TlsExtension) {
    match e {
        TlsExtension::SNI(l) => l.iter().for_each(|(_, n)| s(out, n)),
        TlsExtension::StatusRequest(o) => {
            if let Some((_, d)) = o {
                s(out, d)
            }
        }
        TlsExtension::EcPointFormats(b)
        | TlsExtension::SessionTicket(b)
        | TlsExtension::KeyShareOld(b)
        | TlsExtension::KeyShare(b)
        | TlsExtension::PreSharedKey(b)
        | TlsExtension::Cookie(b)
        | TlsExtension::Padding(b)
        | TlsExtension::RenegotiationInfo(b) => s(out, b),
        TlsExtension::ALPN(l) => l.iter().for_each(|p| s(out, p)),
        TlsExtension::SignedCertificateTimestamp(o) => os(out, *o),
        TlsExtension::OidFilters(l) => l.iter().for_each(|f| {
            s(out, f.cert_ext_oid);
            s(out, f.cert_ext_val)
        }),
        TlsExtension::EncryptedServerName { key_share, record_digest, encrypted_sni, .. } => {
            s(out, key_share);
            s(out, record_digest);
            s(out, encrypted_sni);
        }
        TlsExtension::Grease(_, d) | TlsExtension::Unknown(_, d) => s(out, d),
        TlsExtension::MaxFragmentLength(_)
        | TlsExtension::EllipticCurves(_)
        | TlsExtension::SignatureAlgorithms(_)
        | TlsExtension::RecordSizeLimit(_)
        | TlsExtension::EarlyData(_)
        | TlsExtension::SupportedVersions(_)
        | TlsExtension::PskExchangeModes(_)
        | TlsExtension::Heartbeat(_)
        | TlsExtension::EncryptThenMac
        | TlsExtension::ExtendedMasterSecret
        | TlsExtension::PostHandshakeAuth
        | TlsExtension::NextProtocolNegotiation => {}
        #[allow(unreachable_patterns)]
        _ => {}
    }
}

pub fn dtls_msg(out: &mut Vec<Sl>, m: &DTLSMessage) {
    match m {
        DTLSMessage::Handshake(h) => match &h.body {
            DTLSMessageHandshakeBody::HelloRequest => {}
            DTLSMessageHandshakeBody::ClientHello(c) => {
                s(out, c.random);
                os(out, c.session_id);
                s(out, c.cookie);
                os(out, c.ext);
            }
            DTLSMessageHandshakeBody::HelloVerifyRequest(h) => s(out, h.cookie),
            DTLSMessageHandshakeBody::ServerHello(c) => {
                s(out, c.random);
                os(out, c.session_id);
                os(out, c.ext);
            }
            DTLSMessageHandshakeBody::NewSessionTicket(t) => s(out, t.ticket),
            DTLSMessageHandshakeBody::HelloRetryRequest(h) => os(out, h.ext),
            DTLSMessageHandshakeBody::Certificate(c) => c.cert_chain.iter().for_each(|x| s(out, x.data)),
            DTLSMessageHandshakeBody::ServerKeyExchange(k) => s(out, k.parameters),
            DTLSMessageHandshakeBody::CertificateRequest(c) => c.unparsed_ca.iter().for_each(|x| s(out, x)),
            DTLSMessageHandshakeBody::ServerDone(b) | DTLSMessageHandshakeBody::CertificateVerify(b) | DTLSMessageHandshakeBody::Finished(b) | DTLSMessageHandshakeBody::Fragment(b) => s(out, b),
            DTLSMessageHandshakeBody::ClientKeyExchange(c) => cke(out, c),
            DTLSMessageHandshakeBody::CertificateStatus(c) => s(out, c.blob),
            DTLSMessageHandshakeBody::NextProtocol(n) => {
                s(out, n.selected_protocol);
                s(out, n.padding);
            }
            #[allow(unreachable_patterns)]
            _ => {}
        },
        DTLSMessage::ChangeCipherSpec | DTLSMessage::Alert(_) => {}
        DTLSMessage::ApplicationData(d) => s(out, d.blob),
        DTLSMessage::Heartbeat(h) => s(out, h.payload),
        #[allow(unreachable_patterns)]
        _ => {}
    }
}

pub fn signed(out: &mut Vec<Sl>, d: &DigitallySigned) {
    s(out, d.data);
}

pub fn sct(out: &mut Vec<Sl>, x: &SignedCertificateTimestamp) {
    s(out, &x.id.key_id[..]);
    s(out, x.extensions.0);
    signed(out, &x.signature);
}

pub fn dh(out: &mut Vec<Sl>, d: &ServerDHParams) {
    s(out, d.dh_p);
    s(out, d.dh_g);
    s(out, d.dh_ys);
}

pub fn ec_params(out: &mut Vec<Sl>, p: &ECParameters) {
    match &p.params_content {
        ECParametersContent::NamedGroup(_) => {}
        ECParametersContent::ExplicitPrime(e) => {
            s(out, e.prime_p);
            s(out, e.curve.a);
            s(out, e.curve.b);
            s(out, e.base.point);
            s(out, e.order);
            s(out, e.cofactor);
        }
        #[allow(unreachable_patterns)]
        _ => {}
    }
}

pub fn ecdh(out: &mut Vec<Sl>, p: &ServerECDHParams) {
    ec_params(out, &p.curve_params);
    s(out, p.public.point);
}
