//! vcheck library: oracles and runner shared by the `vcheck` binary and the libFuzzer targets in /verif/fuzz.

#[macro_use]
pub mod core;
pub mod alloc;
pub mod conv;
pub mod fuzz;
pub mod mk;
pub mod props;
pub mod visit;
