//! Counting allocator (per-thread, enabled only around calls into the crate under test) and the
//! no-progress watchdog.

use std::alloc::{GlobalAlloc, Layout, System};
use std::cell::Cell;
use std::collections::HashMap;
use std::sync::atomic::{AtomicBool, AtomicU64, Ordering};
use std::sync::Mutex;
use std::thread::ThreadId;

pub struct Counting;

thread_local! {
    static ENABLED: Cell<bool> = const { Cell::new(false) };
    static LIVE: Cell<isize> = const { Cell::new(0) };
    static PEAK: Cell<isize> = const { Cell::new(0) };
    static TOTAL: Cell<usize> = const { Cell::new(0) };
    static LARGEST: Cell<usize> = const { Cell::new(0) };
}

#[inline]
fn on_alloc(size: usize) {
    let _ = ENABLED.try_with(|e| {
        if e.get() {
            let _ = TOTAL.try_with(|t| t.set(t.get().saturating_add(size)));
            let _ = LARGEST.try_with(|l| l.set(l.get().max(size)));
            let _ = LIVE.try_with(|l| {
                let v = l.get() + size as isize;
                l.set(v);
                let _ = PEAK.try_with(|p| p.set(p.get().max(v)));
            });
        }
    });
}

#[inline]
fn on_free(size: usize) {
    let _ = ENABLED.try_with(|e| {
        if e.get() {
            let _ = LIVE.try_with(|l| l.set(l.get() - size as isize));
        }
    });
}

unsafe impl GlobalAlloc for Counting {
    unsafe fn alloc(&self, layout: Layout) -> *mut u8 {
        on_alloc(layout.size());
        System.alloc(layout)
    }
    unsafe fn dealloc(&self, ptr: *mut u8, layout: Layout) {
        on_free(layout.size());
        System.dealloc(ptr, layout)
    }
    unsafe fn alloc_zeroed(&self, layout: Layout) -> *mut u8 {
        on_alloc(layout.size());
        System.alloc_zeroed(layout)
    }
    unsafe fn realloc(&self, ptr: *mut u8, layout: Layout, new_size: usize) -> *mut u8 {
        on_free(layout.size());
        on_alloc(new_size);
        System.realloc(ptr, layout, new_size)
    }
}

#[derive(Clone, Copy, Debug, Default)]
pub struct Stats {
    /// peak of (bytes allocated - bytes freed) during the measured call
    pub peak: usize,
    /// sum of all requested sizes during the call
    pub total: usize,
    /// largest single request
    pub largest: usize,
    /// bytes allocated minus bytes freed over the whole call (what the callee keeps, or releases when negative)
    pub net: isize,
}

/// measure heap use of `f` on this thread (nesting is not supported)
pub fn measure<T>(f: impl FnOnce() -> T) -> (T, Stats) {
    LIVE.with(|l| l.set(0));
    PEAK.with(|p| p.set(0));
    TOTAL.with(|t| t.set(0));
    LARGEST.with(|t| t.set(0));
    ENABLED.with(|e| e.set(true));
    struct Off;
    impl Drop for Off {
        fn drop(&mut self) {
            ENABLED.with(|e| e.set(false));
        }
    }
    let off = Off;
    let r = f();
    drop(off);
    let st = Stats { peak: PEAK.with(|p| p.get()).max(0) as usize, total: TOTAL.with(|t| t.get()), largest: LARGEST.with(|t| t.get()), net: LIVE.with(|l| l.get()) };
    (r, st)
}

// ------------------------------------------------------------------------------------------
// watchdog
// ------------------------------------------------------------------------------------------

static PROGRESS: AtomicU64 = AtomicU64::new(0);
static ACTIVE: AtomicBool = AtomicBool::new(false);
static INFLIGHT: Mutex<Option<HashMap<ThreadId, (String, String, Vec<u8>)>>> = Mutex::new(None);

#[inline]
pub fn progress() {
    PROGRESS.fetch_add(1, Ordering::Relaxed);
}

/// register the case a thread is about to run (used by C01, where termination is the property)
pub fn inflight_set(prop: &str, sub: &str, tape: &[u8]) {
    let mut g = INFLIGHT.lock().unwrap();
    g.get_or_insert_with(HashMap::new).insert(std::thread::current().id(), (prop.to_string(), sub.to_string(), tape.to_vec()));
}

pub fn inflight_clear() {
    let mut g = INFLIGHT.lock().unwrap();
    if let Some(m) = g.as_mut() {
        m.remove(&std::thread::current().id());
    }
}

pub fn watchdog_stop() {
    ACTIVE.store(false, Ordering::SeqCst);
}

/// If no sub-check makes progress for `VERIF_WATCHDOG_S` seconds (default 120; normal cases take
/// microseconds) the run is inconclusive (exit 2), unless an in-flight C01 case is registered: that case
/// is written to a replay file and re-run in a fresh child process with the same limit; if the child
/// does not finish either, the hang is reported as a violation.
pub fn watchdog_start(prop: &'static str) {
    ACTIVE.store(true, Ordering::SeqCst);
    let limit: u64 = std::env::var("VERIF_WATCHDOG_S").ok().and_then(|s| s.parse().ok()).unwrap_or(120);
    std::thread::spawn(move || {
        let mut last = PROGRESS.load(Ordering::Relaxed);
        let mut idle = 0u64;
        loop {
            std::thread::sleep(std::time::Duration::from_secs(1));
            if !ACTIVE.load(Ordering::SeqCst) {
                return;
            }
            let now = PROGRESS.load(Ordering::Relaxed);
            if now != last {
                last = now;
                idle = 0;
                continue;
            }
            idle += 1;
            if idle < limit {
                continue;
            }
            let inflight: Vec<(String, String, Vec<u8>)> = INFLIGHT.lock().map(|g| g.as_ref().map(|m| m.values().cloned().collect()).unwrap_or_default()).unwrap_or_default();
            if inflight.is_empty() {
                eprintln!("[{}] watchdog: no progress for {} s and no registered in-flight case: inconclusive", prop, limit);
                std::process::exit(2);
            }
            for (p, sub, tape) in inflight {
                let dir = std::path::PathBuf::from(std::env::var("VERIF_DIR").unwrap_or_else(|_| "/verif".into())).join("replays");
                let _ = std::fs::create_dir_all(&dir);
                let path = dir.join(format!("{}-{}-hang-{:016x}.json", p, sub, vmodel::wire::fnv64(&tape)));
                let body = serde_json::json!({"property": p, "sub_check": sub, "seed": 0, "tape_hex": vmodel::wire::hex(&tape), "signature": "hang", "message": format!("no progress for {} s", limit)});
                let _ = std::fs::write(&path, serde_json::to_string_pretty(&body).unwrap());
                let exe = std::env::current_exe().unwrap();
                let mut child = match std::process::Command::new(exe).arg("replay").arg(&path).env("VERIF_WATCHDOG_S", "100000").spawn() {
                    Ok(c) => c,
                    Err(_) => std::process::exit(2),
                };
                let mut waited = 0;
                loop {
                    match child.try_wait() {
                        Ok(Some(_)) => break,
                        _ => {
                            std::thread::sleep(std::time::Duration::from_secs(1));
                            waited += 1;
                            if waited > limit {
                                let _ = child.kill();
                                println!("VIOLATION property={} replay={}", p, path.display());
                                eprintln!("[{}] hang confirmed in a fresh process: {}", p, path.display());
                                std::process::exit(1);
                            }
                        }
                    }
                }
            }
            eprintln!("[{}] watchdog: stalled but the in-flight case(s) finish in a fresh process: inconclusive", prop);
            std::process::exit(2);
        }
    });
}
