//! C07 Record defragmenter equals accumulate-then-parse, with its safety limits.

use super::PropDef;
use crate::conv;
use crate::core::*;
use serde_json::json;
use tls_parser::nom::error::ErrorKind;
use tls_parser::nom::{Err, Needed};
use tls_parser::*;
use vmodel::model::*;
use vmodel::tape::Tape;
use vmodel::wire::{fnv64, hex_short, Enc};

pub const DEF: PropDef = PropDef {
    id: "C07",
    title: "Record defragmenter equals accumulate-then-parse, with its safety limits",
    rule: "splits = handshake / heartbeat payloads from the model generators split k ways (k = 1..8, cut points anywhere inside the first message incl. inside its \
           4-byte header, empty fragments incl. the first) into successive records: every call but the last must answer Incomplete with defrag_in_progress(), \
           the last must return exactly the encoded messages and end defragmentation; refusals = while defragmenting, foreign-type records, parse_record_nocopy and \
           (cap) oversize streams must be refused with Tag / NonEmpty failure / TooLarge leaving buffer and type unchanged (hook) and the defragmentation must still \
           complete; history = sequences of up to 40 (thorough 120) operations {parse_record, parse_record_nocopy, reset} over fragments, self-contained records of all \
           types, foreign records, empty records and inconsistent headers, run against the reference model 'accumulate then one-shot parse' and against a shadow parser \
           that is fresh at every point where no defragmentation is in progress; cap = never-completing streams driven to the 10 MiB limit with generated record sizes; big_heartbeat = heartbeat messages of 48 KiB .. 3+65535+padding bytes \
           sent in records within the record-length cap, with the fragment boundaries steered onto 65535..65539 accumulated bytes. \
           Non-trivial = a history with at least one call made while defragmentation is in progress; distinct by hash of the operation list.",
    assumptions: &[
        "the reference model answers with the public one-shot parser parse_tls_record_with_header on its own concatenation of the fragments; the messages of split payloads are additionally compared with the RFC model values",
        "where the statement is silent (a continuation ending in an error other than Complete / Tag / TooLarge) only the returned value is compared and the model adopts the implementation's observable state (flag and hook buffer)",
        "a heartbeat message can be 3 + 65535 + padding bytes, more than the u16 length of a record header can state: the model's one-shot parse of an accumulated buffer states min(length, 65535) (the heartbeat parser only asks for at least 3)",
        "hooks verif_defrag_buffer / verif_current_type (cfg tls_parser_verif) are read-only accessors",
    ],
    run,
};

pub const SUBS: &[SubDef] = &[
    SubDef { prop: "C07", name: "splits", oracle: splits },
    SubDef { prop: "C07", name: "refusals", oracle: refusals },
    SubDef { prop: "C07", name: "history", oracle: history },
    SubDef { prop: "C07", name: "cap", oracle: cap },
    SubDef { prop: "C07", name: "oversize_first", oracle: oversize_first },
    SubDef { prop: "C07", name: "big_heartbeat", oracle: big_heartbeat },
    SubDef { prop: "C07", name: "negotiated", oracle: negotiated },
];

fn run(ctx: &Ctx) {
    // elapsed time is not an input of the statement: a defragmentation left alone for a while continues as if no time had passed. One
    // parser is given the first fragment of a message now and the last one at the end of the run, after at least 2 s (quick) / 65 s
    // (thorough); it waits on its own thread while the other sub-checks run
    let gap = std::time::Duration::from_secs(ctx.pick(2, 65));
    let waiter = std::thread::spawn(move || -> Result<u64, (String, String)> {
        let msg = MHs::Finished(vec![0x42; 36]).to_bytes();
        let hb = vec![1u8, 0, 4, 9, 8, 7, 6];
        let mut ph = TlsRecordsParser::default();
        let mut pb = TlsRecordsParser::default();
        let r1 = summarize(ph.parse_record(Rec::new(0x16, 0x0303, msg[..10].to_vec()).raw()));
        let r2 = summarize(pb.parse_record(Rec::new(0x18, 0x0303, hb[..2].to_vec()).raw()));
        if !matches!(r1, Sum::Incomplete(_)) || !matches!(r2, Sum::Incomplete(_)) {
            return Err(("C07:time-gap:first".into(), format!("first fragments answered {} / {}", show_sum(&r1), show_sum(&r2))));
        }
        let start = std::time::Instant::now();
        while start.elapsed() < gap {
            std::thread::sleep(std::time::Duration::from_millis(200));
            crate::alloc::progress();
        }
        let waited = start.elapsed().as_secs();
        let r1 = summarize(ph.parse_record(Rec::new(0x16, 0x0303, msg[10..].to_vec()).raw()));
        let r2 = summarize(pb.parse_record(Rec::new(0x18, 0x0303, hb[2..].to_vec()).raw()));
        let want1 = Sum::Ok { msgs: vec![MMsg::Hs(MHs::Finished(vec![0x42; 36]))], rem: vec![] };
        if r1 != want1 {
            return Err(("C07:time-gap:handshake".into(), format!("a Finished message whose second fragment arrives {} s after the first: the last fragment answers {}, accumulate-then-parse gives the message", waited, show_sum(&r1))));
        }
        if !matches!(r2, Sum::Ok { .. }) || ph.defrag_in_progress() || pb.defrag_in_progress() {
            return Err(("C07:time-gap:heartbeat".into(), format!("a heartbeat whose second fragment arrives {} s after the first: the last fragment answers {}", waited, show_sum(&r2))));
        }
        Ok(waited)
    });
    ctx.run_tape("splits", splits, ctx.pick(18_000, 300_000), 600);
    ctx.run_tape("refusals", refusals, ctx.pick(12_000, 200_000), 600);
    ctx.run_tape("history", history, ctx.pick(18_000, 300_000), if ctx.tier == Tier::Quick { 1200 } else { 3000 });
    ctx.run_tape("cap", cap, ctx.pick(12, 120), 64);
    ctx.run_tape("oversize_first", oversize_first, ctx.pick(8, 48), 64);
    ctx.run_tape("big_heartbeat", big_heartbeat, ctx.pick(400, 6000), 64);
    ctx.run_tape("negotiated", negotiated, ctx.pick(12_000, 120_000), 400);
    // hand-built continuation records of 4 GiB and more (zero pages, never touched): the size test must hold in full usize arithmetic
    ctx.run_fn("huge_continuation", true, "2 first fragments x continuation records of 2^32-1, 2^32, 2^32+1000 and 2^32+10 MiB bytes while defragmenting: refused with TooLarge, state unchanged, the defragmentation still completes", |obs| {
        let sizes = [(1usize << 32) - 1, 1 << 32, (1 << 32) + 1000, (1 << 32) + MAX_DATA];
        let mut big: Vec<u8> = Vec::new();
        if big.try_reserve_exact(sizes[3]).is_err() {
            obs.class("address-space-unavailable");
            return Ok(());
        }
        big = vec![0u8; sizes[3]];
        for (ctype, first, rest) in [(0x18u8, vec![1u8, 0], vec![2u8, 0xab, 0xcd]), (0x16, vec![14u8, 0, 0], vec![0u8])] {
            for &n in &sizes {
                obs.evals_add(1);
                let mut p = TlsRecordsParser::default();
                let mut m = Model::default();
                let got = step(&mut p, &mut m, &Op::Parse(Rec::new(ctype, 0x0303, first.clone())), "first fragment")?;
                ensure!(matches!(got, Sum::Incomplete(_)), "C07:huge-continuation:first", "first fragment answered {}", show_sum(&got));
                // the huge record borrows the zero buffer (no copy is made unless the parser accepts it)
                let raw = TlsRawRecord { hdr: TlsRecordHeader { record_type: TlsRecordType(ctype), version: TlsVersion(0x0303), len: 0 }, data: &big[..n] };
                let before = p.verif_defrag_buffer().to_vec();
                let got = guard("TlsRecordsParser::parse_record", || summarize(p.parse_record(raw)))?;
                ensure!(got == Sum::Error(ErrorKind::TooLarge), "C07:huge-continuation:not-refused", "{} bytes buffered + a fragment of {} bytes (2^32 {:+}): must be refused with TooLarge, got {}", before.len(), n, n as i64 - (1i64 << 32), show_sum(&got));
                ensure!(p.verif_defrag_buffer() == before.as_slice() && p.defrag_in_progress(), "C07:huge-continuation:state-changed", "the refused {}-byte fragment changed the state (buffer {} -> {} bytes)", n, before.len(), p.verif_defrag_buffer().len());
                let got = step(&mut p, &mut m, &Op::Parse(Rec::new(ctype, 0x0303, rest.clone())), "completion after the refusal")?;
                ensure!(matches!(got, Sum::Ok { .. }), "C07:huge-continuation:completion", "after the refusal the defragmentation must still complete, got {}", show_sum(&got));
                obs.nontrivial(n as u64 ^ ctype as u64);
            }
        }
        obs.sample(json!({"continuation_sizes": sizes.to_vec()}));
        Ok(())
    });
    ctx.run_fn("time_gap", true, "one handshake and one heartbeat defragmentation left alone for 2 s (quick) / 65 s (thorough) between the first and the last fragment", move |obs| {
        match waiter.join() {
            Ok(Ok(waited)) => {
                obs.evals_add(2);
                obs.nontrivial(waited);
                obs.sample(json!({"seconds_between_fragments": waited}));
                Ok(())
            }
            Ok(Err((sig, msg))) => fail(sig, msg),
            Err(_) => fail("panic:C07:time-gap", "the waiting thread panicked"),
        }
    });
}

pub const MAX_DATA: usize = 10 * 1024 * 1024;

/// owned summary of one call's result
#[derive(Clone, Debug, PartialEq)]
pub enum Sum {
    Ok { msgs: Vec<MMsg>, rem: Vec<u8> },
    Incomplete(Option<usize>),
    Error(ErrorKind),
    Failure(ErrorKind),
}

pub fn summarize(r: IResult<&[u8], Vec<TlsMessage>>) -> Sum {
    match r {
        Ok((rem, v)) => Sum::Ok { msgs: conv::msgs(&v), rem: rem.to_vec() },
        Err(Err::Incomplete(Needed::Unknown)) => Sum::Incomplete(None),
        Err(Err::Incomplete(Needed::Size(n))) => Sum::Incomplete(Some(n.get())),
        Err(Err::Error(e)) => Sum::Error(e.code),
        Err(Err::Failure(e)) => Sum::Failure(e.code),
    }
}

#[derive(Clone, Debug)]
pub struct Rec {
    pub ctype: u8,
    pub version: u16,
    pub len: u16,
    pub data: Vec<u8>,
}

impl Rec {
    pub fn new(ctype: u8, version: u16, data: Vec<u8>) -> Rec {
        Rec { ctype, version, len: data.len() as u16, data }
    }
    pub fn raw(&self) -> TlsRawRecord<'_> {
        TlsRawRecord { hdr: TlsRecordHeader { record_type: TlsRecordType(self.ctype), version: TlsVersion(self.version), len: self.len }, data: &self.data }
    }
    pub fn short(&self) -> String {
        format!("{:#04x}/{}B{}", self.ctype, self.data.len(), if self.len as usize != self.data.len() { format!("(hdr {})", self.len) } else { String::new() })
    }
}

#[derive(Clone, Debug)]
pub enum Op {
    Parse(Rec),
    NoCopy(Rec),
    Reset,
}

/// the public one-shot parser, as the model's oracle
fn oneshot(data: &[u8], ctype: u8, version: u16, len: u16) -> Sum {
    let hdr = TlsRecordHeader { record_type: TlsRecordType(ctype), version: TlsVersion(version), len };
    summarize(parse_tls_record_with_header(data, &hdr))
}

/// reference model: accumulate same-type fragments until the one-shot parser succeeds
#[derive(Default, Clone)]
pub struct Model {
    pub buf: Vec<u8>,
    pub cur: Option<u8>,
    /// set when the last answer came from a path the statement does not fix
    pub unspecified: bool,
    /// a hand-built record longer than the record-length cap has been fed (the "buffer never reaches 10 MiB" clause is about records within the cap)
    pub beyond_cap: bool,
    /// which rule produced the last answer
    pub path: &'static str,
}

fn is_complete_err(s: &Sum) -> bool {
    matches!(s, Sum::Error(ErrorKind::Complete) | Sum::Failure(ErrorKind::Complete))
}

impl Model {
    pub fn nocopy(&mut self, r: &Rec) -> Sum {
        self.unspecified = false;
        if self.cur.is_some() {
            self.path = "nocopy-in-progress";
            return Sum::Failure(ErrorKind::NonEmpty);
        }
        let s = oneshot(&r.data, r.ctype, r.version, r.len);
        self.path = if matches!(s, Sum::Ok { .. }) { "self-contained" } else { "nocopy-error" };
        if is_complete_err(&s) {
            Sum::Incomplete(None)
        } else {
            s
        }
    }
    pub fn parse(&mut self, r: &Rec) -> Sum {
        self.unspecified = false;
        if r.data.len() > 16640 {
            self.beyond_cap = true;
        }
        match self.cur {
            None => {
                if r.ctype == 0x15 || r.ctype == 0x14 {
                    return self.nocopy(r);
                }
                let s = oneshot(&r.data, r.ctype, r.version, r.len);
                match s {
                    Sum::Ok { .. } => {
                        self.path = "self-contained";
                        s
                    }
                    Sum::Incomplete(_) => {
                        self.path = "first-fragment";
                        self.cur = Some(r.ctype);
                        self.buf = r.data.clone();
                        Sum::Incomplete(None)
                    }
                    _ if is_complete_err(&s) => {
                        self.path = "first-fragment";
                        self.cur = Some(r.ctype);
                        self.buf = r.data.clone();
                        Sum::Incomplete(None)
                    }
                    e => {
                        self.path = "first-record-error";
                        e
                    }
                }
            }
            Some(c) => {
                if r.ctype != c {
                    self.path = "foreign-type";
                    return Sum::Error(ErrorKind::Tag);
                }
                if self.buf.len().saturating_add(r.data.len()) >= MAX_DATA {
                    self.path = "size-limit";
                    return Sum::Error(ErrorKind::TooLarge);
                }
                self.buf.extend_from_slice(&r.data);
                // the pseudo header states the accumulated length; a u16 cannot state more than 65535 (a heartbeat message can be 3 + 65535 + padding bytes)
                let s = oneshot(&self.buf, r.ctype, r.version, self.buf.len().min(65535) as u16);
                match s {
                    Sum::Ok { .. } => {
                        self.path = "completion";
                        self.cur = None;
                        s
                    }
                    _ if is_complete_err(&s) => {
                        self.path = "continuation";
                        Sum::Incomplete(None)
                    }
                    e => {
                        // "accumulate ... until the one-shot parser succeeds": a definitive error is not a success, so the
                        // fragments stay accumulated and defragmentation continues (the answer is the one-shot parser's error)
                        self.path = "continuation-error";
                        e
                    }
                }
            }
        }
    }
    pub fn reset(&mut self) {
        *self = Model::default();
    }
}

fn show_sum(s: &Sum) -> String {
    match s {
        Sum::Ok { msgs, rem } => format!("Ok({} message(s), remainder {} bytes)", msgs.len(), rem.len()),
        x => format!("{:?}", x),
    }
}

/// apply one op to implementation and model, compare everything observable
fn step(p: &mut TlsRecordsParser, m: &mut Model, op: &Op, trace: &str) -> Result<Sum, Fail> {
    let before_buf = p.verif_defrag_buffer().to_vec();
    let before_cur = p.verif_current_type().map(|t| t.0);
    let was_in_progress = m.cur.is_some();
    let (got, want, what) = match op {
        Op::Parse(r) => (guard("TlsRecordsParser::parse_record", || summarize(p.parse_record(r.raw())))?, m.parse(r), format!("parse_record({})", r.short())),
        Op::NoCopy(r) => (guard("TlsRecordsParser::parse_record_nocopy", || summarize(p.parse_record_nocopy(r.raw())))?, m.nocopy(r), format!("parse_record_nocopy({})", r.short())),
        Op::Reset => {
            guard("TlsRecordsParser::reset", || p.reset())?;
            m.reset();
            (Sum::Incomplete(None), Sum::Incomplete(None), "reset()".to_string())
        }
    };
    let _ = was_in_progress;
    let kind = if matches!(op, Op::Reset) { "reset" } else { m.path };
    ensure!(got == want, format!("C07:{}:result", kind), "{} after [{}]: the parser answers {}, accumulate-then-parse gives {}", what, trace, show_sum(&got), show_sum(&want));
    if m.unspecified {
        // statement silent: adopt the implementation's state
        m.cur = p.verif_current_type().map(|t| t.0);
        m.buf = p.verif_defrag_buffer().to_vec();
    }
    ensure!(p.defrag_in_progress() == m.cur.is_some(), format!("C07:{}:in-progress-flag", kind), "{} after [{}]: defrag_in_progress() is {}, expected {}", what, trace, p.defrag_in_progress(), m.cur.is_some());
    ensure!(m.beyond_cap || p.verif_defrag_buffer().len() < MAX_DATA, "C07:buffer-reached-10MiB", "{}: the buffer holds {} bytes (>= 10 MiB)", what, p.verif_defrag_buffer().len());
    if m.cur.is_some() {
        ensure!(p.verif_current_type().map(|t| t.0) == m.cur, format!("C07:{}:current-type", kind), "{}: current type {:?}, expected {:?}", what, p.verif_current_type(), m.cur);
        ensure!(p.verif_defrag_buffer() == m.buf.as_slice(), format!("C07:{}:buffer-content", kind), "{} after [{}]: the defragmentation buffer holds {} bytes {}, the fragments received so far are {} bytes {}", what, trace, p.verif_defrag_buffer().len(), hex_short(p.verif_defrag_buffer()), m.buf.len(), hex_short(&m.buf));
    }
    if matches!(kind, "foreign-type" | "size-limit" | "nocopy-in-progress") {
        ensure!(p.verif_defrag_buffer() == before_buf.as_slice() && p.verif_current_type().map(|t| t.0) == before_cur, format!("C07:{}:state-changed", kind), "{}: a refused call changed the parser state (buffer {} -> {} bytes, type {:?} -> {:?})", what, before_buf.len(), p.verif_defrag_buffer().len(), before_cur, p.verif_current_type());
    }
    Ok(got)
}

/// payload whose first message can be fragmented: (content type, payload bytes, length of first message, model messages, padding)
fn gen_payload(t: &mut Tape) -> (u8, Vec<u8>, usize, Vec<MMsg>, Vec<u8>) {
    if t.chance(190) {
        let rec = gen_record_of(t, 2);
        let first = match &rec.msgs[0] {
            MMsg::Hs(h) => h.to_bytes().len(),
            _ => 0,
        };
        (0x16, rec.payload_bytes(), first, rec.msgs, vec![])
    } else {
        let rec = gen_record_of(t, 4);
        let first = rec.payload_bytes().len() - rec.padding.len();
        (0x18, rec.payload_bytes(), first, rec.msgs.clone(), rec.padding)
    }
}

/// cut points such that the first message is completed only by the last fragment
fn gen_cuts(t: &mut Tape, first: usize, k: usize) -> Vec<usize> {
    let mut cuts: Vec<usize> = (0..k.saturating_sub(1))
        .map(|_| match t.weighted(&[3, 5, 2]) {
            0 => t.below(first.min(5)),          // inside the 4-byte header (or 0 = empty fragment)
            1 => t.below(first),
            _ => first - 1 - t.below(first.min(3)),
        })
        .collect();
    cuts.sort();
    cuts
}

fn fragments(payload: &[u8], cuts: &[usize]) -> Vec<Vec<u8>> {
    let mut out = Vec::new();
    let mut prev = 0;
    for &c in cuts {
        out.push(payload[prev..c].to_vec());
        prev = c;
    }
    out.push(payload[prev..].to_vec());
    out
}

fn splits(t: &mut Tape, obs: &mut Obs) -> R {
    let (ctype, payload, first, msgs, padding) = gen_payload(t);
    if first == 0 {
        return Ok(());
    }
    let k = 1 + t.below(8);
    let cuts = gen_cuts(t, first, k);
    let mut frags = fragments(&payload, &cuts);
    // a run of empty fragments somewhere before the last one ("cut points anywhere ... empty fragments": any number of them)
    if frags.len() >= 2 && t.chance(50) {
        let run = t.pick(&[2usize, 5, 31, 32, 33, 34, 64, 100, 255, 256, 257, 1000]);
        let at = t.below(frags.len());
        for _ in 0..run {
            frags.insert(at, Vec::new());
        }
        obs.class("run-of-empty-fragments");
    }
    let version = gen_version(t);
    let mut p = TlsRecordsParser::default();
    if t.chance(40) {
        // reuse a parser that has completed an unrelated defragmentation before
        let old = MHs::Finished(t.bytes(20)).to_bytes();
        let _ = guard("parse_record", || summarize(p.parse_record(Rec::new(0x16, 0x0303, old[..7].to_vec()).raw())))?;
        let _ = guard("parse_record", || summarize(p.parse_record(Rec::new(0x16, 0x0303, old[7..].to_vec()).raw())))?;
        obs.class("reused-parser");
    }
    let label = format!("{}:k={}", if ctype == 0x16 { "handshake" } else { "heartbeat" }, frags.len());
    let descr = if frags.len() > 24 { format!("{} fragments, {} of them empty", frags.len(), frags.iter().filter(|f| f.is_empty()).count()) } else { frags.iter().map(|f| f.len().to_string()).collect::<Vec<_>>().join("+") };
    obs.sample_class(&label, || json!({"content_type": ctype, "fragments": descr, "first_message_bytes": first, "messages": msgs.len()}));
    if frags.len() >= 2 {
        obs.nontrivial(fnv64(format!("{:?}{:?}", cuts, payload).as_bytes()));
    }
    if frags.iter().any(|f| f.is_empty()) {
        obs.class("has-empty-fragment");
    }
    // the fragments of one message may travel in records of different versions (the record version selects nothing)
    let vary_version = t.bool();
    if vary_version {
        obs.class("record-version-varies");
    }
    for (i, f) in frags.iter().enumerate() {
        let v = if vary_version && i > 0 { gen_version(t) } else { version };
        let rec = Rec::new(ctype, v, f.clone());
        let got = guard("TlsRecordsParser::parse_record", || summarize(p.parse_record(rec.raw())))?;
        if i + 1 < frags.len() {
            ensure!(matches!(got, Sum::Incomplete(_)), "C07:splits:not-incomplete", "fragment {} of {} ({} bytes, split {}): every call but the last must answer Incomplete, got {}", i + 1, frags.len(), f.len(), descr, show_sum(&got));
            ensure!(p.defrag_in_progress(), "C07:splits:flag-off", "fragment {} of {} (split {}): defrag_in_progress() must be true", i + 1, frags.len(), descr);
        } else {
            match got {
                Sum::Ok { msgs: m, rem } => {
                    ensure!(m == msgs, "C07:splits:messages", "split {}: the last fragment must return exactly the encoded messages: got {} expected {}", descr, trunc(&format!("{:?}", m)), trunc(&format!("{:?}", msgs)));
                    ensure!(rem == padding, "C07:splits:remainder", "split {}: remainder {} bytes, expected {}", descr, rem.len(), padding.len());
                }
                o => return fail("C07:splits:last-not-ok", format!("split {} of a {}-byte payload: the last fragment must complete the message, got {}", descr, payload.len(), show_sum(&o))),
            }
            ensure!(!p.defrag_in_progress(), "C07:splits:flag-stuck", "split {}: defragmentation must end with the last fragment", descr);
        }
    }
    Ok(())
}

fn refusals(t: &mut Tape, obs: &mut Obs) -> R {
    let (ctype, payload, first, msgs, padding) = gen_payload(t);
    if first < 2 {
        return Ok(());
    }
    let k = 2 + t.below(4);
    let cuts = gen_cuts(t, first, k);
    let frags = fragments(&payload, &cuts);
    let version = gen_version(t);
    let mut p = TlsRecordsParser::default();
    let mut m = Model::default();
    let mut trace = String::new();
    let mut intruders = 0;
    for (i, f) in frags.iter().enumerate() {
        if i > 0 {
            // between fragments: 0..3 calls that must be refused and change nothing
            for _ in 0..t.below(4) {
                let op = match t.below(3) {
                    0 => {
                        let mut c = if t.bool() { t.pick(&[0x14u8, 0x15, 0x16, 0x17, 0x18]) } else { t.u8() };
                        if c == ctype {
                            c = if ctype == 0x16 { 0x17 } else { 0x16 };
                        }
                        let data = if t.bool() { gen_record(t).payload_bytes() } else { t.small_blob(30) };
                        obs.class("intruder:foreign-type");
                        Op::Parse(Rec::new(c, gen_version(t), data))
                    }
                    1 => {
                        obs.class("intruder:nocopy");
                        let r = gen_record(t);
                        Op::NoCopy(Rec::new(r.ctype, r.version, r.payload_bytes()))
                    }
                    _ => {
                        obs.class("intruder:nocopy-same-type");
                        Op::NoCopy(Rec::new(ctype, version, f.clone()))
                    }
                };
                let got = step(&mut p, &mut m, &op, &trace)?;
                ensure!(matches!(got, Sum::Error(ErrorKind::Tag) | Sum::Failure(ErrorKind::NonEmpty)) && matches!(m.path, "foreign-type" | "nocopy-in-progress"), "C07:refusals:not-refused", "{:?} while defragmenting must be refused, got {}", op, show_sum(&got));
                intruders += 1;
            }
        }
        let got = step(&mut p, &mut m, &Op::Parse(Rec::new(ctype, version, f.clone())), &trace)?;
        trace.push_str(&format!("{}B ", f.len()));
        if i + 1 == frags.len() {
            match got {
                Sum::Ok { msgs: mm, rem } => ensure!(mm == msgs && rem == padding, "C07:refusals:completion", "the interrupted defragmentation must still complete with the encoded messages; got {} message(s), remainder {}", mm.len(), rem.len()),
                o => return fail("C07:refusals:completion", format!("the interrupted defragmentation did not complete: {}", show_sum(&o))),
            }
        }
    }
    if intruders > 0 {
        obs.nontrivial(fnv64(format!("{:?}{}", cuts, intruders).as_bytes()) ^ fnv64(&payload));
        obs.sample(json!({"content_type": ctype, "fragments": frags.iter().map(|f| f.len()).collect::<Vec<_>>(), "refused_calls": intruders}));
    }
    Ok(())
}

pub fn gen_ops(t: &mut Tape, max_ops: usize) -> Vec<Op> {
    let n = t.below(max_ops + 1);
    let mut ops = Vec::new();
    let mut queue: Vec<Rec> = Vec::new();
    while ops.len() < n {
        let w_next = if queue.is_empty() { 0 } else { 12 };
        match t.weighted(&[w_next, 4, 3, 2, 2, 1, 1, 1]) {
            0 => ops.push(Op::Parse(queue.remove(0))),
            1 => {
                // plan a split
                let (ctype, payload, first, _, _) = gen_payload(t);
                if first == 0 {
                    continue;
                }
                let k = 1 + t.below(6);
                let cuts = gen_cuts(t, first, k);
                let version = gen_version(t);
                let vary = t.chance(100);
                queue = fragments(&payload, &cuts).into_iter().map(|f| Rec::new(ctype, if vary { gen_version(t) } else { version }, f)).collect();
                if t.chance(30) {
                    // never-completing variant: drop the last fragment
                    queue.pop();
                }
            }
            2 => {
                let r = gen_record(t);
                ops.push(Op::Parse(Rec::new(r.ctype, r.version, r.payload_bytes())));
            }
            3 => {
                let c = if t.bool() { t.pick(&[0x14u8, 0x15, 0x16, 0x17, 0x18]) } else { t.u8() };
                ops.push(Op::Parse(Rec::new(c, gen_version(t), t.small_blob(40))));
            }
            4 => {
                let r = if !queue.is_empty() && t.bool() { queue[0].clone() } else { let r = gen_record(t); Rec::new(r.ctype, r.version, r.payload_bytes()) };
                ops.push(Op::NoCopy(r));
            }
            5 => ops.push(Op::Reset),
            6 => ops.push(Op::Parse(Rec::new(t.pick(&[0x16u8, 0x18, 0x17, 0x15, 0x14]), 0x0303, vec![]))),
            _ => {
                // header length inconsistent with the data
                let mut r = Rec::new(t.pick(&[0x16u8, 0x18, 0x17]), 0x0303, t.small_blob(20));
                r.len = t.u16b();
                ops.push(if t.bool() { Op::Parse(r) } else { Op::NoCopy(r) });
            }
        }
    }
    ops
}

pub fn op_label(o: &Op) -> String {
    match o {
        Op::Parse(r) => format!("P({})", r.short()),
        Op::NoCopy(r) => format!("N({})", r.short()),
        Op::Reset => "R".into(),
    }
}

fn history(t: &mut Tape, obs: &mut Obs) -> R {
    let max_ops = if t.chance(40) { 120 } else { 40 };
    let ops = gen_ops(t, max_ops);
    let mut p = TlsRecordsParser::default();
    let mut m = Model::default();
    // shadow: a parser that is fresh at every point where no defragmentation is in progress
    let mut shadow = TlsRecordsParser::default();
    let mut trace = String::new();
    let mut in_progress_calls = 0;
    for op in &ops {
        if m.cur.is_none() {
            shadow = TlsRecordsParser::default();
        } else if !matches!(op, Op::Reset) {
            in_progress_calls += 1;
        }
        let got = step(&mut p, &mut m, op, &trace)?;
        let sh = match op {
            Op::Parse(r) => guard("parse_record (fresh parser)", || summarize(shadow.parse_record(r.raw())))?,
            Op::NoCopy(r) => guard("parse_record_nocopy (fresh parser)", || summarize(shadow.parse_record_nocopy(r.raw())))?,
            Op::Reset => {
                shadow.reset();
                Sum::Incomplete(None)
            }
        };
        ensure!(got == sh, "C07:history:differs-from-fresh-parser", "{} after [{}]: the reused parser answers {}, a parser that was fresh when this defragmentation started answers {}", op_label(op), trace, show_sum(&got), show_sum(&sh));
        if trace.len() < 400 {
            trace.push_str(&op_label(op));
            trace.push(' ');
        }
    }
    obs.class(&format!("ops={}", (ops.len() / 10) * 10));
    obs.class(&format!("in_progress_calls={}", in_progress_calls.min(9)));
    if in_progress_calls > 0 {
        obs.nontrivial(fnv64(trace.as_bytes()) ^ ops.len() as u64);
        obs.sample(json!({"ops": ops.len(), "calls_while_defragmenting": in_progress_calls, "history": trunc(&trace)}));
    }
    Ok(())
}

/// a hand-built FIRST fragment at or beyond the limit (stored without a size check), then continuation fragments: each of them is refused
/// with TooLarge and changes nothing, foreign types are still refused for their type, reset() recovers
fn oversize_first(t: &mut Tape, obs: &mut Obs) -> R {
    let n = t.pick(&[MAX_DATA - 1, MAX_DATA, MAX_DATA + 1, MAX_DATA + 16, MAX_DATA + 16640, MAX_DATA + (1 << 20)]);
    let mut data = vec![0u8; n];
    data[..4].copy_from_slice(&[1, 0xff, 0xff, 0xff]);
    let mut p = TlsRecordsParser::default();
    let mut m = Model::default();
    let got = step(&mut p, &mut m, &Op::Parse(Rec::new(0x16, 0x0303, data)), "oversize first fragment")?;
    ensure!(matches!(got, Sum::Incomplete(_)), "C07:oversize-first:not-incomplete", "a {}-byte first fragment of an incomplete message answered {}", n, show_sum(&got));
    for k in 0..1 + t.below(4) {
        let sz = t.pick(&[0usize, 1, 2, 16384, 16640]);
        let got = step(&mut p, &mut m, &Op::Parse(Rec::new(0x16, 0x0303, vec![0xaa; sz])), "after an oversize first fragment")?;
        let want_refusal = n.saturating_add(sz) >= MAX_DATA;
        if want_refusal {
            ensure!(got == Sum::Error(ErrorKind::TooLarge), "C07:oversize-first:not-refused", "buffer {} bytes + fragment {} bytes (call {}): must be refused with TooLarge, got {}", n, sz, k + 2, show_sum(&got));
        }
        if t.chance(60) {
            let got = step(&mut p, &mut m, &Op::Parse(Rec::new(0x17, 0x0303, vec![1, 2, 3])), "foreign type after an oversize first fragment")?;
            ensure!(got == Sum::Error(ErrorKind::Tag), "C07:oversize-first:foreign-not-tag", "a foreign record must be refused with Tag, got {}", show_sum(&got));
        }
    }
    step(&mut p, &mut m, &Op::Reset, "reset")?;
    let hd = MHs::ServerDone(vec![]).to_bytes();
    let got = step(&mut p, &mut m, &Op::Parse(Rec::new(0x16, 0x0303, hd)), "after reset")?;
    ensure!(matches!(got, Sum::Ok { .. }), "C07:oversize-first:after-reset", "after reset() a complete record answered {}", show_sum(&got));
    obs.nontrivial(n as u64);
    obs.sample(json!({"first_fragment_bytes": n}));
    Ok(())
}

/// one parser sees a hello whose extensions negotiate something about later records (max_fragment_length, heartbeat mode,
/// record_size_limit, connection_id, supported_versions ...), whole or defragmented, and then traffic: large application-data and
/// handshake records, heartbeat records and fragments. "After a completed message it behaves like a fresh parser": the reference model
/// has no memory of the hello
fn negotiated(t: &mut Tape, obs: &mut Obs) -> R {
    let (ext, _) = gen_negotiation_ext(t);
    let hello = if t.bool() {
        MHs::ServerHello { version: 0x0303, random: t.bytes(32), sid: None, cipher: 0xc02f, comp: 0, ext: Some(ext.clone()) }
    } else {
        MHs::ClientHello { version: 0x0303, random: t.bytes(32), sid: None, ciphers: vec![0xc02f, 0x1301], comp: vec![0], ext: Some(ext.clone()) }
    };
    let hb = hello.to_bytes();
    let mut p = TlsRecordsParser::default();
    let mut m = Model::default();
    let mut trace = String::new();
    let split = t.bool();
    if split {
        let c = 1 + t.below(hb.len() - 1);
        step(&mut p, &mut m, &Op::Parse(Rec::new(0x16, 0x0303, hb[..c].to_vec())), "hello, first fragment")?;
        let got = step(&mut p, &mut m, &Op::Parse(Rec::new(0x16, 0x0303, hb[c..].to_vec())), "hello, last fragment")?;
        ensure!(matches!(got, Sum::Ok { .. }), "C07:negotiated:hello", "the defragmented hello answered {}", show_sum(&got));
    } else {
        let got = step(&mut p, &mut m, &Op::Parse(Rec::new(0x16, 0x0303, hb.clone())), "hello")?;
        ensure!(matches!(got, Sum::Ok { .. }), "C07:negotiated:hello", "the hello record answered {}", show_sum(&got));
    }
    trace.push_str(if split { "hello (2 fragments)" } else { "hello" });
    let n = 1 + t.below(5);
    for _ in 0..n {
        let big = t.pick(&[513usize, 541, 600, 1025, 2049, 4097, 16384]);
        let rec = match t.below(6) {
            0 => Rec::new(0x17, 0x0303, vec![0x61; big]),
            1 => {
                // first fragment of a large Certificate message
                let mut d = vec![11u8, 0, 0x40, 0];
                d.extend(std::iter::repeat(0x30).take(big));
                Rec::new(0x16, 0x0303, d)
            }
            2 => Rec::new(0x18, 0x0303, vec![1, 0, 2, 0xaa, 0xbb, 0, 0, 0, 0, 0, 0, 0, 0, 0, 0, 0, 0, 0, 0, 0, 0]),
            3 => Rec::new(0x18, 0x0303, vec![2, 0]),
            4 => Rec::new(0x16, 0x0303, MHs::Certificate { chain: vec![vec![0x30; big]] }.to_bytes()),
            _ => Rec::new(0x15, 0x0303, vec![1, 0]),
        };
        trace.push_str(&format!(", {}", rec.short()));
        step(&mut p, &mut m, &Op::Parse(rec), &trace)?;
        if t.chance(60) {
            step(&mut p, &mut m, &Op::Reset, &trace)?;
            trace.push_str(", reset");
        }
    }
    obs.nontrivial(fnv64(trace.as_bytes()) ^ fnv64(&ext));
    obs.sample_class(if split { "hello-defragmented" } else { "hello-whole" }, || json!({"negotiating_extensions": hex_short(&ext), "history": trace}));
    Ok(())
}

/// heartbeat messages larger than one record, up to the largest legal one (3 + 65535 + padding), in records within the cap
fn big_heartbeat(t: &mut Tape, obs: &mut Obs) -> R {
    let plen = match t.weighted(&[4, 2, 2, 1, 3]) {
        0 => 65535usize,
        1 => 65534,
        2 => 65533,
        3 => 65532 - t.below(8),
        _ => 49152 + t.below(16384),
    };
    let payload: Vec<u8> = {
        let seed = t.u8();
        (0..plen).map(|i| (i as u8).wrapping_mul(31).wrapping_add(seed)).collect()
    };
    let padding = if t.chance(32) { Vec::new() } else { vec![t.u8(); 16 + t.below(240)] };
    let ty = t.pick(&[1u8, 2, 1, 2, 0, 255]);
    let msg = MMsg::Heartbeat { ty, payload_len: plen as u16, payload };
    let rec = MRecord { ctype: 0x18, version: 0x0303, msgs: vec![msg.clone()], padding: padding.clone() };
    let bytes = rec.payload_bytes();
    let first = 3 + plen;
    // fragment boundaries: record-sized steps, steered onto an accumulated length around 64 KiB when one is in reach
    let target = 65535 + t.below(5);
    let mut cuts = Vec::new();
    let mut pos = 0usize;
    loop {
        let to_target = target.saturating_sub(pos);
        let stepn = if to_target > 0 && to_target <= 16384 && t.chance(200) {
            to_target
        } else {
            match t.weighted(&[5, 2, 2, 1]) {
                0 => 16384,
                1 => 1 + t.below(16384),
                2 => 16384 - t.below(4),
                _ => t.below(4),
            }
        };
        pos += stepn;
        if pos >= first {
            break;
        }
        cuts.push(pos);
        if cuts.len() > 64 {
            break;
        }
    }
    // the last record carries the rest of the message and the padding; keep it within the cap
    while bytes.len() - cuts.last().copied().unwrap_or(0) > 16640 {
        let c = cuts.last().copied().unwrap_or(0) + 16384;
        if c >= first {
            cuts.push(first - 1);
        } else {
            cuts.push(c);
        }
    }
    let frags = fragments(&bytes, &cuts);
    let descr = frags.iter().map(|f| f.len().to_string()).collect::<Vec<_>>().join("+");
    let boundaries: Vec<usize> = cuts.clone();
    let version = gen_version(t);
    let mut p = TlsRecordsParser::default();
    let mut m = Model::default();
    for (i, f) in frags.iter().enumerate() {
        let got = step(&mut p, &mut m, &Op::Parse(Rec::new(0x18, version, f.clone())), &descr)?;
        if i + 1 < frags.len() {
            ensure!(matches!(got, Sum::Incomplete(_)), "C07:big-heartbeat:not-incomplete", "heartbeat of 3+{}+{} bytes sent as {}: after fragment {} ({} bytes accumulated, message incomplete) every call but the last must answer Incomplete, got {}", plen, padding.len(), descr, i + 1, boundaries[i], show_sum(&got));
            ensure!(p.defrag_in_progress(), "C07:big-heartbeat:flag-off", "heartbeat sent as {}: defrag_in_progress() must be true after fragment {}", descr, i + 1);
        } else {
            match got {
                Sum::Ok { msgs, rem } => {
                    ensure!(msgs == vec![msg.clone()], "C07:big-heartbeat:messages", "heartbeat of 3+{}+{} bytes sent as {}: the last fragment must return the message, got {}", plen, padding.len(), descr, trunc(&format!("{:?}", msgs)));
                    ensure!(rem == padding, "C07:big-heartbeat:remainder", "heartbeat sent as {}: remainder {} bytes, expected the {} padding bytes", descr, rem.len(), padding.len());
                }
                o => return fail("C07:big-heartbeat:last-not-ok", format!("heartbeat of 3+{}+{} bytes sent as {}: the last fragment ({} bytes accumulated) must complete the message, got {}", plen, padding.len(), descr, bytes.len(), show_sum(&o))),
            }
            ensure!(!p.defrag_in_progress(), "C07:big-heartbeat:flag-stuck", "heartbeat sent as {}: defragmentation must end with the last fragment", descr);
        }
    }
    obs.nontrivial(fnv64(format!("{}/{:?}", plen, cuts).as_bytes()));
    if bytes.len() > 65535 {
        obs.class("message-longer-than-65535");
    }
    if boundaries.iter().any(|&b| (65536..=65538).contains(&b)) {
        obs.class("boundary-at-65536..65538");
    }
    if boundaries.iter().any(|&b| b == 65535) {
        obs.class("boundary-at-65535");
    }
    obs.sample_class(if bytes.len() > 65535 { "over-64KiB" } else { "under-64KiB" }, || json!({"payload_length": plen, "padding": padding.len(), "fragments": descr}));
    Ok(())
}

/// never-completing streams up to the 10 MiB limit
fn cap(t: &mut Tape, obs: &mut Obs) -> R {
    let ctype = t.pick(&[0x16u8, 0x16, 0x18]);
    let mut first = Enc::new();
    if ctype == 0x16 {
        first.u8(t.pick(&[11u8, 1, 12, 20]));
        first.u24(0xff_ffff);
    } else {
        first.u8(1);
        first.u16(0xffff);
    }
    let mut p = TlsRecordsParser::default();
    let mut m = Model::default();
    let sizes = [16640usize, 16384, 16640, 4096, 1, 0, 12345];
    let mode = t.below(2);
    // hand-built continuation records whose public hdr.len disagrees with data.len(): the limit counts the bytes that are buffered
    let hmode = t.below(3);
    let mut total = 0usize;
    let mut refused = 0;
    let mut calls = 0;
    let mut data = first.buf.clone();
    let mut completed = false;
    loop {
        let mut rec = Rec::new(ctype, 0x0303, data.clone());
        if calls > 0 && ctype == 0x16 {
            match hmode {
                1 => rec.len = 0,
                2 => rec.len = 16640,
                _ => {}
            }
        }
        let before = m.buf.len();
        let got = step(&mut p, &mut m, &Op::Parse(rec), "oversize stream")?;
        calls += 1;
        match got {
            Sum::Incomplete(_) => total += data.len(),
            Sum::Error(ErrorKind::TooLarge) => {
                refused += 1;
                ensure!(before + data.len() >= MAX_DATA, "C07:cap:early-refusal", "refused although {} + {} < 10 MiB", before, data.len());
                break;
            }
            // a heartbeat stream completes when 65535 payload bytes have arrived
            Sum::Ok { .. } if ctype == 0x18 => {
                completed = true;
                break;
            }
            o => return fail("C07:cap:unexpected", format!("oversize stream: call {} answered {}", calls, show_sum(&o))),
        }
        let n = if hmode == 2 && ctype == 0x16 { 8192 + t.below(8) } else if mode == 0 { 16640 } else { sizes[t.below(sizes.len())] };
        data = vec![0x5a; n];
        if calls > 20000 {
            return fail("C07:cap:never-refused", format!("{} bytes buffered after {} calls and no refusal", total, calls));
        }
    }
    if !completed {
        // refusals keep their documented reasons when the buffer is nearly full: a foreign type is refused for its type, whatever its size
        let other = if ctype == 0x16 { 0x17 } else { 0x16 };
        for n in [16640usize, 2, 0] {
            let data = if other == 0x15 { vec![1, 0] } else { vec![0x42; n] };
            let got = step(&mut p, &mut m, &Op::Parse(Rec::new(other, 0x0303, data)), "oversize stream, foreign type at the limit")?;
            calls += 1;
            ensure!(got == Sum::Error(ErrorKind::Tag), "C07:cap:foreign-not-tag", "a record of another content type ({} bytes) while {} bytes are buffered must be refused with Tag, got {}", n, m.buf.len(), show_sum(&got));
        }
        let got = step(&mut p, &mut m, &Op::Parse(Rec::new(0x15, 0x0303, vec![1, 0])), "oversize stream, alert at the limit")?;
        ensure!(got == Sum::Error(ErrorKind::Tag), "C07:cap:foreign-not-tag", "an alert record while defragmenting must be refused with Tag, got {}", show_sum(&got));
        // exact boundary: a fragment that would bring the buffer to exactly 10 MiB is refused, one byte less is taken
        let room = MAX_DATA - m.buf.len();
        for (n, want_refusal) in [(room, true), (room + 1, true), (room - 1, false), (1, true), (0, false)] {
            let mut rec = Rec::new(ctype, 0x0303, vec![0xa5; n]);
            if ctype == 0x16 {
                match hmode {
                    1 => rec.len = 0,
                    2 => rec.len = 16640,
                    _ => {}
                }
            }
            let blen = m.buf.len();
            let got = step(&mut p, &mut m, &Op::Parse(rec), "oversize stream, boundary")?;
            calls += 1;
            if want_refusal {
                refused += 1;
                ensure!(got == Sum::Error(ErrorKind::TooLarge), "C07:cap:boundary-not-refused", "buffer {} bytes + fragment {} bytes = {} (10 MiB = {}): must be refused with TooLarge, got {}", blen, n, blen + n, MAX_DATA, show_sum(&got));
            } else {
                ensure!(matches!(got, Sum::Incomplete(_)), "C07:cap:boundary-refused", "buffer {} bytes + fragment {} bytes stays below 10 MiB and must be accepted, got {}", blen, n, show_sum(&got));
                total += n;
            }
            ensure!(p.verif_defrag_buffer().len() < MAX_DATA, "C07:buffer-reached-10MiB", "the buffer holds {} bytes", p.verif_defrag_buffer().len());
        }
    }
    obs.nontrivial(fnv64(format!("{}/{}/{}/{}", ctype, mode, total, calls).as_bytes()));
    obs.class(if refused > 0 { "reached-limit" } else { "completed-before-limit" });
    obs.class(["hdr.len=data.len", "hdr.len=0", "hdr.len=16640>data.len"][if ctype == 0x16 { hmode } else { 0 }]);
    obs.sample(json!({"content_type": ctype, "calls": calls, "bytes_buffered": total, "refused_with_TooLarge": refused, "final_buffer": p.verif_defrag_buffer().len()}));
    Ok(())
}
