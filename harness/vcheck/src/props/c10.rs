//! C10 DTLS records and handshake fragments decode per RFC 6347.

use super::PropDef;
use crate::conv;
use crate::core::*;
use serde_json::json;
use std::cell::RefCell;
use tls_parser::nom::error::ErrorKind;
use tls_parser::nom::{Err, Needed};
use tls_parser::*;
use vmodel::model::*;
use vmodel::tape::{fill, Tape};
use vmodel::wire::{fnv64, hex_short, Enc};

pub const DEF: PropDef = PropDef {
    id: "C10",
    title: "DTLS records and handshake fragments decode per RFC 6347",
    rule: "frame_exhaustive = all 65536 declared lengths x content types {0x14,0x15,0x16,0x17,0x00,0xff} x 12 cut points around the 13-byte header and the record end, with \
           epoch / sequence patterns derived from the length; records = model DTLS records (epoch any, 48-bit sequence numbers weighted to 0, 1, 2^32, 2^48-1; ChangeCipherSpec, \
           alert and handshake records with 1..4 messages: ClientHello with cookie 0..255, HelloVerifyRequest, ServerHello, Certificate, ServerHelloDone, ClientKeyExchange, \
           and fragments) followed by trailing bytes, parsed whole and at every prefix (<= 300 bytes) or 48 sampled cuts; hs_header = handshake headers with (length, offset, \
           fragment length) over the full 24-bit ranges incl. offset+fragment = length, fragment = length-1, offset = 1, any type code; datagram = 1..5 records in one buffer vs \
           record-by-record; message_level = the DTLS ChangeCipherSpec / alert message parsers against their TLS siblings on every input of 0..2 bytes and 65536 3-byte inputs. Non-trivial = a handshake message with a non-empty body or a fragment, parsed past the header (records/hs_header/datagram), a complete header with \
           length within the cap (frame_exhaustive); distinct by hash of the bytes / by (type, length, cut class).",
    assumptions: &["13-byte record header and 12-byte handshake header are decoded by hand in the harness", "model encoders follow RFC 6347 4.1, 4.2.2, 4.3.2"],
    run,
};

pub const SUBS: &[SubDef] = &[
    SubDef { prop: "C10", name: "frame_exhaustive", oracle: frame_exhaustive },
    SubDef { prop: "C10", name: "records", oracle: records },
    SubDef { prop: "C10", name: "hs_header", oracle: hs_header },
    SubDef { prop: "C10", name: "datagram", oracle: datagram },
    SubDef { prop: "C10", name: "trailing_inside", oracle: trailing_inside },
    SubDef { prop: "C10", name: "frame_raw", oracle: frame_raw },
];
// message_level is an enumeration inside run(): it has no tape oracle to replay

const CAP: usize = (1 << 14) + 256;

fn run(ctx: &Ctx) {
    let types: Vec<u8> = if ctx.tier == Tier::Quick { vec![0x14, 0x15, 0x16, 0x17, 0x00, 0xff] } else { (0..=255u8).step_by(5).chain([0x14u8, 0x16, 0x17, 0x18]).collect() };
    let n = types.len();
    ctx.run_enum(
        "frame_exhaustive",
        frame_exhaustive,
        ctx.tier == Tier::Thorough,
        &format!("{} content types x all 65536 declared lengths x 12 cut points", n),
        {
            let full = (ctx.tier == Tier::Thorough) as u8;
            types.into_iter().flat_map(move |t| (0..=65535u32).map(move |l| vec![t, (l >> 8) as u8, l as u8, full]))
        },
    );
    ctx.run_tape("records", records, ctx.pick(50_000, 500_000), 700);
    ctx.run_tape("hs_header", hs_header, ctx.pick(50_000, 500_000), 200);
    ctx.run_tape("datagram", datagram, ctx.pick(20_000, 200_000), 1500);
    ctx.run_tape("trailing_inside", trailing_inside, ctx.pick(30_000, 200_000), 1500);
    ctx.run_tape("frame_raw", frame_raw, ctx.pick(50_000, 400_000), 80);
    // records packed to the cap with the smallest messages of each kind: alerts (2 bytes), ChangeCipherSpec (1 byte), header-only
    // handshake messages and zero-length fragments (12 bytes) - message counts on both sides of 2^14 / size and of the 2^14+256 cap / size
    ctx.run_fn("dense_records", true, "records of 8192 / 8193 / 8320 alerts, 16384 / 16385 / 16640 ChangeCipherSpec bytes, 1365 / 1366 / 1386 header-only handshake messages or zero-length fragments", |obs| {
        let mut cases: Vec<(String, MDtlsRecord)> = Vec::new();
        for n in [8192usize, 8193, 8320] {
            cases.push((format!("{} alerts", n), MDtlsRecord { ctype: 0x15, version: 0xfefd, epoch: 1, seq: n as u64, msgs: (0..n).map(|k| MDtlsMsg::Alert(1 + (k % 2) as u8, k as u8)).collect() }));
        }
        for n in [16384usize, 16385, 16640] {
            cases.push((format!("{} ChangeCipherSpec bytes", n), MDtlsRecord { ctype: 0x14, version: 0xfefd, epoch: 0, seq: n as u64, msgs: vec![MDtlsMsg::Ccs; n] }));
        }
        for n in [1365usize, 1366, 1386] {
            cases.push((format!("{} empty ServerHelloDone messages", n), MDtlsRecord { ctype: 0x16, version: 0xfefd, epoch: 0, seq: n as u64, msgs: (0..n).map(|k| MDtlsMsg::Hs(MDtlsHs { msg_type: 14, length: 0, message_seq: k as u16, fragment_offset: 0, fragment_length: 0, body: MDtlsBody::ServerDone(vec![]) })).collect() }));
            cases.push((format!("{} zero-length fragments", n), MDtlsRecord { ctype: 0x16, version: 0xfeff, epoch: 2, seq: n as u64, msgs: (0..n).map(|k| MDtlsMsg::Hs(MDtlsHs { msg_type: 11, length: 1000, message_seq: 3, fragment_offset: k as u32, fragment_length: 0, body: MDtlsBody::Fragment(vec![]) })).collect() }));
        }
        for (what, rec) in cases {
            obs.evals_add(1);
            let buf = rec.to_bytes();
            ensure!(buf.len() <= 13 + CAP, "harness:c10-dense", "{}: {} bytes", what, buf.len());
            match check_cut(&buf, obs)? {
                Some(Out::Ok { rec: Some(got), .. }) => ensure!(got == rec, "C10:dense:value", "a record of {} ({} bytes): {} message(s) decoded, {} written", what, buf.len() - 13, got.msgs.len(), rec.msgs.len()),
                _ => return fail("C10:dense:rejected", format!("a well-formed record of {} ({} bytes) was rejected: {}", what, buf.len() - 13, describe(&call(&buf)?))),
            }
            obs.nontrivial(fnv64(&buf));
            obs.sample(json!({"record": what, "payload_bytes": buf.len() - 13}));
        }
        Ok(())
    });
    // "ChangeCipherSpec and alert records decode as in TLS": the message-level DTLS parsers against their TLS siblings, on every input
    // of 0, 1 and 2 bytes and on 3-byte inputs derived from the seed (value, remainder, Incomplete size and error kind must agree)
    let seed = ctx.seed;
    ctx.run_fn("message_level", true, "parse_dtls_message_changecipherspec / parse_dtls_message_alert vs parse_tls_message_changecipherspec / parse_tls_message_alert on all inputs of 0..2 bytes and 65536 three-byte inputs", move |obs| {
        let third = fill(seed ^ 0xC10A, 65536);
        let mut inputs: Vec<Vec<u8>> = vec![vec![]];
        inputs.extend((0..=255u8).map(|a| vec![a]));
        inputs.extend((0..=65535u32).map(|v| vec![(v >> 8) as u8, v as u8]));
        inputs.extend((0..=65535u32).map(|v| vec![(v >> 8) as u8, v as u8, third[v as usize]]));
        for i in &inputs {
            obs.evals_add(2);
            let (d, t) = guard("ChangeCipherSpec message parsers", || (sum_dtls(parse_dtls_message_changecipherspec(i)), sum_tls(parse_tls_message_changecipherspec(i))))?;
            ensure!(d == t, "C10:message-level:changecipherspec", "parse_dtls_message_changecipherspec({}) answers {} where parse_tls_message_changecipherspec answers {}", hex_short(i), d, t);
            let (d, t) = guard("alert message parsers", || (sum_dtls(parse_dtls_message_alert(i)), sum_tls(parse_tls_message_alert(i))))?;
            ensure!(d == t, "C10:message-level:alert", "parse_dtls_message_alert({}) answers {} where parse_tls_message_alert answers {}", hex_short(i), d, t);
            if d.starts_with("Ok") {
                obs.nontrivial(fnv64(i));
            }
        }
        obs.sample(json!({"inputs": inputs.len(), "example": "01 -> Ok(ChangeCipherSpec, 0 left); (empty) -> Incomplete(1)"}));
        Ok(())
    });
}

fn sum_dtls(r: IResult<&[u8], DTLSMessage>) -> String {
    match r {
        Ok((rem, DTLSMessage::ChangeCipherSpec)) => format!("Ok(ChangeCipherSpec, {} left)", rem.len()),
        Ok((rem, DTLSMessage::Alert(a))) => format!("Ok(Alert({}, {}), {} left)", a.severity.0, a.code.0, rem.len()),
        Ok((rem, o)) => format!("Ok(other {:?}, {} left)", o, rem.len()),
        Err(Err::Incomplete(n)) => format!("Incomplete({:?})", n),
        Err(Err::Error(e)) => format!("Error({:?})", e.code),
        Err(Err::Failure(e)) => format!("Failure({:?})", e.code),
    }
}

fn sum_tls(r: IResult<&[u8], TlsMessage>) -> String {
    match r {
        Ok((rem, TlsMessage::ChangeCipherSpec)) => format!("Ok(ChangeCipherSpec, {} left)", rem.len()),
        Ok((rem, TlsMessage::Alert(a))) => format!("Ok(Alert({}, {}), {} left)", a.severity.0, a.code.0, rem.len()),
        Ok((rem, o)) => format!("Ok(other {:?}, {} left)", o, rem.len()),
        Err(Err::Incomplete(n)) => format!("Incomplete({:?})", n),
        Err(Err::Error(e)) => format!("Error({:?})", e.code),
        Err(Err::Failure(e)) => format!("Failure({:?})", e.code),
    }
}

thread_local! {
    static BUF: RefCell<Vec<u8>> = RefCell::new(fill(0xd715, 13 + 65535 + 32));
    static PRISTINE: Vec<u8> = fill(0xd715, 13 + 65535 + 32);
}

enum Out {
    Ok { rem_off: usize, rem_len: usize, rec: Option<MDtlsRecord>, hdr: (u8, u16, u16, u64, u16), frag_flags: Vec<bool> },
    Incomplete(Needed),
    Error(ErrorKind),
}

fn call(i: &[u8]) -> Result<Out, Fail> {
    guard("parse_dtls_plaintext_record", || match parse_dtls_plaintext_record(i) {
        Ok((rem, r)) => Out::Ok {
            rem_off: (rem.as_ptr() as usize).wrapping_sub(i.as_ptr() as usize),
            rem_len: rem.len(),
            rec: conv::dtls_record(&r),
            hdr: (r.header.content_type.0, r.header.version.0, r.header.epoch, r.header.sequence_number, r.header.length),
            frag_flags: r.messages.iter().map(|m| m.is_fragment()).collect(),
        },
        Err(Err::Incomplete(n)) => Out::Incomplete(n),
        Err(Err::Error(e)) | Err(Err::Failure(e)) => Out::Error(e.code),
    })
}

fn describe(o: &Out) -> String {
    match o {
        Out::Ok { rem_len, hdr, .. } => format!("Ok(header {:?}, remainder {} bytes)", hdr, rem_len),
        Out::Incomplete(n) => format!("Incomplete({:?})", n),
        Out::Error(k) => format!("Error({:?})", k),
    }
}

/// reference decode of the 13-byte header: (type, version, epoch, sequence, length)
fn ref_header(b: &[u8]) -> (u8, u16, u16, u64, usize) {
    let v = (b[1] as u16) << 8 | b[2] as u16;
    let epoch = (b[3] as u16) << 8 | b[4] as u16;
    let mut seq = 0u64;
    for x in &b[5..11] {
        seq = seq << 8 | *x as u64;
    }
    (b[0], v, epoch, seq, (b[11] as usize) << 8 | b[12] as usize)
}

/// framing contract at one cut; returns the Ok outcome for further checks
fn check_cut(input: &[u8], obs: &mut Obs) -> Result<Option<Out>, Fail> {
    let pl = input.len();
    let out = call(input)?;
    if pl < 13 {
        ensure!(matches!(out, Out::Incomplete(_)), "C10:frame:short-header-not-incomplete", "a {}-byte input (shorter than the 13-byte header) must answer Incomplete, got {}", pl, describe(&out));
        return Ok(None);
    }
    let (ct, v, ep, seq, l) = ref_header(input);
    // the header parser on its own decodes the 13 bytes verbatim, whatever the length says (the cap belongs to the record parsers)
    match guard("parse_dtls_record_header", || parse_dtls_record_header(input).map(|(rem, h)| (rem.len(), (h.content_type.0, h.version.0, h.epoch, h.sequence_number, h.length))).map_err(|e| e.map(|x| x.code)))? {
        Ok((rl, h)) => {
            ensure!(h == (ct, v, ep, seq, l as u16), "C10:frame:header-parser:fields", "parse_dtls_record_header decoded (type, version, epoch, sequence, length) = {:?}, the wire has {:?}", h, (ct, v, ep, seq, l));
            ensure!(rl == pl - 13, "C10:frame:header-parser:remainder", "parse_dtls_record_header left {} of {} bytes", rl, pl - 13);
        }
        Err(e) => return fail("C10:frame:header-parser:rejected", format!("parse_dtls_record_header rejected a complete 13-byte header (type {:#04x}, length {}): {:?}", ct, l, e)),
    }
    if l > CAP {
        ensure!(matches!(out, Out::Error(ErrorKind::TooLarge)), "C10:frame:cap-not-enforced", "declared length {} > 2^14+256 must be rejected with TooLarge, got {}", l, describe(&out));
        return Ok(None);
    }
    let rel = pl as i64 - (13 + l) as i64;
    obs.nontrivial((ct as u64) << 40 ^ (l as u64) << 8 ^ (rel.clamp(-2, 2) + 2) as u64);
    if pl < 13 + l {
        match out {
            Out::Incomplete(Needed::Size(n)) if n.get() == 13 + l - pl => Ok(None),
            o => fail("C10:frame:needed-wrong", format!("strict prefix ({} of {} bytes): expected Incomplete(Size({})), got {}", pl, 13 + l, 13 + l - pl, describe(&o))),
        }
    } else {
        match &out {
            Out::Incomplete(n) => fail(format!("C10:frame:incomplete-on-complete-record:type={:#04x}", ct), format!("the input holds the whole record (13+{} of {} bytes, type {:#04x}) but the parser answers Incomplete({:?})", l, pl, ct, n)),
            Out::Error(k) => {
                ensure!(*k != ErrorKind::TooLarge, "C10:frame:toolarge-below-cap", "length {} is within the cap but was rejected with TooLarge", l);
                Ok(None)
            }
            Out::Ok { rem_off, rem_len, hdr, .. } => {
                ensure!(*hdr == (ct, v, ep, seq, l as u16), "C10:frame:header-fields", "header decoded as (type, version, epoch, sequence, length) = {:?}, the wire has {:?}: {}", hdr, (ct, v, ep, seq, l), hex_short(&input[..13]));
                ensure!(*rem_len == pl - 13 - l && (*rem_len == 0 || *rem_off == 13 + l), "C10:frame:remainder", "remainder must be the {} bytes after the record, got {} bytes at offset {}", pl - 13 - l, rem_len, rem_off);
                Ok(Some(out))
            }
        }
    }
}

/// parameter tape: [content type, len_hi, len_lo, full]; unless `full`, the cuts at and beyond the record end (which decode
/// the whole payload: quadratic for alert records) are taken for lengths <= 512, multiples of 64 and the cap boundary only
fn frame_exhaustive(t: &mut Tape, obs: &mut Obs) -> R {
    let ct = t.u8();
    let l = t.u16() as usize;
    let full = t.u8() == 1 || l <= 512 || l % 64 == 0 || l + 2 >= CAP;
    BUF.with(|b| {
        let mut b = b.borrow_mut();
        b[0] = ct;
        b[1] = 0xfe;
        b[2] = 0xfd + (l % 3) as u8;
        // epoch / sequence patterns: all-ones, single high bits, mixed
        let pat: u64 = match l % 7 {
            0 => 0,
            1 => u64::MAX,
            2 => 0x0001_0000_0000_0000,
            3 => 0x0000_8000_0000_0000,
            4 => 0xffff_0000_0000_0000,
            5 => 0x0000_ffff_ffff_ffff,
            _ => (l as u64).wrapping_mul(0x9E37_79B9_7F4A_7C15),
        };
        b[3..11].copy_from_slice(&pat.to_be_bytes());
        b[11] = (l >> 8) as u8;
        b[12] = l as u8;
        // payload: for CCS/alert make it decodable so the Ok path (header fields) is exercised too
        let ones = ct == 0x14 && (l <= 32 || l % 1021 == 0);
        if ones {
            let end = (13 + l).min(b.len());
            for x in &mut b[13..end] {
                *x = 1;
            }
        }
        let total = b.len();
        let mut cuts = vec![0usize, 1, 3, 5, 11, 12, 13];
        for c in [(13 + l).saturating_sub(1), 13 + l, 13 + l + 1, 13 + l + 9] {
            if c >= 13 + l && !full {
                continue;
            }
            if c <= total && !cuts.contains(&c) {
                cuts.push(c);
            }
        }
        let mut r = Ok(());
        for &c in &cuts {
            obs.evals_add(1);
            if let Err(e) = check_cut(&b[..c], obs) {
                r = Err(e);
                break;
            }
        }
        if ones {
            let end = (13 + l).min(b.len());
            PRISTINE.with(|p| b[13..end].copy_from_slice(&p[13..end]));
        }
        if obs.wants_sample() && l > 2 {
            obs.sample(json!({"content_type": ct, "declared_len": l, "epoch_seq_pattern": format!("{:016x}", pat), "cuts": cuts}));
        }
        r
    })
}

/// the tape itself is the datagram: framing contract on arbitrary bytes and every prefix
fn frame_raw(t: &mut Tape, obs: &mut Obs) -> R {
    let mut buf = Vec::new();
    while !t.exhausted() {
        buf.push(t.u8());
    }
    if let Some(b0) = buf.first_mut() {
        if *b0 & 0x80 == 0 {
            *b0 = 0x14 + (*b0 % 4);
        }
    }
    for c in 0..=buf.len() {
        check_cut(&buf[..c], obs)?;
    }
    if buf.len() > 13 {
        obs.sample(json!({"case": "raw", "hex": hex_short(&buf)}));
    }
    Ok(())
}

fn records(t: &mut Tape, obs: &mut Obs) -> R {
    let rec = gen_dtls_record(t);
    let mut buf = rec.to_bytes();
    let rec_len = buf.len();
    let tail = match t.weighted(&[3, 3, 2]) {
        0 => vec![],
        1 => t.small_blob(30),
        _ => gen_dtls_record(t).to_bytes(),
    };
    buf.extend_from_slice(&tail);
    let has_body = rec.msgs.iter().any(|m| match m {
        MDtlsMsg::Hs(h) => h.fragment_length > 0 || h.is_fragment(),
        _ => false,
    });
    if has_body {
        obs.nontrivial(fnv64(&buf));
    }
    let label = match rec.msgs.first() {
        Some(MDtlsMsg::Hs(h)) => format!("hs:{}", format!("{:?}", h.body).split(|c: char| !c.is_alphanumeric()).next().unwrap_or("").to_string()),
        Some(MDtlsMsg::Ccs) => "ccs".into(),
        Some(MDtlsMsg::Alert(..)) => "alert".into(),
        None => "empty".into(),
    };
    obs.sample_class(&label, || json!({"first_message": label, "messages": rec.msgs.len(), "epoch": rec.epoch, "seq": rec.seq, "hex": hex_short(&buf)}));
    match check_cut(&buf, obs)? {
        Some(Out::Ok { rec: got, frag_flags, .. }) => {
            let got = match got {
                Some(g) => g,
                None => return fail("C10:records:unsupported-variant", "the parser returned a body variant it never decodes"),
            };
            ensure!(got == rec, "C10:records:value", "decoded record differs: got {} expected {} (wire {})", trunc(&format!("{:?}", got)), trunc(&format!("{:?}", rec)), hex_short(&buf));
            let want_flags: Vec<bool> = rec.msgs.iter().map(|m| matches!(m, MDtlsMsg::Hs(h) if h.is_fragment())).collect();
            ensure!(frag_flags == want_flags, "C10:records:is_fragment", "is_fragment() flags {:?}, expected {:?}", frag_flags, want_flags);
        }
        _ => return fail("C10:records:rejected", format!("a well-formed DTLS record was rejected: {} (wire {})", describe(&call(&buf)?), hex_short(&buf))),
    }
    // prefixes
    let mut cuts: Vec<usize> = if buf.len() <= 300 { (0..buf.len()).collect() } else { (0..48).map(|_| t.below(buf.len())).chain([12, 13, 14, rec_len - 1, rec_len, rec_len + 1]).collect() };
    cuts.retain(|c| *c <= buf.len());
    for c in cuts {
        check_cut(&buf[..c], obs)?;
    }
    Ok(())
}

/// A handshake record whose messages all decode, with something undecodable appended INSIDE the record (a few stray bytes, the header of a
/// further message cut short, a complete message of a type that has no body decoder, a message declaring more than is there): the messages
/// in front of it must still decode to the values that were encoded, the record is consumed whole, and the record that follows in the
/// datagram is still reached. Only the prefix is demanded; whatever the tail decodes to (or not) is not judged.
fn trailing_inside(t: &mut Tape, obs: &mut Obs) -> R {
    let mut rec = gen_dtls_record(t);
    for _ in 0..4 {
        if rec.ctype == 0x16 && !rec.msgs.is_empty() {
            break;
        }
        rec = gen_dtls_record(t);
    }
    if rec.ctype != 0x16 || rec.msgs.is_empty() {
        return Ok(());
    }
    let plain = rec.to_bytes();
    let payload = &plain[13..];
    let (kind, x): (&str, Vec<u8>) = match t.below(4) {
        0 => ("stray-bytes", { let n = 1 + t.below(11); t.bytes(n) }),
        1 => {
            // complete message of a type without a body decoder in DTLS (ServerKeyExchange, CertificateRequest, CertificateVerify, Finished, unassigned)
            let body = t.small_blob(40);
            let mut e = Enc::new();
            e.u8(t.pick(&[12u8, 13, 15, 20, 0x63]));
            e.u24(body.len() as u32);
            e.u16(t.below(8) as u16);
            e.u24(0);
            e.u24(body.len() as u32);
            e.bytes(&body);
            ("undecoded-type", e.buf)
        }
        2 => {
            // a ServerHelloDone header declaring a body that is not there
            let mut e = Enc::new();
            e.u8(14);
            e.u24(5);
            e.u16(9);
            e.u24(0);
            e.u24(5);
            ("declares-more", e.buf)
        }
        _ => ("cut-header", { let n = 1 + t.below(11); vec![11u8; n] }),
    };
    if payload.len() + x.len() > 16384 {
        return Ok(());
    }
    let mut buf = plain[..11].to_vec();
    let total = (payload.len() + x.len()) as u16;
    buf.extend_from_slice(&total.to_be_bytes());
    buf.extend_from_slice(payload);
    buf.extend_from_slice(&x);
    let rec_len = buf.len();
    let next = MDtlsRecord { ctype: 0x14, version: rec.version, epoch: rec.epoch, seq: (rec.seq + 1) & 0xffff_ffff_ffff, msgs: vec![MDtlsMsg::Ccs] };
    let follow = t.bool();
    if follow {
        buf.extend(next.to_bytes());
    }
    obs.nontrivial(fnv64(&buf));
    obs.sample_class(kind, || json!({"tail_inside_record": kind, "messages_before": rec.msgs.len(), "followed_by_ccs_record": follow, "hex": hex_short(&buf)}));
    match call(&buf)? {
        Out::Ok { rem_off, rem_len, rec: got, .. } => {
            ensure!(rem_len == buf.len() - rec_len && (rem_len == 0 || rem_off == rec_len), "C10:trailing-inside:consumed", "record of {} bytes with {} inside: remainder at offset {} len {}", rec_len, kind, rem_off, rem_len);
            if let Some(g) = got {
                ensure!(g.msgs.len() >= rec.msgs.len() && g.msgs[..rec.msgs.len()] == rec.msgs[..] && (g.ctype, g.version, g.epoch, g.seq) == (rec.ctype, rec.version, rec.epoch, rec.seq), "C10:trailing-inside:prefix", "handshake record with {} after {} decodable message(s): decoded {} expected a list starting with {} (wire {})", kind, rec.msgs.len(), trunc(&format!("{:?}", g.msgs)), trunc(&format!("{:?}", rec.msgs)), hex_short(&buf));
            }
            if follow {
                match call(&buf[rec_len..])? {
                    Out::Ok { rec: Some(g2), .. } => ensure!(g2 == next, "C10:trailing-inside:next-record", "the record following it decoded to {:?}", g2),
                    o => return fail("C10:trailing-inside:next-record", format!("the ChangeCipherSpec record following it was not decoded: {}", describe(&o))),
                }
            }
        }
        o => return fail("C10:trailing-inside:rejected", format!("a handshake record whose first {} message(s) decode was rejected because of {} behind them: {} (wire {})", rec.msgs.len(), kind, describe(&o), hex_short(&buf))),
    }
    Ok(())
}

fn hs_header(t: &mut Tape, obs: &mut Obs) -> R {
    // fragment bodies are mostly small; sometimes larger than a record or than 16 bits (the message parser is public and takes any buffer)
    let frag = if t.chance(6) {
        let n = t.pick(&[16628usize, 16629, 16640, 16641, 20000, 65535, 65536, 70000]);
        t.bytes(n)
    } else {
        t.small_blob(300)
    };
    let fl = frag.len() as u32;
    let msg_type = if t.bool() { t.pick(&[1u8, 2, 3, 11, 14, 16]) } else { t.u8() };
    let message_seq = t.u16b();
    // (length, offset): boundaries around fragment/not-fragment
    let (length, offset) = match t.below(8) {
        0 => (fl, 0),                                                   // complete message
        1 => (fl + 1, 0),                                               // one byte missing
        2 => (fl, 1),                                                   // offset 1
        3 => (0xff_ffff, 0),
        4 => {
            let off = t.u24b();
            (off.saturating_add(fl).min(0xff_ffff), off)             // offset + fragment = length
        }
        5 => (t.u24b(), t.u24b()),
        6 => (fl.saturating_sub(1), 0),                                 // fragment longer than the message (malformed, not a fragment by the predicate)
        _ => (t.u24b().max(fl), 0),
    };
    let mut e = Enc::new();
    e.u8(msg_type);
    e.u24(length);
    e.u16(message_seq);
    e.u24(offset);
    e.u24(fl);
    e.bytes(&frag);
    let tail = t.small_blob(10);
    e.bytes(&tail);
    let buf = e.buf;
    let is_frag = offset > 0 || fl < length;
    let r = guard("parse_dtls_message_handshake", || match parse_dtls_message_handshake(&buf) {
        Ok((rem, m)) => Ok((rem.len(), m.is_fragment(), conv::dtls_msg(&m))),
        Err(e) => Err(format!("{:?}", e.map(|x| x.code))),
    })?;
    obs.class(if is_frag { "fragment" } else { "whole" });
    if is_frag {
        obs.nontrivial(fnv64(&buf));
        obs.sample(json!({"length": length, "offset": offset, "fragment_length": fl, "type": msg_type, "hex": hex_short(&buf)}));
        match r {
            Ok((rl, flag, Some(MDtlsMsg::Hs(h)))) => {
                ensure!(flag, "C10:hs:is_fragment-false", "offset {} fragment {} length {}: is_fragment() must be true", offset, fl, length);
                ensure!(h.body == MDtlsBody::Fragment(frag.clone()), "C10:hs:fragment-body", "a fragment must be returned as an opaque Fragment of exactly {} bytes, got {}", fl, trunc(&format!("{:?}", h.body)));
                ensure!((h.msg_type, h.length, h.message_seq, h.fragment_offset, h.fragment_length) == (msg_type, length, message_seq, offset, fl), "C10:hs:header-fields", "header fields {:?}, wire has {:?}", (h.msg_type, h.length, h.message_seq, h.fragment_offset, h.fragment_length), (msg_type, length, message_seq, offset, fl));
                ensure!(rl == tail.len(), "C10:hs:remainder", "remainder {} bytes, expected {}", rl, tail.len());
            }
            o => return fail("C10:hs:fragment-rejected", format!("a handshake fragment (type {}, length {}, offset {}, fragment {}) must be returned as Fragment, got {:?}", msg_type, length, offset, fl, o)),
        }
    } else if let Ok((rl, flag, m)) = r {
        // not a fragment: whatever the body decodes to, header fields are verbatim and the flag is false
        ensure!(!flag, "C10:hs:is_fragment-true", "offset 0 and fragment {} >= length {}: is_fragment() must be false", fl, length);
        ensure!(rl == tail.len(), "C10:hs:remainder", "remainder {} bytes, expected {}", rl, tail.len());
        if let Some(MDtlsMsg::Hs(h)) = m {
            ensure!((h.msg_type, h.length, h.message_seq, h.fragment_offset, h.fragment_length) == (msg_type, length, message_seq, offset, fl), "C10:hs:header-fields", "header fields differ");
            ensure!(!matches!(h.body, MDtlsBody::Fragment(_)), "C10:hs:whole-as-fragment", "a complete message was returned as Fragment");
        }
    }
    Ok(())
}

fn datagram(t: &mut Tape, obs: &mut Obs) -> R {
    let n = 1 + t.below(5);
    let recs: Vec<MDtlsRecord> = (0..n).map(|_| gen_dtls_record(t)).collect();
    let mut buf = Vec::new();
    for r in &recs {
        buf.extend(r.to_bytes());
    }
    if n >= 2 {
        obs.nontrivial(fnv64(&buf));
    }
    obs.class(&format!("records={}", n));
    obs.sample(json!({"records": n, "bytes": buf.len(), "hex": hex_short(&buf)}));
    // optionally a complete record the DTLS parser does not decode (application data, heartbeat, unknown type) at the end:
    // the records before it must still be returned, record by record
    let extra: Vec<u8> = if t.chance(70) {
        let mut e = Enc::new();
        e.u8(t.pick(&[0x17u8, 0x18, 0x19, 0x00, 0xff]));
        e.u16(0xfefd);
        e.u16(1);
        e.u48(9);
        let d = t.small_blob(40);
        e.vec(2, "drec.len", &d);
        e.buf
    } else {
        vec![]
    };
    buf.extend_from_slice(&extra);
    if !extra.is_empty() {
        obs.class("with-undecodable-last-record");
    }
    let got = guard("parse_dtls_plaintext_records", || match parse_dtls_plaintext_records(&buf) {
        Ok((rem, v)) => Ok((rem.len(), v.iter().map(conv::dtls_record).collect::<Vec<_>>())),
        Err(e) => Err(format!("{:?}", e.map(|x| x.code))),
    })?;
    match got {
        Ok((rl, v)) => {
            ensure!(rl == extra.len(), "C10:datagram:remainder", "{} bytes left after {} records, expected {}", rl, n, extra.len());
            let want: Vec<Option<MDtlsRecord>> = recs.iter().cloned().map(Some).collect();
            ensure!(v == want, "C10:datagram:value", "datagram of {} records decoded to {} records: {} expected {}", n, v.len(), trunc(&format!("{:?}", v)), trunc(&format!("{:?}", want)));
        }
        Err(e) => return fail("C10:datagram:rejected", format!("a datagram of {} well-formed records was rejected: {}", n, e)),
    }
    Ok(())
}
