//! C11 Unknown enumerated code points are accepted and preserved, not rejected.

use super::PropDef;
use crate::core::*;
use serde_json::json;
use tls_parser::*;
use vmodel::model::*;
use vmodel::tape::{fill, Tape};
use vmodel::wire::{hex_short, Enc};

pub const DEF: PropDef = PropDef {
    id: "C11",
    title: "Unknown enumerated code points are accepted and preserved, not rejected",
    rule: "complete enumeration per field: for each of 47 (field, enclosing structure) pairs every value of the field's domain (256 or 65536; alert level x description and \
           hash x signature as 65536 pairs) is written into an otherwise well-formed structure built by the model encoders, parsed, and read back from the parsed value. \
           Surrounding values come from k seeded template variants (quick k = 2, thorough k = 25). Non-trivial = a value that has no named constant in the harness's IANA tables; \
           distinct by (field, value).",
    assumptions: &["ServerHello legacy version is excluded (it selects the structure), as the statement says", "for extension types the body is a valid body of that type when the type is known, 3 opaque bytes otherwise"],
    run,
};

pub const SUBS: &[SubDef] = &[SubDef { prop: "C11", name: "fields", oracle: fields }, SubDef { prop: "C11", name: "record_header_joint", oracle: record_header_joint }, SubDef { prop: "C11", name: "hello_joint", oracle: hello_joint }];

fn run(ctx: &Ctx) {
    let k = ctx.pick(2, 25) as u8;
    let specs = specs();
    let mut cases: Vec<Vec<u8>> = Vec::new();
    for (si, s) in specs.iter().enumerate() {
        for kk in 0..k {
            for v in 0..(1u32 << s.bits) {
                cases.push(vec![si as u8, (v >> 8) as u8, v as u8, kk]);
            }
        }
    }
    ctx.run_enum("fields", fields, true, &format!("{} fields x every value of the field's domain x {} template variants", specs.len(), k), cases.into_iter());
    // joint sweep of the three header fields: all 256 content types x all 256 version low bytes x version high bytes {03, 00, 7f, fe, ff}
    // x length high bytes 0..=0x41 (x 3 low bytes), so that a guard keyed on a combination of fields cannot hide behind per-field sweeps
    let cases = (0..256u32).flat_map(|ty| (0..256u32).map(move |vlo| vec![ty as u8, vlo as u8]));
    ctx.run_enum("record_header_joint", record_header_joint, true, "256 content types x 256 version low bytes x 5 version high bytes x 66 length high bytes x 3 length low bytes, raw / encrypted / header parsers", cases);
    // joint sweep of (message version, cipher id, extension block shape) in the hello messages: every cipher id next to each version of
    // the dictionary and each block shape, so that a layout decision keyed on a combination (a draft version AND a cipher value that
    // happens to look like a length) cannot hide behind the per-field sweeps
    let cases = (0..3u8).flat_map(|m| (0..JOINT_VERSIONS.len() as u8).flat_map(move |vi| (0..4u8).flat_map(move |x| (0..=255u8).map(move |chi| vec![m, vi, x, chi]))));
    ctx.run_enum("hello_joint", hello_joint, true, &format!("HelloRetryRequest / ServerHello / ClientHello x {} versions x 4 extension-block shapes (absent, empty, 26 bytes, 300 bytes) x all 65536 cipher ids", JOINT_VERSIONS.len()), cases);
}

/// message versions for the joint sweep: the TLS versions, every TLS 1.3 draft the code names, neighbours, DTLS
const JOINT_VERSIONS: [u16; 24] = [0x0300, 0x0301, 0x0302, 0x0303, 0x0304, 0x0305, 0x7f12, 0x7f13, 0x7f14, 0x7f15, 0x7f16, 0x7f17, 0x7f18, 0x7f19, 0x7f1a, 0x7f1b, 0x7f1c, 0x7f11, 0x7e02, 0xfeff, 0xfefd, 0x0002, 0x0000, 0xffff];

/// parameter tape: [message (0 HelloRetryRequest, 1 ServerHello, 2 ClientHello), version index, block shape, cipher high byte]
fn hello_joint(t: &mut Tape, obs: &mut Obs) -> R {
    let m = t.u8() % 3;
    let version = JOINT_VERSIONS[t.u8() as usize % JOINT_VERSIONS.len()];
    let shape = t.u8() % 4;
    let chi = t.u8();
    // ServerHello: only the versions the parser takes as a ServerHello of the classic layout
    if m == 1 && ![0x0300u16, 0x0301, 0x0302, 0x0303].contains(&version) {
        return Ok(());
    }
    let ext: Option<Vec<u8>> = match shape {
        0 => None,
        1 => Some(vec![]),
        2 => Some(ext_bytes(0x002b, &[0x7f, 0x12]).into_iter().chain(ext_bytes(0x0033, &[0, 0x1d])).chain(ext_bytes(0x4a4a, &(0..8).collect::<Vec<u8>>())).collect()),
        _ => Some(ext_bytes(0x002c, &vec![0x5a; 296])),
    };
    if m == 1 && version == 0x0300 && ext.is_some() {
        return Ok(());
    }
    for clo in 0..=255u8 {
        let cipher = (chi as u16) << 8 | clo as u16;
        obs.evals_add(1);
        let h = match m {
            0 => MHs::HelloRetryRequest { version, cipher, ext: ext.clone() },
            1 => MHs::ServerHello { version, random: vec![clo; 32], sid: if clo % 2 == 0 { None } else { Some(vec![7; 32]) }, cipher, comp: 0, ext: ext.clone() },
            _ => MHs::ClientHello { version, random: vec![clo; 32], sid: None, ciphers: vec![cipher], comp: vec![0], ext: ext.clone() },
        };
        let b = h.to_bytes();
        let got = guard("parse_tls_message_handshake", || parse_hs(&b).map(|x| crate::conv::hs(&x)))?;
        match got {
            Ok(g) => ensure!(g == h, format!("C11:hello-joint:{}:changed", h.kind_name()), "{} with version {:#06x}, cipher {:#06x} and an extension block of {:?} bytes came back as {}", h.kind_name(), version, cipher, ext.as_ref().map(|e| e.len()), trunc(&format!("{:?}", g))),
            Err(e) => return fail(format!("C11:hello-joint:{}:rejected", h.kind_name()), format!("{} with version {:#06x}, cipher {:#06x} and an extension block of {:?} bytes was {}", h.kind_name(), version, cipher, ext.as_ref().map(|e| e.len()), e)),
        }
    }
    obs.nontrivial(((m as u64) << 32) | ((version as u64) << 16) | ((shape as u64) << 8) | chi as u64);
    if obs.wants_sample() {
        let mname = ["HelloRetryRequest", "ServerHello", "ClientHello"][m as usize];
        obs.sample(json!({"message": mname, "version": format!("{:#06x}", version), "extension_block_bytes": ext.as_ref().map(|e| e.len()), "ciphers": format!("{:#04x}00..{:#04x}ff", chi, chi)}));
    }
    Ok(())
}

struct Spec {
    name: &'static str,
    bits: u32,
    /// registry used to tell named from unnamed values (for the non-triviality count only)
    registry: Option<&'static vmodel::iana::Registry>,
    /// build a structure holding value v (template variant from the tape), parse it, read the field back
    probe: fn(u32, &mut Tape) -> Result<u32, String>,
}

fn err<T: std::fmt::Debug>(e: tls_parser::nom::Err<tls_parser::nom::error::Error<T>>) -> String {
    format!("rejected: {:?}", e.map(|x| x.code))
}

/// record payload for the record-level fields: small for template variant 0; for the other variants one of the sizes around the
/// 2^14 and 2^14+256 limits (for 16-bit fields only every 251st value, to keep the sweep cheap)
fn big_or_small(t: &mut Tape, v: u32) -> Vec<u8> {
    let small = t.small_blob(20);
    if t.exhausted() || t.u8() == 0 || v % 251 != 0 {
        return small;
    }
    let n = t.pick(&[16384usize, 16385, 16639, 16640, 300, 16500]);
    vec![0x61; n]
}

fn rec(ctype: u8, version: u16, payload: &[u8]) -> Vec<u8> {
    let mut e = Enc::new();
    e.u8(ctype);
    e.u16(version);
    e.vec(2, "l", payload);
    e.buf
}

fn ch_with(t: &mut Tape, f: impl FnOnce(&mut MHs)) -> Vec<u8> {
    let mut h = gen_hs_kind(t, 1, 120);
    f(&mut h);
    h.to_bytes()
}

/// for a quarter of the values under test the ServerHello carries a random the RFCs give a meaning to (RFC 8446 4.1.3: the
/// HelloRetryRequest marker with legacy version 0x0303, or a downgrade sentinel): the ids next to it are still returned unchanged
fn special_random(h: &mut MHs, v: u32) {
    if let MHs::ServerHello { version, random, .. } = h {
        match v % 8 {
            1 => {
                *version = 0x0303;
                *random = HRR_RANDOM.to_vec();
            }
            5 => random[24..].copy_from_slice(b"DOWNGRD\x01"),
            _ => {}
        }
    }
}

fn parse_hs(b: &[u8]) -> Result<TlsMessageHandshake<'_>, String> {
    match parse_tls_message_handshake(b) {
        Ok((_, TlsMessage::Handshake(h))) => Ok(h),
        Ok(_) => Err("not a handshake message".into()),
        Err(e) => Err(err(e)),
    }
}

fn ext_bytes(ty: u16, body: &[u8]) -> Vec<u8> {
    let mut e = Enc::new();
    e.u16(ty);
    e.vec(2, "l", body);
    e.buf
}

fn specs() -> Vec<Spec> {
    use vmodel::iana as ia;
    vec![
        Spec { name: "record version (plaintext record)", bits: 16, registry: Some(&ia::VERSION), probe: |v, t| {
            let b = rec(0x17, v as u16, &t.small_blob(20));
            parse_tls_plaintext(&b).map(|(_, p)| p.hdr.version.0 as u32).map_err(err)
        } },
        Spec { name: "record version (encrypted record)", bits: 16, registry: Some(&ia::VERSION), probe: |v, t| {
            let b = rec(t.u8(), v as u16, &big_or_small(t, v));
            parse_tls_encrypted(&b).map(|(_, p)| p.hdr.version.0 as u32).map_err(err)
        } },
        Spec { name: "record version (raw record)", bits: 16, registry: Some(&ia::VERSION), probe: |v, t| {
            let b = rec(t.u8(), v as u16, &big_or_small(t, v));
            parse_tls_raw_record(&b).map(|(_, p)| p.hdr.version.0 as u32).map_err(err)
        } },
        Spec { name: "content type (raw record)", bits: 8, registry: Some(&ia::RECORD_TYPE), probe: |v, t| {
            let b = rec(v as u8, t.u16(), &big_or_small(t, 0));
            parse_tls_raw_record(&b).map(|(_, p)| p.hdr.record_type.0 as u32).map_err(err)
        } },
        Spec { name: "content type (encrypted record)", bits: 8, registry: Some(&ia::RECORD_TYPE), probe: |v, t| {
            let b = rec(v as u8, t.u16(), &big_or_small(t, 0));
            parse_tls_encrypted(&b).map(|(_, p)| p.hdr.record_type.0 as u32).map_err(err)
        } },
        Spec { name: "content type (record header)", bits: 8, registry: Some(&ia::RECORD_TYPE), probe: |v, t| {
            let b = rec(v as u8, t.u16(), &[]);
            parse_tls_record_header(&b).map(|(_, p)| p.record_type.0 as u32).map_err(err)
        } },
        Spec { name: "ClientHello version", bits: 16, registry: Some(&ia::VERSION), probe: |v, t| {
            let b = ch_with(t, |h| if let MHs::ClientHello { version, .. } = h { *version = v as u16 });
            match parse_hs(&b)? { TlsMessageHandshake::ClientHello(c) => Ok(c.version.0 as u32), o => Err(format!("{:?}", o)) }
        } },
        Spec { name: "ClientHello cipher-suite id", bits: 16, registry: None, probe: |v, t| {
            let pos = t.below(3);
            let b = ch_with(t, |h| if let MHs::ClientHello { ciphers, .. } = h { ciphers.truncate(5); let p = pos.min(ciphers.len()); ciphers.insert(p, v as u16) });
            match parse_hs(&b)? { TlsMessageHandshake::ClientHello(c) => { let p = pos.min(c.ciphers.len().saturating_sub(1)); c.ciphers.get(p).map(|x| x.0 as u32).ok_or("cipher list empty".into()) }, o => Err(format!("{:?}", o)) }
        } },
        Spec { name: "ClientHello compression id", bits: 8, registry: Some(&ia::COMPRESSION), probe: |v, t| {
            let b = ch_with(t, |h| if let MHs::ClientHello { comp, .. } = h { comp.truncate(3); comp.insert(0, v as u8) });
            match parse_hs(&b)? { TlsMessageHandshake::ClientHello(c) => c.comp.first().map(|x| x.0 as u32).ok_or("empty".into()), o => Err(format!("{:?}", o)) }
        } },
        Spec { name: "ServerHello selected cipher", bits: 16, registry: None, probe: |v, t| {
            let mut h = gen_hs_kind(t, 2, 100);
            if let MHs::ServerHello { cipher, .. } = &mut h { *cipher = v as u16 }
            special_random(&mut h, v);
            match parse_hs(&h.to_bytes())? { TlsMessageHandshake::ServerHello(c) => Ok(c.cipher.0 as u32), o => Err(format!("{:?}", o)) }
        } },
        Spec { name: "ServerHello compression", bits: 8, registry: Some(&ia::COMPRESSION), probe: |v, t| {
            let mut h = gen_hs_kind(t, 2, 100);
            if let MHs::ServerHello { comp, .. } = &mut h { *comp = v as u8 }
            special_random(&mut h, v);
            match parse_hs(&h.to_bytes())? { TlsMessageHandshake::ServerHello(c) => Ok(c.compression.0 as u32), o => Err(format!("{:?}", o)) }
        } },
        Spec { name: "ServerHello (draft 18) cipher", bits: 16, registry: None, probe: |v, t| {
            let mut h = gen_hs_kind(t, 3, 100);
            if let MHs::ServerHelloD18 { cipher, .. } = &mut h { *cipher = v as u16 }
            match parse_hs(&h.to_bytes())? { TlsMessageHandshake::ServerHelloV13Draft18(c) => Ok(c.cipher.0 as u32), o => Err(format!("{:?}", o)) }
        } },
        Spec { name: "HelloRetryRequest version", bits: 16, registry: Some(&ia::VERSION), probe: |v, t| {
            let mut h = gen_hs_kind(t, 6, 100);
            if let MHs::HelloRetryRequest { version, .. } = &mut h { *version = v as u16 }
            match parse_hs(&h.to_bytes())? { TlsMessageHandshake::HelloRetryRequest(c) => Ok(c.version.0 as u32), o => Err(format!("{:?}", o)) }
        } },
        Spec { name: "HelloRetryRequest cipher", bits: 16, registry: None, probe: |v, t| {
            let mut h = gen_hs_kind(t, 6, 100);
            if let MHs::HelloRetryRequest { cipher, .. } = &mut h { *cipher = v as u16 }
            match parse_hs(&h.to_bytes())? { TlsMessageHandshake::HelloRetryRequest(c) => Ok(c.cipher.0 as u32), o => Err(format!("{:?}", o)) }
        } },
        Spec { name: "alert level x description (record)", bits: 16, registry: None, probe: |v, t| {
            let b = rec(0x15, t.u16(), &[(v >> 8) as u8, v as u8]);
            match parse_tls_plaintext(&b).map_err(err)?.1.msg.first() { Some(TlsMessage::Alert(a)) => Ok((a.severity.0 as u32) << 8 | a.code.0 as u32), o => Err(format!("{:?}", o)) }
        } },
        Spec { name: "alert level x description (message parser)", bits: 16, registry: None, probe: |v, _t| {
            let b = [(v >> 8) as u8, v as u8, 9];
            match parse_tls_message_alert(&b).map_err(err)?.1 { TlsMessage::Alert(a) => Ok((a.severity.0 as u32) << 8 | a.code.0 as u32), o => Err(format!("{:?}", o)) }
        } },
        Spec { name: "heartbeat message type", bits: 8, registry: Some(&ia::HEARTBEAT_TYPE), probe: |v, t| {
            let p = t.small_blob(20);
            let mut e = Enc::new();
            e.u8(v as u8);
            e.vec(2, "l", &p);
            e.bytes(&t.small_blob(4));
            let b = rec(0x18, 0x0303, &e.buf);
            match parse_tls_plaintext(&b).map_err(err)?.1.msg.first() { Some(TlsMessage::Heartbeat(h)) => Ok(h.heartbeat_type.0 as u32), o => Err(format!("{:?}", o)) }
        } },
        Spec { name: "extension type", bits: 16, registry: Some(&ia::EXTENSION_TYPE), probe: |v, _t| {
            let body = super::c05::valid_body_for(v as u16).map(|x| x.1).unwrap_or_else(|| vec![1, 2, 3]);
            let b = ext_bytes(v as u16, &body);
            let first = match parse_tls_extension(&b).map_err(err)?.1 { TlsExtension::Grease(t, _) => t as u32, e => TlsExtensionType::from(&e).0 as u32 };
            // types without a decoder: the same type over bodies shaped like extensions the crate does not know (ECH, connection_id, ...),
            // through the three dispatchers - the body selects nothing
            if super::c05::valid_body_for(v as u16).is_none() {
                for (bn, body) in super::c05::FUTURE_EXT_BODIES {
                    let b = ext_bytes(v as u16, body);
                    for (dn, p) in [("generic", parse_tls_extension as fn(&[u8]) -> IResult<&[u8], TlsExtension>), ("client", parse_tls_client_hello_extension), ("server", parse_tls_server_hello_extension)] {
                        let got = match p(&b).map_err(|e| format!("{} dispatcher, {} body: {}", dn, bn, err(e)))?.1 { TlsExtension::Grease(t, _) => t as u32, e => TlsExtensionType::from(&e).0 as u32 };
                        if got != first {
                            return Err(format!("{} dispatcher, body shaped like {}: type tag {:#06x}", dn, bn, got));
                        }
                    }
                }
            }
            Ok(first)
        } },
        Spec { name: "named group (supported_groups extension)", bits: 16, registry: Some(&ia::NAMED_GROUP), probe: |v, t| {
            let m = MExt::EllipticCurves(vec![t.u16(), v as u16, t.u16()]);
            match parse_tls_extension(&m.to_bytes()).map_err(err)?.1 { TlsExtension::EllipticCurves(l) => Ok(l[1].0 as u32), o => Err(format!("{:?}", o)) }
        } },
        Spec { name: "named group (EC parameters)", bits: 16, registry: Some(&ia::NAMED_GROUP), probe: |v, t| {
            let mut e = Enc::new();
            MEcdh { params: MEcParams::Named(v as u16), public: t.small_blob(10) }.encode(&mut e);
            match parse_ecdh_params(&e.buf).map_err(err)?.1.curve_params.params_content { ECParametersContent::NamedGroup(g) => Ok(g.0 as u32), o => Err(format!("{:?}", o)) }
        } },
        Spec { name: "named group (ESNI)", bits: 16, registry: Some(&ia::NAMED_GROUP), probe: |v, t| {
            let m = MExt::Esni { cipher: t.u16(), group: v as u16, key_share: t.small_blob(8), record_digest: t.small_blob(8), encrypted_sni: t.small_blob(8) };
            match parse_tls_extension(&m.to_bytes()).map_err(err)?.1 { TlsExtension::EncryptedServerName { group, .. } => Ok(group.0 as u32), o => Err(format!("{:?}", o)) }
        } },
        Spec { name: "cipher suite (ESNI)", bits: 16, registry: None, probe: |v, t| {
            let m = MExt::Esni { cipher: v as u16, group: t.u16(), key_share: t.small_blob(8), record_digest: vec![], encrypted_sni: t.small_blob(8) };
            match parse_tls_extension(&m.to_bytes()).map_err(err)?.1 { TlsExtension::EncryptedServerName { ciphersuite, .. } => Ok(ciphersuite.0 as u32), o => Err(format!("{:?}", o)) }
        } },
        Spec { name: "signature scheme (signature_algorithms extension)", bits: 16, registry: Some(&ia::SIGNATURE_SCHEME), probe: |v, t| {
            let m = MExt::SignatureAlgorithms(vec![v as u16, t.u16()]);
            match parse_tls_extension(&m.to_bytes()).map_err(err)?.1 { TlsExtension::SignatureAlgorithms(l) => Ok(l[0] as u32), o => Err(format!("{:?}", o)) }
        } },
        Spec { name: "hash x signature algorithm (DigitallySigned)", bits: 16, registry: None, probe: |v, t| {
            let mut e = Enc::new();
            MSigned { alg: Some(((v >> 8) as u8, v as u8)), data: t.small_blob(20) }.encode(&mut e);
            let s = parse_digitally_signed(&e.buf).map_err(err)?.1;
            s.alg.map(|a| (a.hash.0 as u32) << 8 | a.sign.0 as u32).ok_or("alg missing".into())
        } },
        Spec { name: "hash x signature algorithm (SCT)", bits: 16, registry: None, probe: |v, t| {
            let mut s = gen_sct(t, 120);
            s.hash = (v >> 8) as u8;
            s.sign = v as u8;
            let mut e = Enc::new();
            s.encode(&mut e);
            let p = parse_ct_signed_certificate_timestamp(&e.buf).map_err(err)?.1;
            p.signature.alg.map(|a| (a.hash.0 as u32) << 8 | a.sign.0 as u32).ok_or("alg missing".into())
        } },
        Spec { name: "signature algorithm (CertificateRequest)", bits: 16, registry: None, probe: |v, t| {
            let h = MHs::CertificateRequest { types: t.small_blob(4), sigalgs: Some(vec![t.u16(), v as u16]), cas: vec![t.small_blob(10)] };
            match parse_hs(&h.to_bytes())? { TlsMessageHandshake::CertificateRequest(c) => c.sig_hash_algs.and_then(|l| l.get(1).copied()).map(|x| x as u32).ok_or("missing".into()), o => Err(format!("{:?}", o)) }
        } },
        Spec { name: "signature algorithm (CertificateRequest whose list reads like an extension block)", bits: 16, registry: None, probe: |v, t| {
            // supported_signature_algorithms = {0x000d, 0x0004, 0x0002, v}: as bytes `00 0d 00 04 00 02 vv vv`, i.e. what the TLS 1.3 form of
            // this message would carry as a signature_algorithms extension; with three certificate types the first byte reads as a context length
            let types = vec![1u8, t.u8() | 1, 64];
            let h = MHs::CertificateRequest { types: types.clone(), sigalgs: Some(vec![0x000d, 0x0004, 0x0002, v as u16]), cas: vec![t.small_blob(10)] };
            match parse_hs(&h.to_bytes())? {
                TlsMessageHandshake::CertificateRequest(c) => {
                    if c.cert_types != types {
                        return Err(format!("certificate types {:?} read back as {:?}", types, c.cert_types));
                    }
                    match &c.sig_hash_algs {
                        Some(l) if l.len() == 4 && l[..3] == [0x000d, 0x0004, 0x0002] => Ok(l[3] as u32),
                        o => Err(format!("four algorithms written, read back {:?}", o)),
                    }
                }
                o => Err(format!("{:?}", o)),
            }
        } },
        Spec { name: "CT version (nine SCTs, list of 1080 bytes)", bits: 8, registry: Some(&ia::CT_VERSION), probe: |v, t| {
            // list lengths 0x0400..0x04ff start with the byte a DER OCTET STRING starts with
            let l: Vec<MSct> = (0..9u8).map(|i| MSct { version: if i % 2 == 0 { v as u8 } else { 0 }, id: vec![i; 32], timestamp: t.u64(), extensions: vec![], hash: 4, sign: 3, alg_present: true, signature: vec![0x30; 71] }).collect();
            let e = encode_sct_list(&l);
            let got = parse_ct_signed_certificate_timestamp_list(&e.buf).map_err(err)?.1;
            if got.len() != 9 {
                return Err(format!("nine SCTs written ({} bytes), {} read back", e.buf.len(), got.len()));
            }
            Ok(got[8].version.0 as u32)
        } },
        Spec { name: "certificate type (CertificateRequest)", bits: 8, registry: None, probe: |v, t| {
            let h = MHs::CertificateRequest { types: vec![t.u8(), v as u8], sigalgs: if t.bool() { Some(vec![0x0401]) } else { None }, cas: vec![] };
            match parse_hs(&h.to_bytes())? { TlsMessageHandshake::CertificateRequest(c) => Ok(c.cert_types[1] as u32), o => Err(format!("{:?}", o)) }
        } },
        Spec { name: "SNI name type", bits: 8, registry: Some(&ia::SNI_TYPE), probe: |v, t| {
            // the value in several positions, next to an entry of the same type and next to entries of other types: every entry is returned
            let other = (v as u8).wrapping_add(1 + t.u8() % 254);
            // (names: arbitrary bytes, DNS names, and the address literals and odd shapes of vmodel::HOST_NAMES - what the name looks like does not select the structure either)
            let l0 = vec![(v as u8, t.small_blob(12)), (v as u8, b"b.example".to_vec()), (other, b"example.org".to_vec()), (v as u8, vec![]), (0, b"a".to_vec()), (v as u8, HOST_NAMES[v as usize % HOST_NAMES.len()].as_bytes().to_vec()), (v as u8, b"192.0.2.1".to_vec()), (v as u8, b"2001:db8::1".to_vec())];
            let m = MExt::Sni(l0.clone());
            match parse_tls_extension(&m.to_bytes()).map_err(err)?.1 {
                TlsExtension::SNI(l) => {
                    if l.len() != l0.len() || l.iter().zip(l0.iter()).any(|(g, w)| g.0 .0 != w.0 || g.1 != w.1.as_slice()) {
                        return Err(format!("{} name entries written, read back: {:?}", l0.len(), l));
                    }
                    Ok(l[1].0 .0 as u32)
                }
                o => Err(format!("{:?}", o)),
            }
        } },
        Spec { name: "certificate status type (status_request extension)", bits: 8, registry: Some(&ia::CERT_STATUS_TYPE), probe: |v, t| {
            let m = MExt::StatusRequest(Some((v as u8, t.small_blob(12))));
            match parse_tls_extension(&m.to_bytes()).map_err(err)?.1 { TlsExtension::StatusRequest(Some((ty, _))) => Ok(ty.0 as u32), o => Err(format!("{:?}", o)) }
        } },
        Spec { name: "certificate status type (CertificateStatus message)", bits: 8, registry: Some(&ia::CERT_STATUS_TYPE), probe: |v, t| {
            let h = MHs::CertificateStatus { ty: v as u8, blob: t.small_blob(20) };
            match parse_hs(&h.to_bytes())? { TlsMessageHandshake::CertificateStatus(c) => Ok(c.status_type as u32), o => Err(format!("{:?}", o)) }
        } },
        Spec { name: "PSK key exchange mode", bits: 8, registry: Some(&ia::PSK_MODE), probe: |v, t| {
            let m = MExt::PskExchangeModes(vec![t.u8(), v as u8]);
            match parse_tls_extension(&m.to_bytes()).map_err(err)?.1 { TlsExtension::PskExchangeModes(l) => Ok(l[1] as u32), o => Err(format!("{:?}", o)) }
        } },
        Spec { name: "EC point format", bits: 8, registry: None, probe: |v, t| {
            // a list of two or three formats (what OpenSSL servers send), through the generic, ClientHello and ServerHello dispatchers
            let list = if t.bool() { vec![v as u8, t.u8()] } else { vec![t.u8(), v as u8, 2] };
            let pos = list.iter().position(|x| *x == v as u8).unwrap_or(0);
            let bytes = MExt::EcPointFormats(list.clone()).to_bytes();
            for (dn, r) in [("generic", parse_tls_extension(&bytes)), ("client hello", parse_tls_client_hello_extension(&bytes)), ("server hello", parse_tls_server_hello_extension(&bytes))] {
                match r.map_err(|e| format!("{} dispatcher: {}", dn, err(e)))?.1 {
                    TlsExtension::EcPointFormats(l) if l == list.as_slice() => {}
                    o => return Err(format!("{} dispatcher: {:?}", dn, o)),
                }
            }
            Ok(list[pos] as u32)
        } },
        Spec { name: "CT version", bits: 8, registry: Some(&ia::CT_VERSION), probe: |v, t| {
            let mut s = gen_sct(t, 120);
            s.version = v as u8;
            let l = encode_sct_list(&[s]);
            parse_ct_signed_certificate_timestamp_list(&l.buf).map_err(err)?.1.first().map(|x| x.version.0 as u32).ok_or("empty list".into())
        } },
        Spec { name: "key update request", bits: 8, registry: Some(&ia::KEY_UPDATE), probe: |v, _t| {
            match parse_hs(&MHs::KeyUpdate(v as u8).to_bytes())? { TlsMessageHandshake::KeyUpdate(x) => Ok(x as u32), o => Err(format!("{:?}", o)) }
        } },
        Spec { name: "supported_versions element", bits: 16, registry: Some(&ia::VERSION), probe: |v, t| {
            let m = if t.bool() { MExt::SupportedVersions(vec![v as u16], true) } else { MExt::SupportedVersions(vec![t.u16(), v as u16], false) };
            match parse_tls_extension(&m.to_bytes()).map_err(err)?.1 { TlsExtension::SupportedVersions(l) => Ok(l.last().map(|x| x.0 as u32).unwrap_or(0x1_0000)), o => Err(format!("{:?}", o)) }
        } },
        Spec { name: "DTLS record version", bits: 16, registry: Some(&ia::VERSION), probe: |v, t| {
            // the same version over each kind of record content: the version selects no structure, so the messages come back as written
            let (a, b) = (t.u8(), t.u8());
            let mut seen = None;
            for (ctype, msgs) in [(0x15u8, vec![MDtlsMsg::Alert(a, b)]), (0x14, vec![MDtlsMsg::Ccs]), (0x14, vec![MDtlsMsg::Ccs; 3]), (0x15, vec![MDtlsMsg::Alert(2, 40), MDtlsMsg::Alert(1, 0)])] {
                let r = MDtlsRecord { ctype, version: v as u16, epoch: t.u16(), seq: t.u32() as u64, msgs: msgs.clone() };
                let bytes = r.to_bytes();
                let (_, p) = parse_dtls_plaintext_record(&bytes).map_err(|e| format!("content type {:#04x} with {} message(s): {}", ctype, msgs.len(), err(e)))?;
                if p.messages.len() != msgs.len() {
                    return Err(format!("content type {:#04x}: {} message(s) written, {} read back", ctype, msgs.len(), p.messages.len()));
                }
                if seen.map_or(false, |s| s != p.header.version.0 as u32) {
                    return Err("version differs between records".into());
                }
                seen = Some(p.header.version.0 as u32);
            }
            Ok(seen.unwrap())
        } },
        Spec { name: "DTLS ClientHello / HelloVerifyRequest version", bits: 16, registry: Some(&ia::VERSION), probe: |v, t| {
            // cookies of every length class next to every version (RFC 4347 had cookie<0..32>, RFC 6347 has <0..255>: the parser takes 0..255 for every version)
            let cl = [0usize, 20, 32, 33, 48, 255][(v as usize + t.below(6)) % 6];
            let body = if t.bool() { MDtlsBody::HelloVerifyRequest { version: v as u16, cookie: t.bytes(cl) } } else { MDtlsBody::ClientHello { version: v as u16, random: t.bytes(32), sid: None, cookie: t.bytes(cl), ciphers: vec![t.u16()], comp: vec![0], ext: None } };
            let ty = if matches!(body, MDtlsBody::HelloVerifyRequest { .. }) { 3 } else { 1 };
            let mut be = Enc::new();
            body.encode(&mut be);
            let l = be.buf.len() as u32;
            let mut e = Enc::new();
            MDtlsHs { msg_type: ty, length: l, message_seq: 0, fragment_offset: 0, fragment_length: l, body }.encode(&mut e);
            match parse_dtls_message_handshake(&e.buf).map_err(err)?.1 {
                DTLSMessage::Handshake(h) => match h.body { DTLSMessageHandshakeBody::HelloVerifyRequest(x) => Ok(x.server_version.0 as u32), DTLSMessageHandshakeBody::ClientHello(x) => Ok(x.version.0 as u32), o => Err(format!("{:?}", o)) },
                o => Err(format!("{:?}", o)),
            }
        } },
        Spec { name: "hash x signature algorithm (derived SignatureAndHashAlgorithm::parse)", bits: 16, registry: None, probe: |v, t| {
            use nom_derive::Parse;
            let b = [(v >> 8) as u8, v as u8, t.u8()];
            SignatureAndHashAlgorithm::parse(&b).map(|(_, a)| (a.hash.0 as u32) << 8 | a.sign.0 as u32).map_err(err)
        } },
        Spec { name: "alert level x description (derived TlsMessageAlert::parse)", bits: 16, registry: None, probe: |v, t| {
            use nom_derive::Parse;
            let b = [(v >> 8) as u8, v as u8, t.u8()];
            TlsMessageAlert::parse(&b).map(|(_, a)| (a.severity.0 as u32) << 8 | a.code.0 as u32).map_err(err)
        } },
        Spec { name: "record version (derived TlsRecordHeader::parse)", bits: 16, registry: Some(&ia::VERSION), probe: |v, t| {
            use nom_derive::Parse;
            let b = [t.u8(), (v >> 8) as u8, v as u8, t.u8(), t.u8()];
            TlsRecordHeader::parse(&b).map(|(_, h)| h.version.0 as u32).map_err(err)
        } },
        Spec { name: "DTLS alert level x description", bits: 16, registry: None, probe: |v, t| {
            let r = MDtlsRecord { ctype: 0x15, version: 0xfefd, epoch: t.u16(), seq: 1, msgs: vec![MDtlsMsg::Alert((v >> 8) as u8, v as u8)] };
            match parse_dtls_plaintext_record(&r.to_bytes()).map_err(err)?.1.messages.first() { Some(DTLSMessage::Alert(a)) => Ok((a.severity.0 as u32) << 8 | a.code.0 as u32), o => Err(format!("{:?}", o)) }
        } },
        Spec { name: "alert level x description (alert that follows a fatal alert and a close_notify in the same record)", bits: 16, registry: None, probe: |v, t| {
            // the pair under test in three positions: after a warning, after a fatal alert, after a close_notify
            let (l, d) = ((v >> 8) as u8, v as u8);
            let b = rec(0x15, t.u16(), &[1, 90, l, d, 2, 40, l, d, 1, 0, l, d]);
            let p = parse_tls_plaintext(&b).map_err(err)?.1;
            let got: Vec<(u8, u8)> = p.msg.iter().filter_map(|m| if let TlsMessage::Alert(a) = m { Some((a.severity.0, a.code.0)) } else { None }).collect();
            if got != vec![(1, 90), (l, d), (2, 40), (l, d), (1, 0), (l, d)] {
                return Err(format!("six alerts written, read back {:?}", got));
            }
            Ok(v)
        } },
        Spec { name: "DTLS alert level x description (after a fatal alert and a close_notify in the same record)", bits: 16, registry: None, probe: |v, t| {
            let (l, d) = ((v >> 8) as u8, v as u8);
            let r = MDtlsRecord { ctype: 0x15, version: 0xfefd, epoch: t.u16(), seq: 1, msgs: vec![MDtlsMsg::Alert(2, 40), MDtlsMsg::Alert(l, d), MDtlsMsg::Alert(1, 0), MDtlsMsg::Alert(l, d)] };
            let bytes = r.to_bytes();
            let p = parse_dtls_plaintext_record(&bytes).map_err(err)?.1;
            let got: Vec<(u8, u8)> = p.messages.iter().filter_map(|m| if let DTLSMessage::Alert(a) = m { Some((a.severity.0, a.code.0)) } else { None }).collect();
            if got != vec![(2, 40), (l, d), (1, 0), (l, d)] {
                return Err(format!("four alerts written, read back {:?}", got));
            }
            Ok(v)
        } },
        Spec { name: "heartbeat message type (message reassembled by TlsRecordsParser, last record of 1-2 bytes)", bits: 8, registry: Some(&ia::HEARTBEAT_TYPE), probe: |v, t| {
            let payload = t.small_blob(12);
            let mut e = Enc::new();
            e.u8(v as u8);
            e.vec(2, "l", &payload);
            let m = e.buf;
            // the cut leaves 1 or 2 bytes for the last record (or, when the payload is empty, cuts inside the 3-byte header)
            let cut = m.len() - 1 - (t.u8() as usize % 2).min(m.len() - 2);
            let mut p = TlsRecordsParser::default();
            let mk = |d: &'_ [u8]| -> Vec<u8> { d.to_vec() };
            let (a, b) = (mk(&m[..cut]), mk(&m[cut..]));
            let r1 = p.parse_record(TlsRawRecord { hdr: TlsRecordHeader { record_type: TlsRecordType::Heartbeat, version: TlsVersion(0x0303), len: a.len() as u16 }, data: &a });
            if !matches!(r1, Err(tls_parser::nom::Err::Incomplete(_))) {
                return Err(format!("first fragment ({} of {} bytes) answered {:?}", a.len(), m.len(), r1.map(|x| x.1.len()).map_err(|e| e.map(|x| x.code))));
            }
            match p.parse_record(TlsRawRecord { hdr: TlsRecordHeader { record_type: TlsRecordType::Heartbeat, version: TlsVersion(0x0303), len: b.len() as u16 }, data: &b }) {
                Ok((_, msgs)) => match msgs.first() {
                    Some(TlsMessage::Heartbeat(h)) if h.payload == payload.as_slice() => Ok(h.heartbeat_type.0 as u32),
                    o => Err(format!("reassembled to {:?}", o)),
                },
                Err(e) => Err(format!("last fragment ({} bytes) answered {:?}", b.len(), e.map(|x| x.code))),
            }
        } },
        Spec { name: "record version (later fragment handed to TlsRecordsParser)", bits: 16, registry: Some(&ia::VERSION), probe: |v, t| {
            // a handshake message split over three records: the first carries version a, the others the version under test and a third one;
            // the record version selects nothing, so the message is reassembled and the last record's header values are whatever they were
            let body = t.small_blob(24);
            let m = MHs::Finished(body.clone()).to_bytes();
            let cut1 = 1 + t.below(m.len() - 2);
            let cut2 = cut1 + t.below(m.len() - cut1);
            let mut p = TlsRecordsParser::default();
            let recs = [(t.u16(), &m[..cut1]), (v as u16, &m[cut1..cut2]), (v as u16 ^ t.u16(), &m[cut2..])];
            let mut last = Err("no record".to_string());
            for (i, (ver, data)) in recs.iter().enumerate() {
                let raw = TlsRawRecord { hdr: TlsRecordHeader { record_type: TlsRecordType::Handshake, version: TlsVersion(*ver), len: data.len() as u16 }, data };
                match p.parse_record(raw) {
                    Ok((_, msgs)) if i == 2 => {
                        last = match msgs.first() {
                            Some(TlsMessage::Handshake(TlsMessageHandshake::Finished(f))) if *f == body.as_slice() => Ok(v),
                            o => Err(format!("reassembled to {:?}", o)),
                        }
                    }
                    Err(tls_parser::nom::Err::Incomplete(_)) if i < 2 => {}
                    o => return Err(format!("fragment {} (record version {:#06x}) answered {:?}", i + 1, ver, o.map(|x| x.1.len()).map_err(|e| e.map(|x| x.code)))),
                }
            }
            last
        } },
    ]
}

thread_local! {
    static JBUF: std::cell::RefCell<Vec<u8>> = std::cell::RefCell::new(vec![0x61u8; 5 + 0x4200]);
}

/// parameter tape: [content type, version low byte]; the other dimensions are looped inside
fn record_header_joint(t: &mut Tape, obs: &mut Obs) -> R {
    let ty = t.u8();
    let vlo = t.u8();
    JBUF.with(|b| {
        let mut b = b.borrow_mut();
        for vhi in [0x03u8, 0x00, 0x7f, 0xfe, 0xff] {
            for lhi in 0..=0x41u8 {
                for llo in [0x00u8, 0x01, 0xff] {
                    let l = (lhi as usize) << 8 | llo as usize;
                    if l > 16640 {
                        continue;
                    }
                    b[0] = ty;
                    b[1] = vhi;
                    b[2] = vlo;
                    b[3] = lhi;
                    b[4] = llo;
                    let input = &b[..5 + l + 3];
                    obs.evals_add(3);
                    let want = (ty, (vhi as u16) << 8 | vlo as u16, l as u16);
                    let r1 = guard("parse_tls_raw_record", || parse_tls_raw_record(input).map(|(rem, r)| (rem.len(), (r.hdr.record_type.0, r.hdr.version.0, r.hdr.len), r.data.len())).map_err(err))?;
                    let r2 = guard("parse_tls_encrypted", || parse_tls_encrypted(input).map(|(rem, r)| (rem.len(), (r.hdr.record_type.0, r.hdr.version.0, r.hdr.len), r.msg.blob.len())).map_err(err))?;
                    let r3 = guard("parse_tls_record_header", || parse_tls_record_header(input).map(|(_, h)| (h.record_type.0, h.version.0, h.len)).map_err(err))?;
                    for (pn, r) in [("parse_tls_raw_record", &r1), ("parse_tls_encrypted", &r2)] {
                        match r {
                            Ok((rl, h, dl)) => ensure!(*rl == 3 && *h == want && *dl == l, format!("C11:joint:{}:changed", pn), "{}: header (type {:#04x}, version {:#06x}, len {}) came back as {:?}, payload {} bytes, remainder {}", pn, ty, want.1, l, h, dl, rl),
                            Err(e) => return fail(format!("C11:joint:{}:rejected", pn), format!("{}: record with content type {:#04x}, version {:#06x}, length {} (within the cap, payload present) was {}", pn, ty, want.1, l, e)),
                        }
                    }
                    match r3 {
                        Ok(h) => ensure!(h == want, "C11:joint:parse_tls_record_header:changed", "parse_tls_record_header: {:?} expected {:?}", h, want),
                        Err(e) => return fail("C11:joint:parse_tls_record_header:rejected", format!("parse_tls_record_header: type {:#04x} version {:#06x} len {} was {}", ty, want.1, l, e)),
                    }
                }
            }
        }
        Ok::<(), Fail>(())
    })?;
    obs.nontrivial((ty as u64) << 8 | vlo as u64);
    if obs.wants_sample() && ty > 0x80 {
        obs.sample(json!({"content_type": ty, "version_low_byte": vlo, "version_high_bytes": [3, 0, 127, 254, 255], "length_high_bytes": "0x00..=0x41"}));
    }
    Ok(())
}

/// parameter tape: [field index, value_hi, value_lo, template variant]
fn fields(t: &mut Tape, obs: &mut Obs) -> R {
    let si = t.u8() as usize;
    let v = t.u16() as u32;
    let k = t.u8();
    let sp = specs();
    let s = match sp.get(si) {
        Some(s) => s,
        None => return Ok(()),
    };
    if s.bits == 8 && v > 255 {
        return Ok(());
    }
    // template variant: a small deterministic tape (variant 0 = all zeros = the simplest structure)
    // (for the other variants the surrounding values also change with the value under test, 251 templates per variant)
    let seed = if k == 0 { vec![0u8; 8] } else { fill(0xC11 ^ (k as u64) << 16 ^ si as u64 ^ ((v % 251) as u64) << 24, 96) };
    let mut tt = Tape::new(&seed);
    let named = s.registry.map_or(false, |r| r.name_of(v).is_some());
    if !named {
        obs.nontrivial((si as u64) << 32 | v as u64);
    }
    obs.class(s.name);
    let got = guard(s.name, || (s.probe)(v, &mut tt))?;
    match got {
        Ok(g) => ensure!(g == v, format!("C11:{}:changed", s.name), "{}: value {:#x} was written, {:#x} was returned", s.name, v, g),
        Err(e) => return fail(format!("C11:{}:rejected", s.name), format!("{}: value {:#x} ({}) in an otherwise well-formed structure was {}", s.name, v, if named { "registered" } else { "unregistered" }, e)),
    }
    if obs.wants_sample() && !named && v > 300 {
        obs.sample(json!({"field": s.name, "value": v, "template_variant": k, "note": hex_short(&seed[..8.min(seed.len())])}));
    }
    Ok(())
}
