//! C13 Key-exchange parameters and signatures decode exactly and self-delimit.

use super::PropDef;
use crate::conv;
use crate::core::*;
use nom_derive::Parse;
use serde_json::json;
use tls_parser::*;
use vmodel::model::*;
use vmodel::tape::Tape;
use vmodel::wire::{fnv64, hex_short, Enc};

pub const DEF: PropDef = PropDef {
    id: "C13",
    title: "Key-exchange parameters and signatures decode exactly and self-delimit",
    rule: "dh / ec / signed = model values (DH fields 0..65535 bytes weighted to 0, 1, 256, 65535; EC named curve over all groups and explicit-prime form with six fields 0..255; \
           points 0..255; both DigitallySigned forms over all algorithm pairs, data 0..65535) encoded per RFC 4492 / 5246 with trailing bytes: value and remainder exact, every \
           sampled strict prefix is never Ok; curve_types = all 256 curve-type bytes (only 1 and 3 accepted) and all 65536 named groups (exhaustive); content_and_signature = \
           three content parsers x both flag values x inputs whose signature is in either form, compared with a reference decoder of the form the flag selects. \
           Non-trivial = a value with at least one non-empty field (tape sub-checks), every case of curve_types; distinct by hash of the bytes / by enumerated value.",
    assumptions: &["model encoders follow RFC 5246 7.4.3 / 4.7 and RFC 4492 5.4", "parse_content_and_signature is judged against a reference decoder written in the harness (length-only form vs hash/sign + length form)"],
    run,
};

pub const SUBS: &[SubDef] = &[
    SubDef { prop: "C13", name: "dh", oracle: dh },
    SubDef { prop: "C13", name: "ec", oracle: ec },
    SubDef { prop: "C13", name: "curve_types", oracle: curve_types },
    SubDef { prop: "C13", name: "signed", oracle: signed },
    SubDef { prop: "C13", name: "content_and_signature", oracle: content_and_signature },
];

fn run(ctx: &Ctx) {
    ctx.run_tape("dh", dh, ctx.pick(60_000, 200_000), 128);
    ctx.run_tape("ec", ec, ctx.pick(90_000, 300_000), 256);
    let cases = (0..256u32).map(|c| vec![0u8, c as u8, 0]).chain((0..=65535u32).map(|g| vec![1u8, (g >> 8) as u8, g as u8]));
    ctx.run_enum("curve_types", curve_types, true, "all 256 curve-type bytes (named and explicit bodies) and all 65536 named groups", cases);
    ctx.run_tape("signed", signed, ctx.pick(90_000, 300_000), 128);
    ctx.run_tape("content_and_signature", content_and_signature, ctx.pick(120_000, 400_000), 300);
    // the algorithm pair of DigitallySigned through its own (derived) parsers: hash octet first, then signature octet (RFC 5246
    // 7.4.1.4.1), for all 65536 pairs, and the same pair read by parse_digitally_signed
    ctx.run_fn("algorithm_pair", true, "all 65536 (hash, signature) octet pairs through SignatureAndHashAlgorithm::parse, HashAlgorithm::parse + SignAlgorithm::parse, SignatureScheme::parse and parse_digitally_signed", |obs| {
        use nom_derive::Parse;
        for v in 0..=65535u32 {
            let (h, sg) = ((v >> 8) as u8, v as u8);
            let b = [h, sg, 0x00, 0x01, 0xaa, 0x55];
            obs.evals_add(4);
            let got = guard("SignatureAndHashAlgorithm::parse", || SignatureAndHashAlgorithm::parse(&b).map(|(rem, a)| (rem.len(), a.hash.0, a.sign.0)).map_err(|e| format!("{:?}", e.map(|x| x.code))))?;
            ensure!(got == Ok((4, h, sg)), "C13:algorithm-pair:derived-parser", "SignatureAndHashAlgorithm::parse({:02x} {:02x} ..) gives {:?}; the wire has hash {} then signature {}", h, sg, got, h, sg);
            let got = guard("HashAlgorithm::parse, SignAlgorithm::parse", || {
                let (r, a) = HashAlgorithm::parse(&b).map_err(|e| format!("{:?}", e.map(|x| x.code)))?;
                let (r, c) = SignAlgorithm::parse(r).map_err(|e| format!("{:?}", e.map(|x| x.code)))?;
                Ok::<_, String>((r.len(), a.0, c.0))
            })?;
            ensure!(got == Ok((4, h, sg)), "C13:algorithm-pair:octet-parsers", "HashAlgorithm::parse then SignAlgorithm::parse on {:02x} {:02x} give {:?}", h, sg, got);
            let got = guard("SignatureScheme::parse", || SignatureScheme::parse(&b).map(|(rem, a)| (rem.len(), a.0)).map_err(|e| format!("{:?}", e.map(|x| x.code))))?;
            ensure!(got == Ok((4, v as u16)), "C13:algorithm-pair:scheme", "SignatureScheme::parse({:02x} {:02x} ..) gives {:?}", h, sg, got);
            let got = guard("parse_digitally_signed", || parse_digitally_signed(&b).map(|(rem, d)| (rem.len(), d.alg.map(|a| (a.hash.0, a.sign.0)), d.data.to_vec())).map_err(|e| format!("{:?}", e.map(|x| x.code))))?;
            ensure!(got == Ok((1, Some((h, sg)), vec![0xaa])), "C13:algorithm-pair:digitally-signed", "parse_digitally_signed({:02x} {:02x} 00 01 aa 55) gives {:?}", h, sg, got);
            obs.nontrivial(v as u64);
        }
        obs.sample(json!({"pairs": 65536, "example": "04 03 -> hash 4 (sha256), signature 3 (ecdsa)"}));
        Ok(())
    });
}

fn tail(t: &mut Tape) -> Vec<u8> {
    match t.below(3) {
        0 => vec![],
        1 => t.small_blob(30),
        _ => {
            // shaped like another length-prefixed field
            let d = t.small_blob(20);
            let mut e = Enc::new();
            e.vec(if t.bool() { 1 } else { 2 }, "x", &d);
            e.buf
        }
    }
}

/// Ok(remainder offset, remainder len, converted value) or the error class
fn run_p<'a, T, M>(name: &str, buf: &'a [u8], p: impl FnOnce(&'a [u8]) -> IResult<&'a [u8], T>, c: impl FnOnce(&T) -> M) -> Result<Result<(usize, usize, M), String>, Fail> {
    guard(name, || match p(buf) {
        Ok((rem, v)) => Ok(((rem.as_ptr() as usize).wrapping_sub(buf.as_ptr() as usize), rem.len(), c(&v))),
        Err(e) => Err(format!("{:?}", e.map(|x| x.code))),
    })
}

fn expect_exact<M: PartialEq + std::fmt::Debug>(name: &str, r: Result<(usize, usize, M), String>, want: &M, enc_len: usize, tail_len: usize, buf: &[u8]) -> R {
    match r {
        Ok((off, rl, got)) => {
            ensure!(&got == want, format!("C13:{}:value", name), "{}: decoded {} expected {} (wire {})", name, trunc(&format!("{:?}", got)), trunc(&format!("{:?}", want)), hex_short(buf));
            ensure!(rl == tail_len && (rl == 0 || off == enc_len), format!("C13:{}:remainder", name), "{}: must consume exactly its own {} bytes and leave {} trailing bytes; left {} at offset {}", name, enc_len, tail_len, rl, off);
            Ok(())
        }
        Err(e) => fail(format!("C13:{}:rejected", name), format!("{} rejected a well-formed encoding with {}: {}", name, e, hex_short(buf))),
    }
}

fn prefixes_never_ok<'a, T>(name: &str, enc: &'a [u8], t: &mut Tape, p: impl Fn(&'a [u8]) -> IResult<&'a [u8], T>) -> R {
    let mut cuts: Vec<usize> = (0..6).map(|_| t.below(enc.len().max(1))).collect();
    cuts.extend([0, enc.len().saturating_sub(1), enc.len() / 2]);
    for c in cuts {
        if c >= enc.len() {
            continue;
        }
        let ok = guard(name, || p(&enc[..c]).is_ok())?;
        ensure!(!ok, format!("C13:{}:prefix-accepted", name), "{}: a strict prefix ({} of {} bytes) of an encoding was accepted: {}", name, c, enc.len(), hex_short(&enc[..c]));
    }
    Ok(())
}

fn dh(t: &mut Tape, obs: &mut Obs) -> R {
    let m = gen_dh(t);
    let mut e = Enc::new();
    m.encode(&mut e);
    let enc = e.buf;
    let tl = tail(t);
    let mut buf = enc.clone();
    buf.extend_from_slice(&tl);
    if !m.p.is_empty() || !m.g.is_empty() || !m.ys.is_empty() {
        obs.nontrivial(fnv64(&buf));
    }
    obs.class(&format!("p={}", if m.p.is_empty() { "0" } else if m.p.len() < 256 { "<256" } else if m.p.len() == 65535 { "65535" } else { ">=256" }));
    obs.sample(json!({"dh_p": m.p.len(), "dh_g": m.g.len(), "dh_ys": m.ys.len(), "trailing": tl.len(), "hex": hex_short(&buf)}));
    expect_exact("parse_dh_params", run_p("parse_dh_params", &buf, parse_dh_params, conv::dh)?, &m, enc.len(), tl.len(), &buf)?;
    expect_exact("ServerDHParams::parse", run_p("ServerDHParams::parse", &buf, ServerDHParams::parse, conv::dh)?, &m, enc.len(), tl.len(), &buf)?;
    prefixes_never_ok("parse_dh_params", &enc, t, parse_dh_params)
}

fn ec(t: &mut Tape, obs: &mut Obs) -> R {
    let m = gen_ecdh(t);
    let tl = tail(t);
    let ct = match m.params {
        MEcParams::Named(_) => 3u8,
        _ => 1,
    };
    obs.class(if ct == 3 { "named" } else { "explicit-prime" });
    // ECParameters alone
    let mut e = Enc::new();
    m.params.encode(&mut e);
    let enc = e.buf;
    let mut buf = enc.clone();
    buf.extend_from_slice(&tl);
    obs.nontrivial(fnv64(&buf));
    obs.sample(json!({"params": trunc(&format!("{:?}", m.params)), "public_len": m.public.len(), "hex": hex_short(&buf)}));
    let want = (ct, m.params.clone());
    expect_exact("parse_ec_parameters", run_p("parse_ec_parameters", &buf, parse_ec_parameters, conv::ec_params)?, &want, enc.len(), tl.len(), &buf)?;
    prefixes_never_ok("parse_ec_parameters", &enc, t, parse_ec_parameters)?;
    // ServerECDHParams
    let mut e = Enc::new();
    m.encode(&mut e);
    let enc = e.buf;
    let mut buf = enc.clone();
    buf.extend_from_slice(&tl);
    let want = (ct, m.clone());
    expect_exact("parse_ecdh_params", run_p("parse_ecdh_params", &buf, parse_ecdh_params, conv::ecdh)?, &want, enc.len(), tl.len(), &buf)?;
    prefixes_never_ok("parse_ecdh_params", &enc, t, parse_ecdh_params)?;
    // ECPoint
    let mut e = Enc::new();
    e.vec(1, "pt", &m.public);
    let enc = e.buf;
    let mut buf = enc.clone();
    buf.extend_from_slice(&tl);
    expect_exact("ECPoint::parse", run_p("ECPoint::parse", &buf, ECPoint::parse, |p| p.point.to_vec())?, &m.public, enc.len(), tl.len(), &buf)?;
    prefixes_never_ok("ECPoint::parse", &enc, t, ECPoint::parse)
}

/// parameter tape: [0, curve type, _] or [1, group_hi, group_lo]
fn curve_types(t: &mut Tape, obs: &mut Obs) -> R {
    let mode = t.u8();
    let v = t.u16();
    obs.nontrivial((mode as u64) << 16 | v as u64);
    if mode == 0 {
        let ct = (v >> 8) as u8;
        // two bodies: a named-curve body and an explicit-prime body, each followed by a point
        let named = MEcdh { params: MEcParams::Named(23), public: vec![4, 1, 2] };
        let explicit = MEcdh { params: MEcParams::ExplicitPrime { p: vec![7], a: vec![1], b: vec![2, 3], base: vec![4], order: vec![5], cofactor: vec![1] }, public: vec![9] };
        for (bn, body) in [("named-body", named), ("explicit-body", explicit)] {
            let mut e = Enc::new();
            body.encode(&mut e);
            let mut buf = e.buf;
            buf[0] = ct;
            buf.extend_from_slice(&[0xee; 4]);
            for (pn, ok) in [
                ("parse_ec_parameters", guard("parse_ec_parameters", || parse_ec_parameters(&buf).is_ok())?),
                ("parse_ecdh_params", guard("parse_ecdh_params", || parse_ecdh_params(&buf).is_ok())?),
            ] {
                obs.evals_add(1);
                if ct != 1 && ct != 3 {
                    ensure!(!ok, format!("C13:curve-type:{}:accepted:{}", pn, ct), "{}: curve type {} ({}) must be rejected", pn, ct, bn);
                } else if (ct == 3) == (bn == "named-body") {
                    ensure!(ok, format!("C13:curve-type:{}:rejected:{}", pn, ct), "{}: curve type {} with a matching body was rejected", pn, ct);
                }
            }
        }
        obs.class(if ct == 1 || ct == 3 { "supported" } else { "unsupported" });
    } else {
        let m = MEcdh { params: MEcParams::Named(v), public: vec![4, 0xaa] };
        let mut e = Enc::new();
        m.encode(&mut e);
        let r = run_p("parse_ecdh_params", &e.buf, parse_ecdh_params, conv::ecdh)?;
        expect_exact("parse_ecdh_params", r, &(3u8, m), e.buf.len(), 0, &e.buf)?;
        obs.class("named-group");
        if obs.wants_sample() && v > 20 {
            obs.sample(json!({"named_group": v, "hex": hex_short(&e.buf)}));
        }
    }
    Ok(())
}

fn signed(t: &mut Tape, obs: &mut Obs) -> R {
    let with_alg = t.bool();
    let m = gen_signed(t, with_alg);
    let mut e = Enc::new();
    m.encode(&mut e);
    let enc = e.buf;
    let tl = tail(t);
    let mut buf = enc.clone();
    buf.extend_from_slice(&tl);
    obs.nontrivial(fnv64(&buf));
    obs.class(if with_alg { "with-algorithm" } else { "legacy" });
    obs.sample(json!({"alg": m.alg, "data_len": m.data.len(), "hex": hex_short(&buf)}));
    // a clone of the decoded value (and of its algorithm pair) is the value: field by field and in its Debug text
    let cl = guard("DigitallySigned::clone", || {
        let r = if with_alg { parse_digitally_signed(&buf) } else { parse_digitally_signed_old(&buf) };
        r.ok().map(|(_, d)| {
            let c = d.clone();
            let mut x = d.clone();
            x.clone_from(&c);
            (conv::signed(&c) == conv::signed(&d) && conv::signed(&x) == conv::signed(&d) && (d.data.len() > 256 || format!("{:?}", c) == format!("{:?}", d)) && d.alg.clone().map(|a| (a.hash.0, a.sign.0)) == d.alg.as_ref().map(|a| (a.hash.0, a.sign.0)), if d.data.len() > 256 { format!("{:?} vs {:?}", conv::signed(&c).alg, conv::signed(&d).alg) } else { format!("{:?} vs {:?}", c, d) })
        })
    })?;
    if let Some((ok, txt)) = cl {
        ensure!(ok, "C13:signed:clone-differs", "the clone of a decoded DigitallySigned differs from it: {}", trunc(&txt));
    }
    if with_alg {
        expect_exact("parse_digitally_signed", run_p("parse_digitally_signed", &buf, parse_digitally_signed, conv::signed)?, &m, enc.len(), tl.len(), &buf)?;
        prefixes_never_ok("parse_digitally_signed", &enc, t, parse_digitally_signed)
    } else {
        expect_exact("parse_digitally_signed_old", run_p("parse_digitally_signed_old", &buf, parse_digitally_signed_old, conv::signed)?, &m, enc.len(), tl.len(), &buf)?;
        prefixes_never_ok("parse_digitally_signed_old", &enc, t, parse_digitally_signed_old)
    }
}

/// reference decoder of a DigitallySigned structure in the form the flag selects
fn ref_signed(b: &[u8], ext: bool) -> Option<(MSigned, usize)> {
    let mut o = 0;
    let alg = if ext {
        if b.len() < 2 {
            return None;
        }
        o = 2;
        Some((b[0], b[1]))
    } else {
        None
    };
    if b.len() < o + 2 {
        return None;
    }
    let l = (b[o] as usize) << 8 | b[o + 1] as usize;
    if b.len() < o + 2 + l {
        return None;
    }
    Some((MSigned { alg, data: b[o + 2..o + 2 + l].to_vec() }, o + 2 + l))
}

fn content_and_signature(t: &mut Tape, obs: &mut Obs) -> R {
    let which = t.below(3);
    let ext = t.bool();
    let sig_form = t.bool(); // form actually written (may differ from what the caller claims)
    let mut e = Enc::new();
    let content_fp: String = match which {
        0 => {
            let d = MDh { p: t.small_blob(200), g: t.small_blob(4), ys: t.small_blob(200) };
            d.encode(&mut e);
            format!("{:?}", d)
        }
        1 => {
            let d = gen_ecdh(t);
            d.encode(&mut e);
            format!("{:?}", (if matches!(d.params, MEcParams::Named(_)) { 3u8 } else { 1 }, d))
        }
        _ => {
            let d = gen_ec_params(t);
            d.encode(&mut e);
            format!("{:?}", (if matches!(d, MEcParams::Named(_)) { 3u8 } else { 1 }, d))
        }
    };
    let content_len = e.buf.len();
    let mut sg = gen_signed(t, sig_form);
    sg.data.truncate(400);
    sg.encode(&mut e);
    let tl = t.small_blob(12);
    e.bytes(&tl);
    let buf = e.buf;
    obs.nontrivial(fnv64(&buf) ^ ext as u64);
    let label = format!("{}:{}:{}", ["dh", "ecdh", "ec"][which], if ext { "ext" } else { "no-ext" }, if ext == sig_form { "matching-form" } else { "other-form" });
    obs.sample_class(&label, || json!({"case": label, "hex": hex_short(&buf)}));
    let got: Result<(usize, String, MSigned), String> = guard("parse_content_and_signature", || {
        macro_rules! go {
            ($p:expr, $c:expr) => {
                match parse_content_and_signature(&buf, $p, ext) {
                    Ok((rem, (c, s))) => Ok((rem.len(), format!("{:?}", $c(&c)), conv::signed(&s))),
                    Err(e) => Err(format!("{:?}", e.map(|x| x.code))),
                }
            };
        }
        match which {
            0 => go!(parse_dh_params, conv::dh),
            1 => go!(parse_ecdh_params, conv::ecdh),
            _ => go!(parse_ec_parameters, conv::ec_params),
        }
    })?;
    let want = ref_signed(&buf[content_len..], ext);
    match (got, want) {
        (Ok((rl, cfp, s)), Some((ws, used))) => {
            ensure!(cfp == content_fp, "C13:content-and-signature:content", "content value {} expected {}", trunc(&cfp), trunc(&content_fp));
            ensure!(s.alg.is_some() == ext, "C13:content-and-signature:form", "ext={} but the signature was read {} an algorithm pair", ext, if s.alg.is_some() { "with" } else { "without" });
            ensure!(s == ws, "C13:content-and-signature:signature", "ext={}: signature {} expected {}", ext, trunc(&format!("{:?}", s)), trunc(&format!("{:?}", ws)));
            ensure!(rl == buf.len() - content_len - used, "C13:content-and-signature:remainder", "remainder {} expected {}", rl, buf.len() - content_len - used);
        }
        (Err(_), None) => {}
        (Ok((_, _, s)), None) => return fail("C13:content-and-signature:accepted", format!("ext={}: returned {:?} although the bytes do not hold a complete signature in that form", ext, s)),
        (Err(e), Some(_)) => return fail("C13:content-and-signature:rejected", format!("ext={}: rejected with {} although content and signature are complete: {}", ext, e, hex_short(&buf))),
    }
    // the content parser is the caller's: "the content parser's value followed by a signature" means the signature is read from what
    // the content parser leaves, whatever that parser is.
    // (a) a content parser whose encoding is empty (a body that is only a DigitallySigned, such as CertificateVerify)
    let sigpart = &buf[content_len..];
    let got = guard("parse_content_and_signature (empty content)", || match parse_content_and_signature(sigpart, |i: &[u8]| -> IResult<&[u8], u8> { Ok((i, 7u8)) }, ext) {
        Ok((rem, (c, sg))) => Ok((rem.len(), c, conv::signed(&sg))),
        Err(e) => Err(format!("{:?}", e.map(|x| x.code))),
    })?;
    match (got, ref_signed(sigpart, ext)) {
        (Ok((rl, c, sg)), Some((ws, used))) => ensure!(c == 7 && sg == ws && rl == sigpart.len() - used, "C13:content-and-signature:empty-content", "with a content parser that consumes nothing: content {}, signature {}, remainder {}; expected 7, {}, {}", c, trunc(&format!("{:?}", sg)), rl, trunc(&format!("{:?}", ws)), sigpart.len() - used),
        (Err(_), None) => {}
        (Ok((_, _, sg)), None) => return fail("C13:content-and-signature:empty-content:accepted", format!("ext={}: returned {:?} although the bytes do not hold a complete signature in that form", ext, sg)),
        (Err(e), Some(_)) => return fail("C13:content-and-signature:empty-content:rejected", format!("ext={}: with a content parser that consumes nothing, a complete signature was rejected with {}: {}", ext, e, hex_short(sigpart))),
    }
    // (b) a content parser that confines itself to the first k bytes of what it is given (the caller knows the body length, another
    // message follows in the buffer): the signature is read inside those k bytes and the remainder is what is left of them
    if let Some((_, used)) = ref_signed(sigpart, ext) {
        let k = (content_len + used + if t.bool() { 0 } else { t.below(tl.len() + 1) }).min(buf.len());
        let got: Result<(usize, String, MSigned), String> = guard("parse_content_and_signature (confined content parser)", || {
            macro_rules! go {
                ($p:expr, $c:expr) => {
                    match parse_content_and_signature(&buf, |i: &[u8]| $p(&i[..k]), ext) {
                        Ok((rem, (c, sg))) => Ok((rem.len(), format!("{:?}", $c(&c)), conv::signed(&sg))),
                        Err(e) => Err(format!("{:?}", e.map(|x| x.code))),
                    }
                };
            }
            match which {
                0 => go!(parse_dh_params, conv::dh),
                1 => go!(parse_ecdh_params, conv::ecdh),
                _ => go!(parse_ec_parameters, conv::ec_params),
            }
        })?;
        let (ws, wused) = ref_signed(&buf[content_len..k], ext).unwrap();
        match got {
            Ok((rl, cfp, sg)) => ensure!(cfp == content_fp && sg == ws && rl == k - content_len - wused, "C13:content-and-signature:confined-content", "content parser confined to the first {} of {} bytes: signature {} remainder {}, expected {} and {}", k, buf.len(), trunc(&format!("{:?}", sg)), rl, trunc(&format!("{:?}", ws)), k - content_len - wused),
            Err(e) => return fail("C13:content-and-signature:confined-content:rejected", format!("content parser confined to the first {} of {} bytes: rejected with {}", k, buf.len(), e)),
        }
    }
    Ok(())
}
