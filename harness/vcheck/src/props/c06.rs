//! C06 Parsers are local and zero-copy: only the declared bytes matter.

use super::c07::{gen_ops, op_label, Op};
use super::PropDef;
use crate::conv;
use crate::core::*;
use crate::visit::{self, Sl};
use nom_derive::Parse;
use tls_parser::nom;
use serde_json::json;
use tls_parser::*;
use vmodel::model::*;
use vmodel::tape::Tape;
use vmodel::wire::{fnv64, get_be, hex_short, set_be, Enc};

pub const DEF: PropDef = PropDef {
    id: "C06",
    title: "Parsers are local and zero-copy: only the declared bytes matter",
    rule: "locality = for 36 self-delimiting parsers (3 TLS record parsers, DTLS record, TLS/DTLS handshake message, 3 extension dispatchers + unknown + 16 single-purpose \
           extension parsers, SCT and SCT list, DH / ECDH / EC parameters, ECPoint, both DigitallySigned forms, the two record-header parsers) an input b from the matching \
           model encoder (valid, or with 1..2 corrupted length fields, or truncated, or random) and a suffix x (random, a copy of b, another valid structure, 0x00.. / 0xff..): \
           P(b) Ok => P(b++x) Ok with the same value and remainder r++x; b containing the declared length (reference framing function) => same outcome class with and without x; \
           remainder is a suffix at input+consumed; every non-empty byte slice reachable from the value (hand-written visitor over all result types) lies inside the consumed \
           part of the caller's buffer. defrag = operation histories on TlsRecordsParser: slices of results of parse_record_nocopy and of records that parse on their own alias \
           the caller's record, slices of defragmented results alias the internal buffer (hook), remainders likewise. Non-trivial = P(b) is Ok, the value reaches a non-empty \
           slice and x is non-empty (locality); a history with an Ok result reaching a non-empty slice (defrag); distinct by (parser, hash of b) / hash of history.",
    assumptions: &[
        "values are compared after conversion to the harness's model types (so every field takes part, including those the crate's Debug impls omit)",
        "the only owned byte containers allowed in results are decoded integer lists and the PSK-modes Vec<u8> (by design in the crate)",
        "empty slices carry no provenance (nom returns static empty slices in places) and are skipped",
    ],
    run,
};

pub const SUBS: &[SubDef] = &[
    SubDef { prop: "C06", name: "locality", oracle: locality },
    SubDef { prop: "C06", name: "locality_huge", oracle: locality_huge },
    SubDef { prop: "C06", name: "locality_congruent", oracle: locality_congruent },
    SubDef { prop: "C06", name: "defrag", oracle: defrag },
    SubDef { prop: "C06", name: "locality_raw", oracle: locality_raw },
];

fn run(ctx: &Ctx) {
    ctx.run_tape("locality", locality, ctx.pick(192_000, 800_000), 700);
    // every family once per huge suffix size (10 MiB-9, 10 MiB, 10 MiB+1, 16 MiB+3), on a valid structure drawn from a seeded tape
    let nf = families().len();
    let seed = ctx.seed;
    let cases = (0..nf as u8).flat_map(|f| (0..4u8).map(move |k| (f, k))).map(|(f, k)| {
        let mut v = vec![f, k];
        v.extend(vmodel::tape::fill(seed ^ (0xC06 + ((f as u64) << 8) + k as u64), 300));
        v
    });
    ctx.run_enum("locality_huge", locality_huge, false, "every parser family x 4 suffixes of 10 MiB and more behind a valid structure", cases.collect::<Vec<_>>().into_iter());
    // every self-delimiting family at the start of a buffer of 4 GiB + 1 MiB (zero pages that are never touched: only address space is
    // needed): lengths that travel through a 32-bit integer somewhere show up here and nowhere else
    let per = ctx.pick(4, 24);
    ctx.run_fn("locality_4gib", false, "every self-delimiting parser family, generated valid structures at the start of zero-filled buffers of 2^32 + k bytes (twelve k from 0 to 2^20)", move |obs| {
        const N: usize = (1usize << 32) + (1 << 20);
        let mut big: Vec<u8> = Vec::new();
        if big.try_reserve_exact(N).is_err() {
            obs.class("address-space-unavailable");
            obs.sample(json!({"skipped": "4 GiB of address space could not be reserved"}));
            return Ok(());
        }
        big = vec![0u8; N];
        let fams = families();
        for (fi, fam) in fams.iter().enumerate() {
            for k in 0..per {
                let tape = vmodel::tape::fill(seed ^ (0xC064 + ((fi as u64) << 8) + k), 300);
                let mut t = Tape::new(&tape);
                let b = (fam.gen)(&mut t).buf;
                match (fam.declared)(&b) {
                    Some(d) if d <= b.len() && !b.is_empty() => {}
                    _ => continue,
                }
                big[..b.len()].copy_from_slice(&b);
                // total lengths of 2^32 + k for small k: what is left of the buffer is congruent to a small number modulo 2^32 at
                // some point inside the structure
                let mut r = Ok(());
                for k in [0usize, 1, 2, 3, 5, 16, 100, 1000, b.len().saturating_sub(1), b.len(), b.len() + 1, 1 << 20] {
                    r = check_pair_on(fam, &b, &big[..(1usize << 32) + k], "4GiB-buffer", obs);
                    if r.is_err() {
                        break;
                    }
                }
                big[..b.len()].iter_mut().for_each(|x| *x = 0);
                r?;
                obs.class(fam.name);
            }
        }
        Ok(())
    });
    // an inner length field raised by a multiple of 256 (two-byte fields) or 65536 (three-byte fields) - the value a comparison made in a
    // narrower integer cannot tell from the true one - with at least that many bytes of valid structures behind the structure
    ctx.run_tape("locality_congruent", locality_congruent, ctx.pick(6_000, 60_000), 400);
    ctx.run_tape("defrag", defrag, ctx.pick(48_000, 200_000), 1200);
    ctx.run_tape("locality_raw", locality_raw, ctx.pick(120_000, 400_000), 96);
}

pub struct OkInfo {
    pub rem_ptr: usize,
    pub rem_len: usize,
    pub fp: String,
    pub slices: Vec<Sl>,
}

pub enum Run {
    Ok(OkInfo),
    Err(String),
}

fn mk<'a, T>(r: IResult<&'a [u8], T>, fp: impl Fn(&T) -> String, vis: impl Fn(&mut Vec<Sl>, &T)) -> Run {
    match r {
        Ok((rem, v)) => {
            let mut slices = Vec::new();
            vis(&mut slices, &v);
            Run::Ok(OkInfo { rem_ptr: rem.as_ptr() as usize, rem_len: rem.len(), fp: fp(&v), slices })
        }
        Err(nom::Err::Incomplete(_)) => Run::Err("Incomplete".into()),
        Err(nom::Err::Error(e)) => Run::Err(format!("Error({:?})", e.code)),
        Err(nom::Err::Failure(e)) => Run::Err(format!("Failure({:?})", e.code)),
    }
}

type PF = fn(&[u8]) -> Run;

fn hdr_fp(h: &TlsRecordHeader) -> String {
    format!("{:#04x}/{:#06x}/{}", h.record_type.0, h.version.0, h.len)
}

fn p_ext(p: fn(&[u8]) -> IResult<&[u8], TlsExtension>, i: &[u8]) -> Run {
    mk(p(i), |e| format!("{:?}", conv::ext(e)), |o, e| visit::ext(o, e))
}

macro_rules! extp {
    ($f:ident) => {
        (stringify!($f), (|i| p_ext($f, i)) as PF)
    };
}

struct Family {
    name: &'static str,
    gen: fn(&mut Tape) -> Enc,
    /// total length of the structure at the start of b, when b contains the fields that declare it
    declared: fn(&[u8]) -> Option<usize>,
    parsers: Vec<(&'static str, PF)>,
}

fn be(b: &[u8], off: usize, w: usize) -> Option<usize> {
    b.get(off..off + w).map(|s| get_be(s) as usize)
}

fn walk(b: &[u8], mut off: usize, widths: &[usize]) -> Option<usize> {
    for &w in widths {
        let l = be(b, off, w)?;
        off += w + l;
        if off > b.len() {
            // the field that declares the end is present; the structure's end is beyond b
            return Some(off + widths.len() * 0);
        }
    }
    Some(off)
}

fn families() -> Vec<Family> {
    vec![
        Family {
            name: "tls-record",
            gen: |t| {
                let mut e = Enc::new();
                if t.chance(200) {
                    gen_record(t).encode(&mut e);
                } else {
                    e.u8(if t.bool() { t.pick(&[0x14u8, 0x15, 0x16, 0x17, 0x18]) } else { t.u8() });
                    e.u16(t.u16b());
                    let d = t.small_blob(60);
                    e.vec(2, "rec.len", &d);
                }
                e
            },
            declared: |b| be(b, 3, 2).map(|l| 5 + l),
            parsers: vec![
                ("parse_tls_plaintext", |i| mk(parse_tls_plaintext(i), |p| format!("{}{:?}", hdr_fp(&p.hdr), conv::msgs(&p.msg)), |o, p| visit::msgs(o, &p.msg))),
                ("parse_tls_encrypted", |i| mk(parse_tls_encrypted(i), |p| format!("{}{:?}", hdr_fp(&p.hdr), p.msg.blob), |o, p| o.push((p.msg.blob.as_ptr() as usize, p.msg.blob.len())))),
                ("parse_tls_raw_record", |i| mk(parse_tls_raw_record(i), |p| format!("{}{:?}", hdr_fp(&p.hdr), p.data), |o, p| o.push((p.data.as_ptr() as usize, p.data.len())))),
                ("parse_tls_record_header", |i| mk(parse_tls_record_header(i), hdr_fp, |_, _| {})),
            ],
        },
        Family {
            name: "dtls-record",
            gen: |t| {
                let mut e = Enc::new();
                gen_dtls_record(t).encode(&mut e);
                e
            },
            declared: |b| be(b, 11, 2).map(|l| 13 + l),
            parsers: vec![
                ("parse_dtls_plaintext_record", |i| {
                    mk(
                        parse_dtls_plaintext_record(i),
                        |p| format!("{:?}{:?}", p.header, p.messages.iter().map(conv::dtls_msg).collect::<Vec<_>>()),
                        |o, p| p.messages.iter().for_each(|m| visit::dtls_msg(o, m)),
                    )
                }),
                ("parse_dtls_record_header", |i| mk(parse_dtls_record_header(i), |h| format!("{:?}", h), |_, _| {})),
            ],
        },
        Family {
            name: "tls-handshake",
            gen: |t| {
                let mut e = Enc::new();
                gen_hs(t, 400).encode(&mut e);
                e
            },
            declared: |b| be(b, 1, 3).map(|l| 4 + l),
            parsers: vec![("parse_tls_message_handshake", |i| mk(parse_tls_message_handshake(i), |m| format!("{:?}", conv::msg(m)), |o, m| visit::msg(o, m)))],
        },
        Family {
            name: "dtls-handshake",
            gen: |t| {
                let mut e = Enc::new();
                gen_dtls_hs(t, 400).encode(&mut e);
                e
            },
            declared: |b| be(b, 9, 3).map(|l| 12 + l),
            parsers: vec![("parse_dtls_message_handshake", |i| mk(parse_dtls_message_handshake(i), |m| format!("{:?}", conv::dtls_msg(m)), |o, m| visit::dtls_msg(o, m)))],
        },
        Family {
            name: "extension",
            gen: |t| {
                let mut e = Enc::new();
                gen_ext(t, 300).encode(&mut e);
                e
            },
            declared: |b| be(b, 2, 2).map(|l| 4 + l),
            parsers: vec![
                extp!(parse_tls_extension),
                extp!(parse_tls_client_hello_extension),
                extp!(parse_tls_server_hello_extension),
                extp!(parse_tls_extension_unknown),
                extp!(parse_tls_extension_sni),
                extp!(parse_tls_extension_max_fragment_length),
                extp!(parse_tls_extension_status_request),
                extp!(parse_tls_extension_elliptic_curves),
                extp!(parse_tls_extension_ec_point_formats),
                extp!(parse_tls_extension_signature_algorithms),
                extp!(parse_tls_extension_heartbeat),
                extp!(parse_tls_extension_encrypt_then_mac),
                extp!(parse_tls_extension_extended_master_secret),
                extp!(parse_tls_extension_session_ticket),
                extp!(parse_tls_extension_key_share),
                extp!(parse_tls_extension_pre_shared_key),
                extp!(parse_tls_extension_early_data),
                extp!(parse_tls_extension_supported_versions),
                extp!(parse_tls_extension_cookie),
                extp!(parse_tls_extension_psk_key_exchange_modes),
            ],
        },
        Family {
            name: "sct",
            gen: |t| {
                let mut e = Enc::new();
                gen_sct(t, 300).encode(&mut e);
                e
            },
            declared: |b| be(b, 0, 2).map(|l| 2 + l),
            parsers: vec![("parse_ct_signed_certificate_timestamp", |i| mk(parse_ct_signed_certificate_timestamp(i), |s| format!("{:?}", conv::sct(s)), |o, s| visit::sct(o, s)))],
        },
        Family {
            name: "sct-list",
            gen: |t| encode_sct_list(&gen_sct_list(t)),
            declared: |b| be(b, 0, 2).map(|l| 2 + l),
            parsers: vec![(
                "parse_ct_signed_certificate_timestamp_list",
                |i| mk(parse_ct_signed_certificate_timestamp_list(i), |l| format!("{:?}", l.iter().map(conv::sct).collect::<Vec<_>>()), |o, l| l.iter().for_each(|s| visit::sct(o, s))),
            )],
        },
        Family {
            name: "dh-params",
            gen: |t| {
                let mut e = Enc::new();
                let d = MDh { p: t.small_blob(300), g: t.small_blob(8), ys: t.small_blob(300) };
                d.encode(&mut e);
                e
            },
            declared: |b| walk(b, 0, &[2, 2, 2]),
            parsers: vec![("parse_dh_params", |i| mk(parse_dh_params(i), |d| format!("{:?}", conv::dh(d)), |o, d| visit::dh(o, d)))],
        },
        Family {
            name: "ecdh-params",
            gen: |t| {
                let mut e = Enc::new();
                gen_ecdh(t).encode(&mut e);
                if t.chance(40) && !e.buf.is_empty() {
                    e.buf[0] = t.u8();
                }
                e
            },
            declared: |b| match b.first()? {
                3 => walk(b, 3, &[1]),
                1 => walk(b, 1, &[1, 1, 1, 1, 1, 1, 1]),
                _ => None,
            },
            parsers: vec![("parse_ecdh_params", |i| mk(parse_ecdh_params(i), |p| format!("{:?}", conv::ecdh(p)), |o, p| visit::ecdh(o, p)))],
        },
        Family {
            name: "ec-params",
            gen: |t| {
                let mut e = Enc::new();
                gen_ec_params(t).encode(&mut e);
                e
            },
            declared: |b| match b.first()? {
                3 => {
                    if b.len() >= 3 {
                        Some(3)
                    } else {
                        None
                    }
                }
                1 => walk(b, 1, &[1, 1, 1, 1, 1, 1]),
                _ => None,
            },
            parsers: vec![("parse_ec_parameters", |i| mk(parse_ec_parameters(i), |p| format!("{:?}", conv::ec_params(p)), |o, p| visit::ec_params(o, p)))],
        },
        Family {
            name: "ec-point",
            gen: |t| {
                let mut e = Enc::new();
                let d = t.blob(255);
                e.vec(1, "point", &d);
                e
            },
            declared: |b| be(b, 0, 1).map(|l| 1 + l),
            parsers: vec![("ECPoint::parse", |i| mk(ECPoint::parse(i), |p| format!("{:?}", p.point), |o, p| o.push((p.point.as_ptr() as usize, p.point.len()))))],
        },
        Family {
            name: "digitally-signed",
            gen: |t| {
                let mut e = Enc::new();
                MSigned { alg: Some((t.u8(), t.u8())), data: t.small_blob(300) }.encode(&mut e);
                e
            },
            declared: |b| be(b, 2, 2).map(|l| 4 + l),
            parsers: vec![("parse_digitally_signed", |i| mk(parse_digitally_signed(i), |s| format!("{:?}", conv::signed(s)), |o, s| visit::signed(o, s)))],
        },
        Family {
            name: "digitally-signed-old",
            gen: |t| {
                let mut e = Enc::new();
                MSigned { alg: None, data: t.small_blob(300) }.encode(&mut e);
                e
            },
            declared: |b| be(b, 0, 2).map(|l| 2 + l),
            parsers: vec![("parse_digitally_signed_old", |i| mk(parse_digitally_signed_old(i), |s| format!("{:?}", conv::signed(s)), |o, s| visit::signed(o, s)))],
        },
        Family {
            // SSLv2-compatible ClientHello bytes (15-bit record length): whatever the single-record parser makes of them, it is decided by the
            // record alone; once the declared record is present, bytes behind it change neither value nor outcome. (The multi-record parser is
            // not a locality subject: its value legitimately grows with every further record - a first version listed it here and the
            // libFuzzer campaign on raw bytes promptly produced valid records followed by valid records.)
            name: "sslv2-hello",
            gen: |t| {
                let mut e = Enc::new();
                e.bytes(&gen_sslv2_hello(t).0);
                e
            },
            declared: |b| if b.len() >= 2 && b[0] & 0x80 != 0 { Some(2 + (((b[0] & 0x7f) as usize) << 8 | b[1] as usize)) } else { None },
            parsers: vec![
                ("parse_tls_plaintext", |i| mk(parse_tls_plaintext(i), |p| format!("{:?} {:?}", hdr_fp(&p.hdr), conv::msgs(&p.msg)), |o, p| p.msg.iter().for_each(|m| visit::msg(o, m)))),
            ],
        },
        Family {
            // handshake bodies that delimit themselves, through their public body parsers
            name: "certificate-body",
            gen: |t| {
                let mut e = Enc::new();
                gen_hs_kind(t, 7, 300).encode_body(&mut e);
                e
            },
            declared: |b| be(b, 0, 3).map(|l| 3 + l),
            parsers: vec![("parse_tls_handshake_msg_certificate", |i| mk(parse_tls_handshake_msg_certificate(i), |m| format!("{:?}", conv::hs(m)), |o, m| visit::hs(o, m)))],
        },
        Family {
            name: "certificate-status-body",
            gen: |t| {
                let mut e = Enc::new();
                gen_hs_kind(t, 14, 300).encode_body(&mut e);
                e
            },
            declared: |b| be(b, 1, 3).map(|l| 4 + l),
            parsers: vec![("parse_tls_handshake_msg_certificatestatus", |i| mk(parse_tls_handshake_msg_certificatestatus(i), |m| format!("{:?}", conv::hs(m)), |o, m| visit::hs(o, m)))],
        },
        Family {
            // key-exchange content followed by a signature, through the composing parser, with the caller's `ext` flag both ways.
            // The signature is written in either form whatever the flag (a peer may send the other form), and half of the time its
            // first bytes are shaped so that the *other* reading declares a length close to what is available: a parser that picks
            // the reading by looking at how many bytes follow shows up as a value that changes with the suffix.
            name: "content-and-signature",
            gen: |t| {
                let mut e = Enc::new();
                if t.bool() {
                    MDh { p: t.small_blob(40), g: t.small_blob(4), ys: t.small_blob(40) }.encode(&mut e);
                } else {
                    gen_ecdh(t).encode(&mut e);
                }
                let mut data = t.small_blob(120);
                let with_alg = t.bool();
                if t.bool() && data.len() >= 2 {
                    // legacy form read as hash/sign + length: the length is data[0..2]; new form read as legacy: the length is (hash, sign)
                    let rest = data.len() - 2;
                    let v = (rest + t.below(90)).saturating_sub(t.below(3)) as u16;
                    data[0] = (v >> 8) as u8;
                    data[1] = v as u8;
                }
                let alg = if with_alg {
                    let l = data.len() + 2;
                    Some(if t.bool() { (t.u8(), t.u8()) } else { (((l + t.below(90)) >> 8) as u8, (l + t.below(90)) as u8) })
                } else {
                    None
                };
                MSigned { alg, data }.encode(&mut e);
                e
            },
            declared: |_| None,
            parsers: vec![
                ("parse_content_and_signature(dh,ext)", |i| mk(parse_content_and_signature(i, parse_dh_params, true), |(d, s)| format!("{:?} {:?}", conv::dh(d), conv::signed(s)), |o, (d, s)| { visit::dh(o, d); visit::signed(o, s) })),
                ("parse_content_and_signature(dh,legacy)", |i| mk(parse_content_and_signature(i, parse_dh_params, false), |(d, s)| format!("{:?} {:?}", conv::dh(d), conv::signed(s)), |o, (d, s)| { visit::dh(o, d); visit::signed(o, s) })),
                ("parse_content_and_signature(ecdh,ext)", |i| mk(parse_content_and_signature(i, parse_ecdh_params, true), |(d, s)| format!("{:?} {:?}", conv::ecdh(d), conv::signed(s)), |o, (d, s)| { visit::ecdh(o, d); visit::signed(o, s) })),
                ("parse_content_and_signature(ecdh,legacy)", |i| mk(parse_content_and_signature(i, parse_ecdh_params, false), |(d, s)| format!("{:?} {:?}", conv::ecdh(d), conv::signed(s)), |o, (d, s)| { visit::ecdh(o, d); visit::signed(o, s) })),
            ],
        },
    ]
}

pub fn check_slices(what: &str, input: &[u8], consumed: usize, slices: &[Sl]) -> R {
    let base = input.as_ptr() as usize;
    for &(p, l) in slices {
        if l == 0 {
            continue;
        }
        ensure!(
            p >= base && p + l <= base + consumed,
            format!("C06:{}:slice-outside-consumed-input", what),
            "{}: a returned {}-byte slice at offset {} is not inside the consumed part [0, {}) of the caller's {}-byte buffer (copied, or read beyond the structure)",
            what, l, (p as isize) - (base as isize), consumed, input.len()
        );
    }
    Ok(())
}

fn locality(t: &mut Tape, obs: &mut Obs) -> R {
    let fams = families();
    let fam = &fams[t.below(fams.len())];
    let e = (fam.gen)(t);
    let mut b = e.buf.clone();
    let form = t.weighted(&[5, 3, 2, 1]);
    match form {
        0 => {}
        1 => {
            for _ in 0..1 + t.below(2) {
                if e.lens.is_empty() {
                    break;
                }
                let lf = &e.lens[t.below(e.lens.len())];
                let max = (1u64 << (8 * lf.width)) - 1;
                let v = match t.below(6) {
                    0 => 0,
                    1 => 1,
                    2 => (lf.value as u64).saturating_sub(1),
                    3 => (lf.value as u64 + 1).min(max),
                    4 => max,
                    _ => t.u32() as u64 & max,
                };
                set_be(&mut b[lf.off..lf.off + lf.width], v);
            }
        }
        2 => {
            let c = t.below(b.len() + 1);
            b.truncate(c);
        }
        _ => b = t.small_blob(40),
    }
    let nx = if t.chance(250) { 6 } else { 7 };
    let huge = t.chance(1) && t.chance(40);
    let x: Vec<u8> = match if huge { 7 } else { t.below(nx) } {
        7 => {
            // everything a stream reader may have buffered behind the structure: 10 MiB and more (a limit meant for some internal
            // buffer must not be applied to the caller's slice)
            let n = t.pick(&[10 * 1024 * 1024usize - 9, 10 * 1024 * 1024, 10 * 1024 * 1024 + 1, 16 * 1024 * 1024 + 3]);
            vec![0x5a; n]
        }
        6 => {
            // a suffix of 64 KiB and more (sizes around multiples of 2^16): availability computed in a narrow integer shows here
            let n = t.pick(&[65534usize, 65535, 65536, 65537, 70000, 131071, 131072]);
            vec![0xa5; n]
        }
        0 => vec![],
        1 => t.small_blob(64),
        2 => b.clone(),
        3 => (fam.gen)(t).buf,
        4 => vec![0xff; 1 + t.below(40)],
        _ => vec![0x00; 1 + t.below(40)],
    };
    check_pair(fam, &b, &x, ["valid", "corrupt-len", "truncated", "random"][form], obs)?;
    // the structure exactly as long as it declares itself, against the same structure followed by everything else:
    // whatever lies beyond the declared length must not influence value or outcome
    if let Some(d) = (fam.declared)(&b) {
        if d < b.len() {
            let mut rest = b[d..].to_vec();
            rest.extend_from_slice(&x);
            check_pair(fam, &b[..d], &rest, "declared-prefix", obs)?;
        }
    }
    Ok(())
}

fn locality_congruent(t: &mut Tape, obs: &mut Obs) -> R {
    let fams = families();
    let fam = &fams[t.below(fams.len())];
    let e = (fam.gen)(t);
    let wide: Vec<&vmodel::wire::LenField> = e.lens.iter().filter(|l| l.width >= 2 && l.off + l.width <= e.buf.len()).collect();
    if wide.is_empty() || e.buf.len() > 4000 {
        return Ok(());
    }
    let lf = wide[t.below(wide.len())];
    let unit = 1usize << (8 * (lf.width - 1));
    let k = 1 + t.below(2);
    let nv = lf.value + k * unit;
    if nv >= 1usize << (8 * lf.width) {
        return Ok(());
    }
    let mut b = e.buf.clone();
    set_be(&mut b[lf.off..lf.off + lf.width], nv as u64);
    // fields that state the same size twice (a DTLS message's length and fragment_length) are raised together half of the time
    if t.bool() {
        let blen = b.len();
        for o in e.lens.iter().filter(|o| o.width == lf.width && o.value == lf.value && o.off != lf.off && o.off + o.width <= blen) {
            set_be(&mut b[o.off..o.off + o.width], nv as u64);
            obs.class("twin-fields-raised-together");
        }
    }
    // behind it: copies of the unmodified structure (valid structures of the same kind), enough of them to hold the raised length
    let mut x: Vec<u8> = Vec::with_capacity(k * unit + 2 * e.buf.len() + 64);
    while x.len() < k * unit + e.buf.len() + 16 {
        x.extend_from_slice(&e.buf);
    }
    obs.class(&format!("{}:width={}", fam.name, lf.width));
    obs.sample_class(&format!("{}:{}", fam.name, lf.label), || json!({"family": fam.name, "field": lf.label, "true_value": lf.value, "written_value": nv, "suffix_bytes": x.len(), "b": hex_short(&b)}));
    check_pair(fam, &b, &x, "congruent-length", obs)?;
    // and the structure with its true lengths in front of the same suffix
    check_pair(fam, &e.buf, &x, "long-valid-suffix", obs)
}

/// parameter tape: [family, size index, generator tape...]
fn locality_huge(t: &mut Tape, obs: &mut Obs) -> R {
    let fams = families();
    let fam = &fams[t.u8() as usize % fams.len()];
    let n = [10 * 1024 * 1024usize - 9, 10 * 1024 * 1024, 10 * 1024 * 1024 + 1, 16 * 1024 * 1024 + 3][t.u8() as usize % 4];
    let b = (fam.gen)(t).buf;
    let x = vec![0x5au8; n];
    check_pair(fam, &b, &x, "huge-suffix", obs)
}

/// the tape is raw: [family selector, split selector, bytes...]; b = first part of the bytes, x = the rest
fn locality_raw(t: &mut Tape, obs: &mut Obs) -> R {
    let fams = families();
    let fam = &fams[t.u8() as usize % fams.len()];
    let sel = t.u8() as usize;
    let mut rest = Vec::new();
    while !t.exhausted() {
        rest.push(t.u8());
    }
    let k = if rest.is_empty() { 0 } else { (sel * (rest.len() + 1)) >> 8 };
    let (b, x) = rest.split_at(k.min(rest.len()));
    check_pair(fam, b, x, "raw", obs)
}

/// the locality / provenance relation for every parser of one family on (b, b ++ x)
fn check_pair(fam: &Family, b: &[u8], x: &[u8], form: &str, obs: &mut Obs) -> R {
    let b = b.to_vec();
    let mut bx = b.clone();
    bx.extend_from_slice(x);
    check_pair_on(fam, &b, &bx, form, obs)
}

/// the same on buffers the caller owns: `bx` starts with the bytes of `b` (a separate buffer) and goes on
fn check_pair_on(fam: &Family, b: &[u8], bx: &[u8], form: &str, obs: &mut Obs) -> R {
    let x = &bx[b.len()..];
    let declared = (fam.declared)(b);
    for (pn, p) in &fam.parsers {
        obs.evals_add(1);
        let (rb, rbx) = guard(pn, || (p(b), p(bx)))?;
        match (&rb, &rbx) {
            (Run::Ok(a), _) => {
                let consumed = b.len() - a.rem_len;
                // (3) remainder is a suffix at input + consumed
                ensure!(a.rem_len <= b.len() && (a.rem_len == 0 || a.rem_ptr == b.as_ptr() as usize + consumed), format!("C06:{}:remainder-not-suffix", pn), "{}: remainder of {} bytes does not start at input+{}", pn, a.rem_len, consumed);
                // (4) provenance
                check_slices(pn, &b, consumed, &a.slices)?;
                if let Some(d) = declared {
                    ensure!(consumed <= d, format!("C06:{}:consumed-beyond-declared-length", pn), "{}: consumed {} bytes, the structure declares {} ({})", pn, consumed, d, hex_short(&b));
                }
                // (1) appending bytes changes nothing
                match &rbx {
                    Run::Ok(c) => {
                        ensure!(c.fp == a.fp, format!("C06:{}:value-changed-by-suffix", pn), "{}: appending {} bytes changed the parsed value: {} vs {} (b = {})", pn, x.len(), trunc(&a.fp), trunc(&c.fp), hex_short(&b));
                        ensure!(c.rem_len == a.rem_len + x.len() && (c.rem_len == 0 || c.rem_ptr == bx.as_ptr() as usize + consumed), format!("C06:{}:remainder-not-extended", pn), "{}: with {} bytes appended the remainder must be {} bytes at offset {}, got {} bytes at offset {}", pn, x.len(), a.rem_len + x.len(), consumed, c.rem_len, (c.rem_ptr as isize) - (bx.as_ptr() as isize));
                        check_slices(pn, &bx, consumed, &c.slices)?;
                    }
                    Run::Err(e2) => return fail(format!("C06:{}:suffix-breaks-parse", pn), format!("{}: parses b ({} bytes) but fails with {} once {} bytes are appended: b = {}", pn, b.len(), e2, x.len(), hex_short(&b))),
                }
                if !x.is_empty() && a.slices.iter().any(|s| s.1 > 0) {
                    obs.nontrivial(fnv64(&b) ^ fnv64(pn.as_bytes()));
                }
                obs.sample_class(&format!("{}:{}:ok", fam.name, form), || json!({"parser": pn, "b": hex_short(&b), "suffix_bytes": x.len(), "slices": a.slices.iter().filter(|s| s.1 > 0).count()}));
            }
            (Run::Err(e1), Run::Ok(c)) => {
                // (2) only allowed when b did not contain the declared length
                if let Some(d) = declared {
                    ensure!(b.len() < d, format!("C06:{}:suffix-turns-error-into-value", pn), "{}: b holds the structure's declared length ({} of {} bytes) and fails with {}, but parses once {} bytes are appended (consumed {}): b = {}", pn, d, b.len(), e1, x.len(), bx.len() - c.rem_len, hex_short(&b));
                }
                let consumed = bx.len() - c.rem_len;
                check_slices(pn, &bx, consumed, &c.slices)?;
                obs.class(&format!("{}:incomplete-then-ok", fam.name));
            }
            (Run::Err(_), Run::Err(_)) => {
                obs.class(&format!("{}:err", fam.name));
            }
        }
    }
    Ok(())
}

/// provenance of what the defragmenter returns
fn defrag(t: &mut Tape, obs: &mut Obs) -> R {
    let ops = gen_ops(t, 40);
    let mut p = TlsRecordsParser::default();
    let mut trace = String::new();
    let mut seen = 0;
    for op in &ops {
        let in_progress = p.defrag_in_progress();
        let rec = match op {
            Op::Reset => {
                p.reset();
                continue;
            }
            Op::Parse(r) | Op::NoCopy(r) => r,
        };
        let nocopy = matches!(op, Op::NoCopy(_));
        let res: Option<(usize, usize, Vec<Sl>)> = guard("TlsRecordsParser", || {
            let r = if nocopy { p.parse_record_nocopy(rec.raw()) } else { p.parse_record(rec.raw()) };
            match r {
                Ok((rem, v)) => {
                    let mut sl = Vec::new();
                    visit::msgs(&mut sl, &v);
                    Some((rem.as_ptr() as usize, rem.len(), sl))
                }
                Err(_) => None,
            }
        })?;
        if let Some((rp, rl, mut sl)) = res {
            sl.push((rp, rl));
            let (what, region): (&str, &[u8]) = if nocopy || !in_progress { ("caller's record", &rec.data) } else { ("defragmentation buffer", p.verif_defrag_buffer()) };
            let base = region.as_ptr() as usize;
            for &(a, l) in &sl {
                if l == 0 {
                    continue;
                }
                ensure!(a >= base && a + l <= base + region.len(), format!("C06:defrag:{}:slice-outside", if nocopy { "nocopy" } else if in_progress { "defragmented" } else { "fast-path" }),
                    "{} after [{}]: a returned {}-byte slice is not inside the {} ({} bytes): offset {}", op_label(op), trace, l, what, region.len(), (a as isize) - (base as isize));
                seen += 1;
            }
            obs.class(if nocopy { "ok:nocopy" } else if in_progress { "ok:defragmented" } else { "ok:fast-path" });
        }
        if trace.len() < 300 {
            trace.push_str(&op_label(op));
            trace.push(' ');
        }
    }
    if seen > 0 {
        obs.nontrivial(fnv64(trace.as_bytes()) ^ seen as u64);
        obs.sample(json!({"history": trunc(&trace), "non_empty_slices_checked": seen}));
    }
    Ok(())
}
