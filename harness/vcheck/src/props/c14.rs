//! C14 Signed Certificate Timestamp lists decode per RFC 6962.

use super::PropDef;
use crate::conv;
use crate::core::*;
use serde_json::json;
use tls_parser::*;
use vmodel::model::*;
use vmodel::tape::Tape;
use vmodel::wire::{fnv64, hex_short, set_be};

pub const DEF: PropDef = PropDef {
    id: "C14",
    title: "Signed Certificate Timestamp lists decode per RFC 6962",
    rule: "lists = lists of 0..8 model SCTs (version any, 32-byte id, timestamps over the u64 range weighted to 0, 2^32, 2^63, max, extensions and signature 0..65535 within the \
           enclosing u16, all algorithm pairs) with trailing bytes: list parser returns exactly the SCTs in order, the single-SCT parser consumes exactly one entry; \
           overlong = one entry's length (or the list length) raised beyond what encloses it: that entry and everything after it are absent (or an error), a list longer than \
           the input never yields a value; every strict prefix of a list encoding is rejected. Non-trivial = a list with >= 1 SCT or a corruption; distinct by hash of the bytes.",
    assumptions: &["model encoder follows RFC 6962 3.2 / 3.3"],
    run,
};

pub const SUBS: &[SubDef] = &[SubDef { prop: "C14", name: "lists", oracle: lists }, SubDef { prop: "C14", name: "overlong", oracle: overlong }];

fn run(ctx: &Ctx) {
    ctx.run_tape("lists", lists, ctx.pick(120_000, 400_000), 400);
    ctx.run_tape("overlong", overlong, ctx.pick(120_000, 400_000), 400);
    // the largest entries and lists the u16 length fields can state: entry lengths 65531..65535 through the single-SCT parser (such an
    // entry cannot sit in a list: the list's own u16 also counts the entry's two length bytes), list lengths 65531..65535 through the list parser
    ctx.run_fn("max_fill", true, "single entries of 65531..65535 bytes (signature or extensions filling the rest) and lists of exactly 65531..65535 bytes", |obs| {
        for total in 65531usize..=65535 {
            for big_ext in [false, true] {
                obs.evals_add(2);
                // entry content = 1 + 32 + 8 + 2 + ext + 1 + 1 + 2 + sig = 47 + ext + sig
                let (ext, sig) = if big_ext { (total - 47 - 70, 70) } else { (3, total - 47 - 3) };
                let m = MSct { version: 0, id: vec![0x11; 32], timestamp: 0x0123_4567_89ab_cdef, extensions: vec![0xe1; ext], hash: 4, sign: 3, alg_present: true, signature: vec![0x5a; sig] };
                let mut e = vmodel::wire::Enc::new();
                m.encode(&mut e);
                let mut buf = e.buf.clone();
                ensure!(buf.len() == 2 + total, "harness:c14-max-fill", "entry encodes to {} bytes, wanted {}", buf.len(), 2 + total);
                buf.extend_from_slice(&[0xde, 0xad]);
                let r = guard("parse_ct_signed_certificate_timestamp", || match parse_ct_signed_certificate_timestamp(&buf) {
                    Ok((rem, s)) => Ok((rem.len(), conv::sct(&s))),
                    Err(e) => Err(format!("{:?}", e.map(|x| x.code))),
                })?;
                match r {
                    Ok((rl, got)) => ensure!(got == m && rl == 2, "C14:max-fill:single-value", "an entry of {} bytes: decoded value differs or {} bytes left (expected 2)", total, rl),
                    Err(e) => return fail("C14:max-fill:single-rejected", format!("a well-formed entry whose length field is {} (extensions {} bytes, signature {} bytes) was rejected by the single-SCT parser with {}", total, ext, sig, e)),
                }
                // a list of exactly `total` bytes: one entry of total - 2 bytes
                let (ext, sig) = if big_ext { (total - 2 - 47 - 70, 70) } else { (3, total - 2 - 47 - 3) };
                let l = vec![MSct { version: 0, id: vec![0x22; 32], timestamp: 7, extensions: vec![0xe2; ext], hash: 8, sign: 7, alg_present: true, signature: vec![0xa5; sig] }];
                let enc = encode_sct_list(&l).buf;
                ensure!(enc.len() == 2 + total, "harness:c14-max-fill", "list encodes to {} bytes, wanted {}", enc.len(), 2 + total);
                match call_list(&enc)? {
                    Ok((_, rl, v)) => ensure!(v == l && rl == 0, "C14:max-fill:list-value", "a list of {} bytes: decoded {} SCT(s), {} bytes left", total, v.len(), rl),
                    Err(e) => return fail("C14:max-fill:list-rejected", format!("a well-formed list whose length field is {} was rejected with {}", total, e)),
                }
                obs.nontrivial(total as u64 * 2 + big_ext as u64);
            }
        }
        obs.sample(json!({"entry_and_list_lengths": "65531..=65535", "filled_by": ["signature", "extensions"]}));
        Ok(())
    });
    // "for every list": whatever the size of the buffer the list sits in. Lists at the start of buffers of 10 MiB +- 1, 16 MiB + 3 and
    // 2^32 + k bytes (zero pages, never touched), through the list parser and the single-SCT parser
    let seed = ctx.seed;
    let per = ctx.pick(6, 40);
    ctx.run_fn("large_buffers", false, "generated lists at the start of zero-filled buffers of 10 MiB - 1 .. 16 MiB + 3 and 2^32 + k bytes", move |obs| {
        const N: usize = (1usize << 32) + (1 << 20);
        let mut big: Vec<u8> = Vec::new();
        let have_4g = big.try_reserve_exact(N).is_ok();
        big = vec![0u8; if have_4g { N } else { 17 << 20 }];
        if !have_4g {
            obs.class("4GiB-address-space-unavailable");
        }
        for k in 0..per {
            let tape = vmodel::tape::fill(seed ^ (0xC14B + k), 400);
            let mut t = Tape::new(&tape);
            let mut l = gen_sct_list(&mut t);
            if l.is_empty() {
                l.push(gen_sct(&mut t, 200));
            }
            let enc = encode_sct_list(&l).buf;
            let mut first = vmodel::wire::Enc::new();
            l[0].encode(&mut first);
            big[..enc.len()].copy_from_slice(&enc);
            let mut totals: Vec<usize> = vec![(10 << 20) - 1, 10 << 20, (10 << 20) + 1, (10 << 20) + 2 + first.buf.len(), (16 << 20) + 3];
            if have_4g {
                totals.extend([1usize << 32, (1 << 32) + 1, (1 << 32) + 2, (1 << 32) + 5, (1 << 32) + 16, (1 << 32) + 100, (1 << 32) + enc.len(), N]);
            }
            let mut res = Ok(());
            for total in totals {
                if total < enc.len() {
                    continue;
                }
                obs.evals_add(2);
                let buf = &big[..total];
                res = (|| {
                    match call_list(buf)? {
                        Ok((off, rl, v)) => {
                            ensure!(v == l, "C14:large-buffers:list-value", "list at the start of a {}-byte buffer: decoded {} SCT(s), expected {}", total, v.len(), l.len());
                            ensure!(rl == total - enc.len() && off == enc.len(), "C14:large-buffers:list-remainder", "list at the start of a {}-byte buffer: remainder {} bytes at {}, expected {} at {}", total, rl, off, total - enc.len(), enc.len());
                        }
                        Err(e) => return fail("C14:large-buffers:list-rejected", format!("a well-formed list of {} SCT(s) ({} bytes) at the start of a {}-byte buffer was rejected with {}", l.len(), enc.len(), total, e)),
                    }
                    let inner = &buf[2..];
                    let r = guard("parse_ct_signed_certificate_timestamp", || match parse_ct_signed_certificate_timestamp(inner) {
                        Ok((rem, s)) => Ok((inner.len() - rem.len(), conv::sct(&s))),
                        Err(e) => Err(format!("{:?}", e.map(|x| x.code))),
                    })?;
                    match r {
                        Ok((used, s)) => ensure!(s == l[0] && used == first.buf.len(), "C14:large-buffers:single-value", "single-SCT parser on a {}-byte buffer: consumed {} bytes (entry is {})", inner.len(), used, first.buf.len()),
                        Err(e) => return fail("C14:large-buffers:single-rejected", format!("single-SCT parser rejected a well-formed {}-byte entry at the start of a {}-byte buffer: {}", first.buf.len(), inner.len(), e)),
                    }
                    Ok(())
                })();
                if res.is_err() {
                    break;
                }
            }
            big[..enc.len()].iter_mut().for_each(|x| *x = 0);
            res?;
            obs.nontrivial(fnv64(&enc));
            obs.sample(json!({"scts": l.len(), "list_bytes": enc.len(), "buffers": if have_4g { "10 MiB-1 .. 2^32+2^20" } else { "10 MiB-1 .. 16 MiB+3" }}));
        }
        Ok(())
    });
}

type Got = Result<(usize, usize, Vec<MSct>), String>;

fn call_list(buf: &[u8]) -> Result<Got, Fail> {
    guard("parse_ct_signed_certificate_timestamp_list", || match parse_ct_signed_certificate_timestamp_list(buf) {
        // (a clone of the decoded list is the list: field by field and in its Debug text)
        Ok((_, v)) if v.clone().iter().map(conv::sct).collect::<Vec<MSct>>() != v.iter().map(conv::sct).collect::<Vec<MSct>>() || (buf.len() <= 600 && format!("{:?}", v.clone()) != format!("{:?}", v)) => Err(format!("<the clone of the decoded list differs from it: {}>", crate::core::trunc(&format!("{:?} vs {:?}", v.clone(), v)))),
        Ok((rem, v)) => Ok(((rem.as_ptr() as usize).wrapping_sub(buf.as_ptr() as usize), rem.len(), v.iter().map(conv::sct).collect())),
        Err(e) => Err(format!("{:?}", e.map(|x| x.code))),
    })
}

fn lists(t: &mut Tape, obs: &mut Obs) -> R {
    let l = gen_sct_list(t);
    let e = encode_sct_list(&l);
    let enc = e.buf;
    let tl = t.small_blob(20);
    let mut buf = enc.clone();
    buf.extend_from_slice(&tl);
    if !l.is_empty() {
        obs.nontrivial(fnv64(&buf));
    }
    obs.class(&format!("scts={}", l.len()));
    obs.sample(json!({"scts": l.len(), "bytes": enc.len(), "first": l.first().map(|s| json!({"version": s.version, "timestamp": s.timestamp, "ext": s.extensions.len(), "sig": s.signature.len(), "alg": [s.hash, s.sign]})), "hex": hex_short(&buf)}));
    match call_list(&buf)? {
        Ok((off, rl, v)) => {
            ensure!(v == l, "C14:lists:value", "decoded {} SCT(s) {} expected {} {}", v.len(), trunc(&format!("{:?}", v)), l.len(), trunc(&format!("{:?}", l)));
            ensure!(rl == tl.len() && (rl == 0 || off == enc.len()), "C14:lists:remainder", "remainder {} bytes at {}, expected {} trailing bytes at {}", rl, off, tl.len(), enc.len());
        }
        Err(e) => return fail("C14:lists:rejected", format!("a well-formed list of {} SCT(s) was rejected with {}: {}", l.len(), e, hex_short(&buf))),
    }
    // the single-SCT parser: exactly one length-prefixed entry
    if let Some(first) = l.first() {
        let inner = &buf[2..];
        let r = guard("parse_ct_signed_certificate_timestamp", || match parse_ct_signed_certificate_timestamp(inner) {
            Ok((rem, s)) => Ok((inner.len() - rem.len(), conv::sct(&s))),
            Err(e) => Err(format!("{:?}", e.map(|x| x.code))),
        })?;
        let mut fe = vmodel::wire::Enc::new();
        first.encode(&mut fe);
        match r {
            Ok((used, s)) => ensure!(s == *first && used == fe.buf.len(), "C14:single:value", "single-SCT parser: consumed {} bytes (entry is {}), value {}", used, fe.buf.len(), trunc(&format!("{:?}", s))),
            Err(e) => return fail("C14:single:rejected", format!("single-SCT parser rejected a well-formed entry: {}", e)),
        }
    }
    // every strict prefix of the list encoding is rejected (sampled)
    for _ in 0..6 {
        let c = t.below(enc.len());
        let r = call_list(&enc[..c])?;
        ensure!(r.is_err(), "C14:lists:prefix-accepted", "a strict prefix ({} of {} bytes) of a list was accepted", c, enc.len());
    }
    Ok(())
}

fn overlong(t: &mut Tape, obs: &mut Obs) -> R {
    let mut l = gen_sct_list(t);
    if l.is_empty() {
        l.push(gen_sct(t, 200));
    }
    let e = encode_sct_list(&l);
    let mut buf = e.buf.clone();
    let tl = t.small_blob(40);
    let entries: Vec<_> = e.lens.iter().filter(|f| f.label == "sct.entry").cloned().collect();
    let list_end = buf.len();
    match t.below(3) {
        0 => {
            // entry k declares more than what remains of the list
            let k = t.below(entries.len());
            let f = &entries[k];
            let remaining = list_end - (f.off + 2);
            if remaining >= 65535 {
                return Ok(());
            }
            let v = match t.below(3) {
                0 => remaining + 1,
                1 => 65535,
                _ => remaining + 1 + t.below(65535 - remaining),
            };
            set_be(&mut buf[f.off..f.off + 2], v as u64);
            buf.extend_from_slice(&tl);
            obs.nontrivial(fnv64(&buf));
            obs.class("entry-exceeds-list");
            obs.sample(json!({"case": "entry-exceeds-list", "entry": k, "declared": v, "remaining_in_list": remaining, "hex": hex_short(&buf)}));
            match call_list(&buf)? {
                Ok((_, _, v2)) => ensure!(v2 == l[..k], "C14:overlong:entry:value", "entry {} declares {} bytes but the list has {} left: expected exactly the {} preceding SCT(s), got {} ({})", k, v, remaining, k, v2.len(), trunc(&format!("{:?}", v2))),
                Err(_) => {}
            }
            // the single-SCT parser on that entry (only the list's bytes available): never a value
            let inner = &buf[f.off..list_end];
            let ok = guard("parse_ct_signed_certificate_timestamp", || parse_ct_signed_certificate_timestamp(inner).is_ok())?;
            ensure!(!ok, "C14:overlong:single-accepted", "single-SCT parser accepted an entry declaring {} bytes with only {} available", v, remaining);
        }
        1 => {
            // list length exceeds the input
            let v = (list_end - 2 + 1 + t.below(2000)).min(65535);
            if v <= list_end - 2 {
                return Ok(());
            }
            set_be(&mut buf[0..2], v as u64);
            obs.nontrivial(fnv64(&buf));
            obs.class("list-exceeds-input");
            obs.sample(json!({"case": "list-exceeds-input", "declared": v, "available": list_end - 2}));
            let r = call_list(&buf)?;
            ensure!(r.is_err(), "C14:overlong:list-accepted", "the list declares {} bytes, the input holds {}: got {:?}", v, list_end - 2, r.map(|x| x.2.len()));
        }
        _ => {
            // list length cut so that entry k crosses the end of the list
            let k = t.below(entries.len());
            let f = &entries[k];
            let start = f.off - 2; // offset inside the list body
            let end = start + 2 + f.value;
            if end - start < 2 {
                return Ok(());
            }
            let new_len = start + t.below(end - start); // strictly inside entry k (or right at its start)
            set_be(&mut buf[0..2], new_len as u64);
            buf.extend_from_slice(&tl);
            obs.nontrivial(fnv64(&buf));
            obs.class("list-ends-inside-entry");
            obs.sample(json!({"case": "list-ends-inside-entry", "entry": k, "list_len": new_len}));
            match call_list(&buf)? {
                Ok((off, _, v2)) => {
                    ensure!(v2 == l[..k], "C14:overlong:cut:value", "the list ends inside entry {}: expected the {} preceding SCT(s), got {}", k, k, v2.len());
                    ensure!(off == 2 + new_len || buf.len() == 2 + new_len, "C14:overlong:cut:remainder", "remainder must start right after the declared list ({}), got offset {}", 2 + new_len, off);
                }
                Err(_) => {}
            }
        }
    }
    Ok(())
}
