//! C16 Multi-record parsers equal repeated single-record parsing.

use super::c01::{corrupt, gen_structured};
use super::PropDef;
use crate::conv;
use crate::core::*;
use serde_json::json;
use tls_parser::*;
use vmodel::model::*;
use vmodel::tape::Tape;
use vmodel::wire::{fnv64, hex_short, Enc};

pub const DEF: PropDef = PropDef {
    id: "C16",
    title: "Multi-record parsers equal repeated single-record parsing",
    rule: "tls_many / dtls_many = 0..8 valid model records followed by nothing / a truncated record / a header declaring more than the cap / garbage / a record of unknown content \
           type / a record with malformed content: the multi-record parser must return exactly what an explicit loop over the single-record parser returns (records compared \
           field by field, remainder pointer-identical), must fail iff the first record fails, and must return all the valid records; alias = tls_parser vs parse_tls_plaintext on \
           byte soup, valid and corrupted structures (values, remainders and errors identical). Non-trivial = a buffer with >= 2 records or a non-empty ending (many), an input \
           with a complete header (alias); distinct by hash of the bytes.",
    assumptions: &["the explicit loop stops at the first call that does not return Ok", "records are compared after conversion to the harness's model types"],
    run,
};

pub const SUBS: &[SubDef] = &[
    SubDef { prop: "C16", name: "tls_many", oracle: tls_many },
    SubDef { prop: "C16", name: "dtls_many", oracle: dtls_many },
    SubDef { prop: "C16", name: "alias", oracle: alias },
    SubDef { prop: "C16", name: "many_raw", oracle: many_raw },
];

fn run(ctx: &Ctx) {
    ctx.run_tape("tls_many", tls_many, ctx.pick(80_000, 400_000), 1500);
    ctx.run_tape("dtls_many", dtls_many, ctx.pick(60_000, 300_000), 1500);
    ctx.run_tape("alias", alias, ctx.pick(100_000, 400_000), 500);
    ctx.run_tape("many_raw", many_raw, ctx.pick(100_000, 400_000), 96);
    // buffers of more than 10 MiB of valid records (a capture file, a long-lived connection's buffer): 700 records of 2^14 bytes, then two
    // small ones - no byte budget, offset or count limit may cut the list short
    ctx.run_fn("huge_buffers", true, "11 MiB of valid records (700 x 16 KiB, then a ServerHelloDone and an alert) through tls_parser_many and parse_dtls_plaintext_records, against the single-record loop", |obs| {
        // TLS
        let mut buf: Vec<u8> = Vec::with_capacity(12 << 20);
        for k in 0..700usize {
            buf.extend_from_slice(&[0x17, 3, 3, 0x40, 0x00]);
            buf.extend(std::iter::repeat(k as u8).take(16384));
        }
        buf.extend(MRecord { ctype: 0x16, version: 0x0303, msgs: vec![MMsg::Hs(MHs::ServerDone(vec![]))], padding: vec![] }.to_bytes());
        buf.extend(MRecord { ctype: 0x15, version: 0x0303, msgs: vec![MMsg::Alert(1, 0)], padding: vec![] }.to_bytes());
        let want = guard("parse_tls_plaintext loop", || {
            let (mut off, mut hdrs) = (0usize, Vec::new());
            while off < buf.len() {
                match parse_tls_plaintext(&buf[off..]) {
                    Ok((rem, p)) => {
                        hdrs.push((p.hdr.record_type.0, p.hdr.len, p.msg.len()));
                        off = buf.len() - rem.len();
                    }
                    Err(_) => break,
                }
            }
            (off, hdrs)
        })?;
        ensure!(want.1.len() == 702 && want.0 == buf.len(), "harness:c16-huge", "the loop decoded {} records", want.1.len());
        let got = guard("tls_parser_many", || tls_parser_many(&buf).map(|(rem, v)| (buf.len() - rem.len(), v.iter().map(|p| (p.hdr.record_type.0, p.hdr.len, p.msg.len())).collect::<Vec<_>>())).map_err(|e| format!("{:?}", e.map(|x| x.code))))?;
        obs.evals_add(1);
        match got {
            Ok((off, v)) => ensure!(v == want.1 && off == want.0, "C16:huge:tls", "tls_parser_many on {} bytes of valid records returned {} record(s) and consumed {} bytes; repeated single-record parsing gives {} and {}", buf.len(), v.len(), off, want.1.len(), want.0),
            Err(e) => return fail("C16:huge:tls", format!("tls_parser_many on {} bytes of valid records failed with {}", buf.len(), e)),
        }
        obs.nontrivial(buf.len() as u64);
        // DTLS: 700 handshake fragments of 16372 bytes (record length 16384), then a ChangeCipherSpec and an alert record
        let mut dbuf: Vec<u8> = Vec::with_capacity(12 << 20);
        for k in 0..700usize {
            let frag = MDtlsHs { msg_type: 11, length: 0xff_0000, message_seq: 1, fragment_offset: (k * 16372) as u32, fragment_length: 16372, body: MDtlsBody::Fragment(vec![k as u8; 16372]) };
            dbuf.extend(MDtlsRecord { ctype: 0x16, version: 0xfefd, epoch: (k / 300) as u16, seq: k as u64, msgs: vec![MDtlsMsg::Hs(frag)] }.to_bytes());
        }
        dbuf.extend(MDtlsRecord { ctype: 0x14, version: 0xfefd, epoch: 2, seq: 700, msgs: vec![MDtlsMsg::Ccs] }.to_bytes());
        dbuf.extend(MDtlsRecord { ctype: 0x15, version: 0xfefd, epoch: 3, seq: 0, msgs: vec![MDtlsMsg::Alert(1, 0)] }.to_bytes());
        let want = guard("parse_dtls_plaintext_record loop", || {
            let (mut off, mut hdrs) = (0usize, Vec::new());
            while off < dbuf.len() {
                match parse_dtls_plaintext_record(&dbuf[off..]) {
                    Ok((rem, p)) => {
                        hdrs.push((p.header.content_type.0, p.header.epoch, p.header.sequence_number, p.header.length, p.messages.len()));
                        off = dbuf.len() - rem.len();
                    }
                    Err(_) => break,
                }
            }
            (off, hdrs)
        })?;
        ensure!(want.1.len() == 702 && want.0 == dbuf.len(), "harness:c16-huge", "the DTLS loop decoded {} records", want.1.len());
        let got = guard("parse_dtls_plaintext_records", || parse_dtls_plaintext_records(&dbuf).map(|(rem, v)| (dbuf.len() - rem.len(), v.iter().map(|p| (p.header.content_type.0, p.header.epoch, p.header.sequence_number, p.header.length, p.messages.len())).collect::<Vec<_>>())).map_err(|e| format!("{:?}", e.map(|x| x.code))))?;
        obs.evals_add(1);
        match got {
            Ok((off, v)) => ensure!(v == want.1 && off == want.0, "C16:huge:dtls", "parse_dtls_plaintext_records on {} bytes of valid records returned {} record(s) and consumed {} bytes; repeated single-record parsing gives {} and {}", dbuf.len(), v.len(), off, want.1.len(), want.0),
            Err(e) => return fail("C16:huge:dtls", format!("parse_dtls_plaintext_records on {} bytes of valid records failed with {}", dbuf.len(), e)),
        }
        obs.nontrivial(dbuf.len() as u64);
        obs.sample(json!({"tls_bytes": buf.len(), "dtls_bytes": dbuf.len(), "records_each": 702}));
        Ok(())
    });
}

fn ending(t: &mut Tape, dtls: bool, valid: &[u8]) -> (&'static str, Vec<u8>) {
    let hdr = if dtls { 13 } else { 5 };
    match t.below(10) {
        0 => ("nothing", vec![]),
        8 => {
            // a complete, well-framed record whose content is wrong in ONE place deep inside: a valid record with one payload byte changed
            // (length fields inside messages among them)
            let mut b = valid.to_vec();
            if b.len() > hdr {
                let k = hdr + t.below(b.len() - hdr);
                b[k] ^= t.pick(&[1u8, 1, 2, 0x80, 0xff]);
            }
            ("one-byte-inside", b)
        }
        9 => {
            // a complete handshake record holding a ClientHello that is valid up to one inner length field: cipher_suites length odd (but
            // fitting), session id length 33, compression length 0 - decoders may class these differently from cut-short input
            let ciphers: Vec<u16> = (0..1 + t.below(5)).map(|_| t.pick(&[0x002fu16, 0xc02f, 0x1301, 0x00ff, 0x0a0a])).collect();
            let sid = if t.bool() { None } else { Some(t.bytes(32)) };
            let rec = MRecord { ctype: 0x16, version: 0x0301, msgs: vec![MMsg::Hs(MHs::ClientHello { version: 0x0303, random: t.bytes(32), sid, ciphers, comp: vec![0], ext: if t.bool() { None } else { Some(vec![0, 23, 0, 0]) } })], padding: vec![] };
            let mut b = rec.to_bytes();
            let l = b[43] as usize;
            let cl = 44 + l;
            let n = u16::from_be_bytes([b[cl], b[cl + 1]]) as usize;
            match t.below(4) {
                0 | 1 => { let v = if t.bool() { n - 1 } else { n + 1 } as u16; b[cl] = (v >> 8) as u8; b[cl + 1] = v as u8; }
                2 => b[43] = 33,
                _ => b[cl + 2 + n] = 0,
            }
            if dtls {
                // same content behind a DTLS record header and a DTLS handshake header (message_seq 0, unfragmented) with an empty cookie
                let body = b[9..].to_vec();
                let (pre, post) = body.split_at(35 + l);
                let mut inner = pre.to_vec();
                inner.push(0);
                inner.extend_from_slice(post);
                let mut e = Enc::new();
                e.u8(0x16);
                e.u16(0xfefd);
                e.u16(0);
                e.u48(3);
                let mut h = Enc::new();
                h.u8(1);
                h.u24(inner.len() as u32);
                h.u16(0);
                h.u24(0);
                h.u24(inner.len() as u32);
                h.bytes(&inner);
                e.vec(2, "rec.len", &h.buf);
                b = e.buf;
            }
            ("hello-inner-length", b)
        }

        7 => {
            // complete records of content types the parsers do not decode but a TLS / DTLS 1.3 peer sends: DTLS 1.3 ACK (26) with a
            // well-formed list of record numbers, connection-id records (25), a heartbeat (24)
            let ct = t.pick(&[26u8, 26, 25, 24]);
            let body: Vec<u8> = match ct {
                26 => {
                    let n = t.below(3);
                    let mut e = Enc::new();
                    e.vec(2, "ack.numbers", &vec![0x11; 16 * n]);
                    e.buf
                }
                25 => t.small_blob(30),
                _ => vec![1, 0, 2, 0xaa, 0xbb],
            };
            let mut e = Enc::new();
            e.u8(ct);
            e.u16(if dtls { 0xfefd } else { 0x0303 });
            if dtls {
                e.u16(t.below(3) as u16);
                e.u48(t.below(1000) as u64);
            }
            e.vec(2, "rec.len", &body);
            ("tls13-era-content-type", e.buf)
        }
        6 => {
            // a record over the cap whose payload is fully present and decodable: the single-record parser refuses it (TooLarge)
            let l = t.pick(&[16641usize, 16642, 17000, 20000]);
            let mut e = Enc::new();
            if dtls {
                e.u8(0x14);
                e.u16(0xfefd);
                e.u16(0);
                e.u48(7);
                e.u16(l as u16);
                e.bytes(&vec![1u8; l]);
            } else {
                e.u8(0x17);
                e.u16(0x0303);
                e.u16(l as u16);
                e.bytes(&vec![0x42u8; l]);
            }
            ("oversized-complete", e.buf)
        }
        1 => {
            // a truncated record
            if valid.len() < 2 {
                return ("nothing", vec![]);
            }
            let c = 1 + t.below(valid.len() - 1);
            ("truncated-record", valid[..c].to_vec())
        }
        2 => {
            let mut e = Enc::new();
            e.u8(0x16);
            e.u16(if dtls { 0xfefd } else { 0x0303 });
            if dtls {
                e.u16(0);
                e.u48(1);
            }
            e.u16(t.pick(&[16641u16, 20000, 65535]));
            let x = t.small_blob(30);
            e.bytes(&x);
            ("oversized-header", e.buf)
        }
        3 => ("garbage", { let n = 1 + t.small(40); t.bytes(n) }),
        4 => {
            let mut b = valid.to_vec();
            if b.len() > hdr {
                b[0] = t.pick(&[0x19u8, 0x00, 0x13, 0xff, 0x40]);
            }
            ("unknown-content-type", b)
        }
        _ => {
            // well-framed (complete) record with malformed or degenerate content: bad CCS byte, alert of 0/1/3 bytes, handshake of 0..11 bytes, empty CCS
            let (ct, body): (u8, Vec<u8>) = match t.below(6) {
                0 => (0x14, vec![0u8, 1]),
                1 => (0x15, vec![]),
                2 => (0x15, vec![2]),
                3 => {
                    let n = t_below(t, 12);
                    (0x16, t.bytes(n))
                }
                4 => (0x14, vec![]),
                _ => (0x15, vec![1, 0, 2]),
            };
            let mut e = Enc::new();
            e.u8(ct);
            e.u16(if dtls { 0xfefd } else { 0x0303 });
            if dtls {
                e.u16(0);
                e.u48(1);
            }
            e.vec(2, "rec.len", &body);
            ("malformed-content", e.buf)
        }
    }
}

/// the records of one side of a handshake, as they follow each other on the wire
fn flight(t: &mut Tape) -> Vec<MRecord> {
    let hs = |msgs: Vec<MHs>| MRecord { ctype: 0x16, version: 0x0303, msgs: msgs.into_iter().map(MMsg::Hs).collect(), padding: vec![] };
    let ccs = || MRecord { ctype: 0x14, version: 0x0303, msgs: vec![MMsg::Ccs], padding: vec![] };
    let app = |n: usize| MRecord { ctype: 0x17, version: 0x0303, msgs: vec![MMsg::AppData(vec![0x17; n])], padding: vec![] };
    let tls13_sh = |t: &mut Tape| MHs::ServerHello {
        version: 0x0303,
        random: if t.chance(60) { HRR_RANDOM.to_vec() } else { t.bytes(32) },
        sid: Some(t.bytes(32)),
        cipher: t.pick(&[0x1301u16, 0x1302, 0x1303]),
        comp: 0,
        ext: Some({ let mut e = Enc::new(); MExt::SupportedVersions(vec![0x0304], true).encode(&mut e); MExt::KeyShare({ let mut k = vec![0, 0x1d, 0, 32]; k.extend(t.bytes(32)); k }).encode(&mut e); e.buf }),
    };
    match t.below(7) {
        // a hello whose extensions negotiate something about later records (max_fragment_length, heartbeat mode, record_size_limit,
        // connection_id, ...), then records a state-keeping parser might treat differently: large handshake and application-data
        // records, heartbeat records. The multi-record parsers keep no state between records
        5 | 6 => {
            let (ext, _) = gen_negotiation_ext(t);
            let hello = if t.bool() {
                MHs::ServerHello { version: 0x0303, random: t.bytes(32), sid: None, cipher: 0xc02f, comp: 0, ext: Some(ext) }
            } else {
                MHs::ClientHello { version: 0x0303, random: t.bytes(32), sid: None, ciphers: vec![0xc02f, 0x1301], comp: vec![0], ext: Some(ext) }
            };
            let big = t.pick(&[513usize, 610, 1025, 2049, 4097, 16000]);
            let hb = MRecord { ctype: 0x18, version: 0x0303, msgs: vec![MMsg::Heartbeat { ty: 1, payload_len: 4, payload: vec![1, 2, 3, 4] }], padding: vec![0; 16] };
            let mut v = vec![hs(vec![hello])];
            for _ in 0..1 + t.below(4) {
                v.push(match t.below(4) {
                    0 => hs(vec![MHs::Certificate { chain: vec![vec![0x30; big]] }]),
                    1 => app(big),
                    2 => hb.clone(),
                    _ => hs(vec![MHs::ServerDone(vec![])]),
                });
            }
            v
        }
        // TLS 1.3 server flight with the middlebox-compatibility ChangeCipherSpec, then protected records
        0 => vec![hs(vec![tls13_sh(t)]), ccs(), app(40), app(300), app(19)],
        // HelloRetryRequest-shaped ServerHello, CCS, second ServerHello
        1 => vec![hs(vec![tls13_sh(t)]), ccs(), hs(vec![tls13_sh(t)]), app(64)],
        // TLS 1.2 full handshake, server side, in one record or several
        2 => {
            let sh = gen_hs_kind(t, 2, 120);
            let cert = gen_hs_kind(t, 7, 300);
            if t.bool() {
                vec![hs(vec![sh, cert, MHs::ServerKeyExchange(t.small_blob(60)), MHs::ServerDone(vec![])])]
            } else {
                vec![hs(vec![sh]), hs(vec![cert]), hs(vec![MHs::ServerKeyExchange(t.small_blob(60))]), hs(vec![MHs::ServerDone(vec![])])]
            }
        }
        // client second flight and session resumption: key exchange, CCS, encrypted Finished as opaque handshake bytes is not decodable -> app data here
        3 => vec![hs(vec![MHs::ClientKeyExchange(gen_cke_body(t, 80))]), ccs(), app(40)],
        // alerts around application data, ending with close_notify
        _ => vec![app(10), MRecord { ctype: 0x15, version: 0x0303, msgs: vec![MMsg::Alert(1, 90), MMsg::Alert(1, 0)], padding: vec![] }, app(3), MRecord { ctype: 0x15, version: 0x0303, msgs: vec![MMsg::Alert(1, 0)], padding: vec![] }],
    }
}

fn t_below(t: &mut Tape, n: usize) -> usize {
    t.below(n)
}

fn tls_many(t: &mut Tape, obs: &mut Obs) -> R {
    // mostly 0..8 generated records; now and then very many small ones (any per-call limit on the number of records or on the
    // buffer size shows only there), and now and then a long undecodable remainder
    let (n, recs): (usize, Vec<MRecord>) = if t.chance(5) {
        let n = t.pick(&[255usize, 256, 257, 4097, 16383, 16384, 16385, 20000, 70000]);
        (n, (0..n).map(|k| match k % 4 {
            0 => MRecord { ctype: 0x15, version: 0x0303, msgs: vec![MMsg::Alert(1, k as u8)], padding: vec![] },
            1 => MRecord { ctype: 0x14, version: 0x0303, msgs: vec![MMsg::Ccs], padding: vec![] },
            2 => MRecord { ctype: 0x17, version: 0x0301, msgs: vec![MMsg::AppData(vec![k as u8; k % 5])], padding: vec![] },
            _ => MRecord { ctype: 0x16, version: 0x0303, msgs: vec![MMsg::Hs(MHs::ServerDone(vec![]))], padding: vec![] },
        }).collect())
    } else if t.chance(10) {
        // a long run of one and the same record (empty application data - legal, RFC 5246 6.2.1 - among them): counters of "consecutive
        // empty / identical records", de-duplication and flood guards only show on runs
        let n = t.pick(&[2usize, 33, 200, 201, 202, 256, 1000, 5000]);
        let r = match t.below(5) {
            0 | 1 => MRecord { ctype: 0x17, version: 0x0303, msgs: vec![MMsg::AppData(vec![])], padding: vec![] },
            2 => MRecord { ctype: 0x17, version: 0x0303, msgs: vec![MMsg::AppData(vec![0x61])], padding: vec![] },
            3 => MRecord { ctype: 0x14, version: 0x0303, msgs: vec![MMsg::Ccs], padding: vec![] },
            _ => MRecord { ctype: 0x15, version: 0x0303, msgs: vec![MMsg::Alert(1, 0)], padding: vec![] },
        };
        (n, vec![r; n])
    } else {
        let n = t.below(9);
        (n, (0..n).map(|_| gen_record(t)).collect())
    };
    // now and then the records of a real flight instead of independent ones (what follows what matters to code that "knows" TLS)
    let (n, recs) = if n <= 8 && t.chance(70) { let f = flight(t); (f.len(), f) } else { (n, recs) };
    let probe = gen_record(t).to_bytes();
    let (en, mut end) = ending(t, false, &probe);
    if en == "garbage" && t.chance(40) {
        end.extend(std::iter::repeat(0xff).take(t.pick(&[65536usize, 100_000, 300_000])));
    }
    // the undecodable part usually comes last; one time in three it sits between valid records (they then stay in the remainder)
    let pos = if n > 0 && t.chance(85) { t.below(n + 1) } else { n };
    let mut buf = Vec::new();
    for (i, r) in recs.iter().enumerate() {
        if i == pos {
            buf.extend_from_slice(&end);
        }
        buf.extend(r.to_bytes());
    }
    if pos >= n {
        buf.extend_from_slice(&end);
    }
    let (n, recs) = (pos.min(n), recs[..pos.min(n)].to_vec());
    if n >= 2 || !end.is_empty() {
        obs.nontrivial(fnv64(&buf));
    }
    obs.sample_class(&format!("records={}:{}", n.min(3), en), || json!({"records": n, "ending": en, "bytes": buf.len(), "hex": hex_short(&buf)}));
    // explicit loop
    type Rec = ((u8, u16, u16), Vec<MMsg>);
    let (want, want_off, first_err): (Vec<Rec>, usize, bool) = guard("parse_tls_plaintext loop", || {
        let mut out = Vec::new();
        let mut off = 0;
        let mut first_err = false;
        loop {
            match parse_tls_plaintext(&buf[off..]) {
                Ok((rem, p)) => {
                    out.push(((p.hdr.record_type.0, p.hdr.version.0, p.hdr.len), conv::msgs(&p.msg)));
                    off = buf.len() - rem.len();
                }
                Err(_) => {
                    if out.is_empty() {
                        first_err = true;
                    }
                    break;
                }
            }
            if off >= buf.len() {
                break;
            }
        }
        (out, off, first_err)
    })?;
    let _ = first_err;
    // all valid records must be among the loop's results
    ensure!(want.len() >= n, "C16:tls:loop-short", "the single-record parser stopped after {} of {} valid records", want.len(), n);
    for (i, r) in recs.iter().enumerate() {
        let m: Vec<MMsg> = r.msgs.clone();
        ensure!(want[i].1 == m, "C16:tls:loop-value", "record {} decoded differently by the single-record parser", i);
    }
    let got = guard("tls_parser_many", || match tls_parser_many(&buf) {
        Ok((rem, v)) => Ok(((rem.as_ptr() as usize).wrapping_sub(buf.as_ptr() as usize), rem.len(), v.iter().map(|p| ((p.hdr.record_type.0, p.hdr.version.0, p.hdr.len), conv::msgs(&p.msg))).collect::<Vec<Rec>>())),
        Err(e) => Err(format!("{:?}", e.map(|x| x.code))),
    })?;
    match got {
        Ok((off, rl, v)) => {
            ensure!(!want.is_empty(), "C16:tls:ok-although-first-fails", "tls_parser_many returned {} record(s) although the first record does not parse", v.len());
            ensure!(v == want, "C16:tls:records", "tls_parser_many returned {} record(s), repeated single-record parsing gives {} ({} bytes, ending {})", v.len(), want.len(), buf.len(), en);
            ensure!(rl == buf.len() - want_off && (rl == 0 || off == want_off), "C16:tls:remainder", "remainder must start at the first record that fails (offset {}), got offset {} len {}", want_off, off, rl);
        }
        Err(e) => ensure!(want.is_empty(), "C16:tls:err-although-first-parses", "tls_parser_many failed with {} although {} record(s) parse from the start", e, want.len()),
    }
    Ok(())
}

fn dtls_many(t: &mut Tape, obs: &mut Obs) -> R {
    let (n, recs): (usize, Vec<MDtlsRecord>) = if t.chance(5) {
        // buffers beyond 64 KiB: thousands of small records, or a few records of 16 KiB
        if t.bool() {
            let n = t.pick(&[255usize, 256, 4097, 6000, 16385, 20000]);
            (n, (0..n).map(|k| match k % 3 {
                0 => MDtlsRecord { ctype: 0x15, version: 0xfefd, epoch: (k >> 8) as u16, seq: k as u64, msgs: vec![MDtlsMsg::Alert(1, k as u8)] },
                1 => MDtlsRecord { ctype: 0x14, version: 0xfeff, epoch: 1, seq: k as u64, msgs: vec![MDtlsMsg::Ccs] },
                _ => MDtlsRecord { ctype: 0x15, version: 0xfefd, epoch: 0, seq: (k as u64) << 20, msgs: vec![MDtlsMsg::Alert(2, 40), MDtlsMsg::Alert(1, 0)] },
            }).collect())
        } else {
            let n = 5 + t.below(4);
            (n, (0..n).map(|k| MDtlsRecord { ctype: 0x15, version: 0xfefd, epoch: 0, seq: k as u64, msgs: (0..8000 + k).map(|j| MDtlsMsg::Alert(1, j as u8)).collect() }).collect())
        }
    } else {
        let n = t.below(6);
        (n, (0..n).map(|_| gen_dtls_record(t)).collect())
    };
    let probe = gen_dtls_record(t).to_bytes();
    let (mut en, mut end) = ending(t, true, &probe);
    // a hello that negotiates a connection id (RFC 9146) and other things, then records in the tls12_cid layout with that id and more
    // valid records: parse_dtls_plaintext_record does not decode content type 25, so the list ends in front of the first such record
    let negotiated = t.chance(20);
    let (n, recs) = if negotiated {
        let (ext, cid) = gen_negotiation_ext(t);
        let body = if t.bool() {
            MDtlsBody::ClientHello { version: 0xfefd, random: t.bytes(32), sid: None, cookie: vec![], ciphers: vec![0xc02f], comp: vec![0], ext: Some(ext) }
        } else {
            MDtlsBody::ServerHello { version: 0xfefd, random: t.bytes(32), sid: None, cipher: 0xc02f, comp: 0, ext: Some(ext) }
        };
        let ty = if matches!(body, MDtlsBody::ClientHello { .. }) { 1 } else { 2 };
        let mut be = Enc::new();
        body.encode(&mut be);
        let l = be.buf.len() as u32;
        let hello = MDtlsRecord { ctype: 0x16, version: 0xfefd, epoch: 0, seq: 0, msgs: vec![MDtlsMsg::Hs(MDtlsHs { msg_type: ty, length: l, message_seq: 0, fragment_offset: 0, fragment_length: l, body })] };
        let ccs = MDtlsRecord { ctype: 0x14, version: 0xfefd, epoch: 0, seq: 1, msgs: vec![MDtlsMsg::Ccs] };
        let mut x = Enc::new();
        x.u8(25);
        x.u16(0xfefd);
        x.u16(1);
        x.bytes(&[0, 0, 0, 0, 0, 0]);
        x.bytes(&cid);
        x.vec(2, "cid.len", &t.bytes(40));
        x.bytes(&MDtlsRecord { ctype: 0x15, version: 0xfefd, epoch: 1, seq: 1, msgs: vec![MDtlsMsg::Alert(1, 0)] }.to_bytes());
        en = "connection-id-records";
        end = x.buf;
        (2, vec![hello, ccs])
    } else {
        (n, recs)
    };
    if en == "garbage" && t.chance(40) {
        end.extend(std::iter::repeat(0xff).take(t.pick(&[65536usize, 100_000, 300_000])));
    }
    let pos = if n > 0 && t.chance(85) { t.below(n + 1) } else { n };
    let mut buf = Vec::new();
    for (i, r) in recs.iter().enumerate() {
        if i == pos {
            buf.extend_from_slice(&end);
        }
        buf.extend(r.to_bytes());
    }
    if pos >= n {
        buf.extend_from_slice(&end);
    }
    let (n, recs) = (pos.min(n), recs[..pos.min(n)].to_vec());
    if n >= 2 || !end.is_empty() {
        obs.nontrivial(fnv64(&buf));
    }
    obs.sample_class(&format!("records={}:{}", n.min(3), en), || json!({"records": n, "ending": en, "bytes": buf.len(), "hex": hex_short(&buf)}));
    let (want, want_off): (Vec<Option<MDtlsRecord>>, usize) = guard("parse_dtls_plaintext_record loop", || {
        let mut out = Vec::new();
        let mut off = 0;
        while off < buf.len() {
            match parse_dtls_plaintext_record(&buf[off..]) {
                Ok((rem, p)) => {
                    out.push(conv::dtls_record(&p));
                    off = buf.len() - rem.len();
                }
                Err(_) => break,
            }
        }
        (out, off)
    })?;
    ensure!(want.len() >= n, "C16:dtls:loop-short", "the single-record parser stopped after {} of {} valid records", want.len(), n);
    for (i, r) in recs.iter().enumerate() {
        ensure!(want[i].as_ref() == Some(r), "C16:dtls:loop-value", "record {} decoded differently by the single-record parser", i);
    }
    let got = guard("parse_dtls_plaintext_records", || match parse_dtls_plaintext_records(&buf) {
        Ok((rem, v)) => Ok(((rem.as_ptr() as usize).wrapping_sub(buf.as_ptr() as usize), rem.len(), v.iter().map(conv::dtls_record).collect::<Vec<_>>())),
        Err(e) => Err(format!("{:?}", e.map(|x| x.code))),
    })?;
    match got {
        Ok((off, rl, v)) => {
            ensure!(!want.is_empty(), "C16:dtls:ok-although-first-fails", "parse_dtls_plaintext_records returned {} record(s) although the first record does not parse", v.len());
            ensure!(v == want, "C16:dtls:records", "parse_dtls_plaintext_records returned {} record(s), repeated single-record parsing gives {}", v.len(), want.len());
            ensure!(rl == buf.len() - want_off && (rl == 0 || off == want_off), "C16:dtls:remainder", "remainder must start at offset {}, got offset {} len {}", want_off, off, rl);
        }
        Err(e) => ensure!(want.is_empty(), "C16:dtls:err-although-first-parses", "parse_dtls_plaintext_records failed with {} although {} record(s) parse", e, want.len()),
    }
    Ok(())
}

/// the tape itself is the buffer: multi-record parsers vs the explicit loop, on arbitrary bytes
fn many_raw(t: &mut Tape, obs: &mut Obs) -> R {
    let mut buf = Vec::new();
    while !t.exhausted() {
        buf.push(t.u8());
    }
    // fold bytes at plausible header positions onto valid content types / small lengths so that several records line up
    let mut off = 0;
    while off + 5 <= buf.len() {
        if buf[off] & 0x80 == 0 {
            buf[off] = 0x14 + (buf[off] % 5);
        }
        buf[off + 3] = 0;
        buf[off + 4] &= 0x1f;
        off += 5 + buf[off + 4] as usize;
    }
    let fmt_tls = |r: IResult<&[u8], Vec<TlsPlaintext>>| match r {
        Ok((rem, v)) => Ok((buf.len() - rem.len(), v.iter().map(|p| format!("{:?}{:?}", (p.hdr.record_type.0, p.hdr.version.0, p.hdr.len), conv::msgs(&p.msg))).collect::<Vec<_>>())),
        Err(_) => Err(()),
    };
    let got = guard("tls_parser_many", || fmt_tls(tls_parser_many(&buf)))?;
    let want = guard("parse_tls_plaintext loop", || {
        let mut out = Vec::new();
        let mut off = 0;
        while off < buf.len() {
            match parse_tls_plaintext(&buf[off..]) {
                Ok((rem, p)) => {
                    out.push(format!("{:?}{:?}", (p.hdr.record_type.0, p.hdr.version.0, p.hdr.len), conv::msgs(&p.msg)));
                    off = buf.len() - rem.len();
                }
                Err(_) => break,
            }
        }
        if out.is_empty() { Err(()) } else { Ok((off, out)) }
    })?;
    if let Ok((_, v)) = &want {
        obs.class(&format!("records={}", v.len().min(5)));
        if v.len() >= 2 {
            obs.nontrivial(fnv64(&buf));
            obs.sample(json!({"records": v.len(), "hex": hex_short(&buf)}));
        }
    } else {
        obs.class("records=0");
    }
    ensure!(got == want, "C16:tls:raw", "tls_parser_many differs from repeated single-record parsing on {}: {} vs {}", hex_short(&buf), trunc(&format!("{:?}", got)), trunc(&format!("{:?}", want)));
    // DTLS on the same bytes
    let got = guard("parse_dtls_plaintext_records", || match parse_dtls_plaintext_records(&buf) {
        Ok((rem, v)) => Ok((buf.len() - rem.len(), v.iter().map(|r| format!("{:?}", conv::dtls_record(r))).collect::<Vec<_>>())),
        Err(_) => Err(()),
    })?;
    let want = guard("parse_dtls_plaintext_record loop", || {
        let mut out = Vec::new();
        let mut off = 0;
        while off < buf.len() {
            match parse_dtls_plaintext_record(&buf[off..]) {
                Ok((rem, p)) => {
                    out.push(format!("{:?}", conv::dtls_record(&p)));
                    off = buf.len() - rem.len();
                }
                Err(_) => break,
            }
        }
        if out.is_empty() { Err(()) } else { Ok((off, out)) }
    })?;
    ensure!(got == want, "C16:dtls:raw", "parse_dtls_plaintext_records differs from repeated single-record parsing on {}", hex_short(&buf));
    Ok(())
}

#[allow(deprecated)]
fn alias(t: &mut Tape, obs: &mut Obs) -> R {
    let buf: Vec<u8> = match t.weighted(&[3, 4, 3]) {
        0 => { let n = t.below(40); t.bytes(n) },
        1 => {
            let mut b = gen_record(t).to_bytes();
            b.extend(t.small_blob(10));
            b
        }
        _ => {
            let e = gen_structured(t);
            corrupt(t, &e)
        }
    };
    if buf.len() >= 5 {
        obs.nontrivial(fnv64(&buf));
    }
    let f = |r: IResult<&[u8], TlsPlaintext>| match r {
        Ok((rem, p)) => format!("Ok(rem@{}+{}, {:?}, {:?})", (rem.as_ptr() as usize).wrapping_sub(buf.as_ptr() as usize), rem.len(), (p.hdr.record_type.0, p.hdr.version.0, p.hdr.len), conv::msgs(&p.msg)),
        Err(e) => format!("{:?}", e),
    };
    let a = guard("tls_parser", || f(tls_parser(&buf)))?;
    let b = guard("parse_tls_plaintext", || f(parse_tls_plaintext(&buf)))?;
    obs.class(if a.starts_with("Ok") { "ok" } else { "err" });
    obs.sample(json!({"hex": hex_short(&buf), "outcome": trunc(&a)}));
    ensure!(a == b, "C16:alias:differs", "tls_parser and parse_tls_plaintext differ on {}: {} vs {}", hex_short(&buf), trunc(&a), trunc(&b));
    Ok(())
}
