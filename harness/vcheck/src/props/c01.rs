//! C01 Parsing never panics, hangs or over-allocates, whatever the bytes.

use super::c07::{gen_ops, op_label, Op};
use super::PropDef;
use crate::alloc::{self, Stats};
use crate::core::*;
use nom_derive::Parse;
use serde_json::json;
use std::fmt::Debug;
use tls_parser::nom::Err;
use tls_parser::*;
use vmodel::model::*;
use vmodel::tape::Tape;
use vmodel::wire::{fnv64, hex_short, set_be, Enc};

pub const DEF: PropDef = PropDef {
    id: "C01",
    title: "Parsing never panics, hangs or over-allocates, whatever the bytes",
    rule: "entry_points = an input (byte soup 0..70 bytes dense around header sizes; long soup to 70 000 bytes; every model encoder's output with 0..3 corruptions: a length field set \
           to 0 / 1 / true-1 / true+1 / max / random, truncation, byte overwrite, bit flip, splice; allocation-dense shapes: 16640 one-byte messages, thousands of empty \
           certificates / extensions / SNI names / SCTs, 32767 ciphers) is given to every public parsing entry point (about 120 closures: all pub fn parse_* / tls_parser*, the derived \
           ::parse methods, parse_content_and_signature with three content parsers and both flags), extra arguments (len: usize incl. 0..8, body length +-1, 2^24-1, usize::MAX; \
           arbitrary record headers; u16 lengths) drawn from the tape; public parse functions and Nom-deriving types found in the sources of the tree under test that the table does \
           not name are added at build time with generated arguments (entry_point_census); every Ok and Err value is formatted with {:?} and {:#?} (and {} / {:#} / {:x} where implemented). The call must return (panics, \
           overflow and bounds errors are caught: the harness is built with debug-assertions and overflow-checks), and peak live bytes and total requested bytes, measured by a \
           per-thread counting allocator, must stay <= 64 KiB + K*len (parse) and 64 KiB + 1024*len (formatting). assets = the four files of /repo/assets at every prefix length. \
           histories = up to 40 (thorough: 700) operations on one TlsRecordsParser, values formatted while borrowed, bound 64 KiB + 10 MiB + (K+2)*bytes fed. \
           Non-trivial = at least one entry point got past its first field (Ok, or Error/Failure rather than Incomplete); histories: at least one call while defragmenting. \
           Distinct by hash of the input / of the operation list.",
    assumptions: &[
        "K = 16 * max(size_of TlsMessage, DTLSMessage, TlsExtension, SignedCertificateTimestamp, TlsPlaintext): every many0/many1 element consumes >= 1 input byte, nesting depth <= 3, Vec growth <= 3x transient; 64 KiB covers nom's initial-capacity cap",
        "termination is observed through a watchdog (no progress for VERIF_WATCHDOG_S seconds, default 120; normal cases take microseconds), not proved",
        "the allocator counts only allocations made on the calling thread during the call",
    ],
    run,
};

pub const SUBS: &[SubDef] = &[
    SubDef { prop: "C01", name: "entry_points", oracle: entry_points },
    SubDef { prop: "C01", name: "assets", oracle: assets },
    SubDef { prop: "C01", name: "histories", oracle: histories },
    SubDef { prop: "C01", name: "long_histories", oracle: long_histories },
    SubDef { prop: "C01", name: "oversize_histories", oracle: oversize_histories },
    SubDef { prop: "C01", name: "tiny_fragment_streams", oracle: tiny_fragment_streams },
    SubDef { prop: "C01", name: "entry_points_raw", oracle: entry_points_raw },
    SubDef { prop: "C01", name: "edge_matrix", oracle: edge_matrix },
];

fn run(ctx: &Ctx) {
    // which public parsing entry points does the tree under test have, and which of them are run? (harness/vcheck/build.rs)
    ctx.run_fn("entry_point_census", true, "pub fn with a byte-slice first parameter and an IResult result, and types deriving Nom*, found by scanning the sources of the tree under test at build time", |obs| {
        let (found, in_table, added, skipped) = AUTO_COUNTS;
        obs.evals_add(found as u64);
        for _ in 0..in_table {
            obs.class("named-by-the-hand-written-table");
        }
        for _ in 0..added {
            obs.class("added-automatically");
        }
        for (n, why) in AUTO_SKIPPED {
            obs.class("not-callable-mechanically");
            obs.sample(json!({"entry_point": n, "not_run_because": why}));
        }
        obs.sample(json!({"found_in_sources": found, "named_by_table": in_table, "added_automatically": added, "not_callable_mechanically": skipped, "table_size": entries().len()}));
        obs.nontrivial(found as u64);
        Ok(())
    });
    // stack depth: the list parsers on 200 000 (thorough: 2 000 000) minimal elements, in a probe program built WITHOUT optimisation (every
    // call has a real frame there) on a thread with the default 2 MiB stack of a spawned thread. A parser that recurses once per element
    // is killed by the stack guard; the probe is a separate process, so that this is an observation and not the end of the check
    let deep_n = ctx.pick(200_000, 2_000_000) as usize;
    ctx.run_fn("deep_inputs", true, "9 list parsers x n minimal elements in an unoptimised probe process with a 2 MiB stack", move |obs| {
        let hd = std::path::PathBuf::from(std::env::var("VERIF_DIR").unwrap_or_else(|_| "/verif".into())).join("harness");
        let out = output_with_progress(std::process::Command::new("cargo").args(["build", "-q", "--features", "std"]).current_dir(hd.join("cfgdiff")).env("CARGO_TARGET_DIR", hd.join("target-cfg-std")).env("CARGO_NET_OFFLINE", "true"), 3600, true).map_err(|e| Fail { sig: "harness:cargo".into(), msg: format!("{}", e) })?;
        if !out.status.success() {
            return fail("harness:deep-probe-build", format!("the unoptimised probe does not build: {}", trunc(&String::from_utf8_lossy(&out.stderr))));
        }
        let bin = hd.join("target-cfg-std/debug/cfgdiff");
        for kind in ["tls-records", "tls-alert-records", "dtls-records", "extensions", "client-extensions", "server-extensions", "handshake-messages", "alerts", "named-groups"] {
            obs.evals_add(1);
            let o = output_with_progress(std::process::Command::new(&bin).args(["--deep", kind, &deep_n.to_string()]), 1800, true).map_err(|e| Fail { sig: "harness:deep-probe-run".into(), msg: format!("{}", e) })?;
            let text = String::from_utf8_lossy(&o.stdout).trim().to_string();
            let err = String::from_utf8_lossy(&o.stderr).to_string();
            if !o.status.success() {
                let why = if err.contains("overflowed its stack") { "overflowed its 2 MiB stack" } else { "died" };
                return fail(format!("C01:deep:{}:{}", if err.contains("overflowed its stack") { "stack-overflow" } else { "crash" }, kind), format!("the {} parser on {} minimal elements {} ({}): {}", kind, deep_n, why, o.status, trunc(&err)));
            }
            ensure!(text == format!("ok {}", deep_n), format!("C01:deep:result:{}", kind), "the {} parser on {} minimal elements answered `{}`", kind, deep_n, text);
            obs.nontrivial(fnv64(kind.as_bytes()));
        }
        obs.sample(json!({"elements": deep_n, "stack_bytes": 2 * 1024 * 1024, "probe": "cfgdiff --deep, dev profile"}));
        Ok(())
    });
    // volume: one long-lived parser defragments 430 messages of almost 10 MiB each (630 records of 16640 bytes per message, a reset()
    // every seventh message): 4.5 GB pass through it in 270 900 calls. Whatever a parser adds up per byte or per fragment in a 32-bit
    // integer overflows here (the harness is built with overflow checks)
    ctx.run_fn("volume_history", true, "430 messages x 630 records x 16640 bytes through one TlsRecordsParser (4.5 GB, 270 900 calls)", |obs| {
        let per_msg = 630usize;
        let body = per_msg * 16640 - 4;
        let mut first = vec![0x77u8; 16640];
        first[..4].copy_from_slice(&[20, (body >> 16) as u8, (body >> 8) as u8, body as u8]);
        let rest = vec![0x77u8; 16640];
        let hdr = TlsRecordHeader { record_type: TlsRecordType::Handshake, version: TlsVersion(0x0303), len: 16640 };
        let mut p = TlsRecordsParser::default();
        let mut total = 0u64;
        for m in 0..430usize {
            for k in 0..per_msg {
                let data: &[u8] = if k == 0 { &first } else { &rest };
                let r = guard("TlsRecordsParser::parse_record", || match p.parse_record(TlsRawRecord { hdr, data }) {
                    Ok((rem, v)) => Ok((rem.len(), v.len())),
                    Err(Err::Incomplete(_)) => Err(true),
                    Err(_) => Err(false),
                })?;
                total += 16640;
                obs.evals_add(1);
                let want_done = k + 1 == per_msg;
                match r {
                    Ok((0, 1)) if want_done => {}
                    Err(true) if !want_done => {}
                    other => return fail("C01:volume:result", format!("message {} record {} ({} bytes through this parser so far): answered {:?}", m + 1, k + 1, total, other)),
                }
            }
            if m % 7 == 6 {
                guard("TlsRecordsParser::reset", || p.reset())?;
            }
            if m % 16 == 0 {
                crate::alloc::progress();
            }
        }
        obs.nontrivial(total);
        obs.sample(json!({"bytes_through_one_parser": total, "calls": 430 * per_msg}));
        Ok(())
    });
    ctx.run_tape("entry_points", entry_points, ctx.pick(6_000, 300_000), 600);
    let mut cases = Vec::new();
    for (fi, f) in asset_files().iter().enumerate() {
        for l in 0..=f.len() {
            cases.push(vec![fi as u8, (l >> 8) as u8, l as u8]);
        }
    }
    ctx.run_enum("assets", assets, true, "the four files of /repo/assets cut at every prefix length, through every entry point", cases.into_iter());
    ctx.run_tape("histories", histories, ctx.pick(3_000, 100_000), 1200);
    if ctx.tier == Tier::Quick {
        // one stream of each length class (300 / 700 / 1500 / 1600 records), the rest of each tape derived from the seed
        let cases = (0..4u8).map(|m| {
            let mut v = vec![m];
            v.extend(vmodel::tape::fill(ctx.seed ^ (0xC01 + m as u64), 4000));
            v
        });
        ctx.run_enum("long_histories", long_histories, false, "4 streams of 300 / 700 / 1500 / 1600 records of up to 16 KiB (up to 26 MiB fed, beyond the 10 MiB limit)", cases.collect::<Vec<_>>().into_iter());
    } else {
        ctx.run_tape("long_histories", long_histories, 200, 4000);
    }
    // hand-built records (TlsRawRecord is a public struct: parse_record accepts any data length) around the 10 MiB limit as the
    // FIRST fragment, followed by a short generated history: the state "buffer already at or over the limit" is reachable only this way
    let per = ctx.pick(2, 12);
    let cases = (0..OVERSIZE_LENS.len() as u8).flat_map(|m| (0..per as u8).map(move |k| (m, k))).map(|(m, k)| {
        let mut v = vec![m];
        v.extend(vmodel::tape::fill(ctx.seed ^ (0xC0115 + ((m as u64) << 8) + k as u64), 600));
        v
    });
    ctx.run_enum("oversize_histories", oversize_histories, false, "first fragments of 10 MiB-2 .. 10 MiB+4096 and 2^24-1 bytes built by hand, each followed by a generated history of up to 12 calls", cases.collect::<Vec<_>>().into_iter());
    // very many tiny fragments of one never-completing message: anything the parser counts per fragment gets past 2^16
    let nfr = ctx.pick(70_000, 300_000);
    let cases = (0..6u8).map(|m| vec![m, (nfr >> 16) as u8, (nfr >> 8) as u8, nfr as u8]);
    ctx.run_enum("tiny_fragment_streams", tiny_fragment_streams, false, &format!("6 streams of {} empty / one-byte / mixed fragments after a first fragment (handshake and heartbeat)", nfr), cases.collect::<Vec<_>>().into_iter());
    ctx.run_tape("entry_points_raw", entry_points_raw, ctx.pick(4_000, 200_000), 80);
    // enumerated: every known extension / handshake / content type x declared length 0..5 x body size {0,1,2,3,5,9} x 3 fill patterns
    let mut cases = Vec::new();
    for kind in 0..3u8 {
        let ntypes = match kind {
            0 => KNOWN_EXT_TYPES.len() + 4,
            1 => 16 + 3,
            _ => 5 + 2,
        };
        for ty in 0..ntypes as u8 {
            for len in 0..6u8 {
                for body in [0u8, 1, 2, 3, 5, 9] {
                    for pat in 0..3u8 {
                        cases.push(vec![kind, ty, len, body, pat]);
                    }
                }
            }
        }
    }
    ctx.run_enum("edge_matrix", edge_matrix, true, "structure headers (26 known + 4 other extension types, 16 known + 3 other handshake types, 5 + 2 content types) x declared length 0..5 x body size {0,1,2,3,5,9} x 3 fill patterns, through every entry point", cases.into_iter());
}

fn k_factor() -> usize {
    use std::mem::size_of;
    16 * size_of::<TlsMessage>().max(size_of::<DTLSMessage>()).max(size_of::<TlsExtension>()).max(size_of::<SignedCertificateTimestamp>()).max(size_of::<TlsPlaintext>())
}

#[derive(Clone, Copy, PartialEq)]
enum Cls {
    Ok,
    Incomplete,
    Err,
}

struct EpOut {
    parse: Stats,
    fmt: Stats,
    cls: Cls,
}

fn classify<I, T, E>(r: &Result<(I, T), Err<E>>) -> Cls {
    match r {
        Ok(_) => Cls::Ok,
        Err(Err::Incomplete(_)) => Cls::Incomplete,
        Err(_) => Cls::Err,
    }
}

/// the pretty form ({:#?}: one line per field, through an indenting adapter) is several times slower than the compact one; it is produced
/// for every result whose compact form is at most this long (what goes wrong in a pretty printer depends on the shape of a value -
/// an empty field, a nesting level - not on its size)
const PRETTY_LIMIT: usize = 2048;

/// a writer that fails once its capacity is used up (fmt::Write may fail; a Debug impl then has to pass the error on, not unwrap it)
struct Bounded {
    left: usize,
}
impl std::fmt::Write for Bounded {
    fn write_str(&mut self, s: &str) -> std::fmt::Result {
        if s.len() > self.left {
            self.left = 0;
            Err(std::fmt::Error)
        } else {
            self.left -= s.len();
            Ok(())
        }
    }
}

/// every way a caller can ask for the Debug text of a value: compact, pretty, with precision / width / sign / zero / hex flags (nested
/// fields inherit them), and into a writer that runs full at different points. Returns the number of bytes produced.
fn debug_forms<T: Debug>(r: &T) -> usize {
    use std::fmt::Write;
    let n = format!("{:?}", r).len();
    if n > PRETTY_LIMIT {
        return n;
    }
    let mut total = n + format!("{:#?}", r).len();
    total += format!("{:.0?}", r).len() + format!("{:.3?}", r).len() + format!("{:.64?}", r).len() + format!("{:#.16?}", r).len();
    total += format!("{:12?}", r).len() + format!("{:<5?}", r).len() + format!("{:+?}", r).len() + format!("{:08?}", r).len() + format!("{:x?}", r).len() + format!("{:#X?}", r).len();
    for cap in [0usize, 1, 7, n / 3, n / 2, n.saturating_sub(1), n] {
        let mut w = Bounded { left: cap };
        let _ = write!(w, "{:?}", r);
        let mut w = Bounded { left: cap };
        let _ = write!(w, "{:#?}", r);
    }
    total
}

/// the same for Display
fn display_forms<T: std::fmt::Display>(v: &T) -> usize {
    use std::fmt::Write;
    let n = format!("{}", v).len();
    let total = n + format!("{:#}", v).len() + format!("{:.0}", v).len() + format!("{:.3}", v).len() + format!("{:>12}", v).len() + format!("{:<3.1}", v).len() + format!("{:+}", v).len() + format!("{:08}", v).len();
    for cap in [0usize, 1, n / 2, n.saturating_sub(1)] {
        let mut w = Bounded { left: cap };
        let _ = write!(w, "{}", v);
    }
    total
}

/// run one entry point: parse (measured), then format the result while it is alive (measured)
fn ep<'a, T: Debug>(i: &'a [u8], f: impl FnOnce(&'a [u8]) -> IResult<&'a [u8], T>) -> EpOut {
    let (r, parse) = alloc::measure(|| f(i));
    let cls = classify(&r);
    let (_s, fmt) = alloc::measure(|| debug_forms(&r));
    EpOut { parse, fmt, cls }
}

/// same, and also Display ({}), for results that implement it
fn epd<'a, T: Debug + std::fmt::Display>(i: &'a [u8], f: impl FnOnce(&'a [u8]) -> IResult<&'a [u8], T>) -> EpOut {
    let (r, parse) = alloc::measure(|| f(i));
    let cls = classify(&r);
    let (_s, fmt) = alloc::measure(|| {
        let mut n = debug_forms(&r);
        if let Ok((_, v)) = &r {
            n += display_forms(v);
        }
        n
    });
    EpOut { parse, fmt, cls }
}

/// extra arguments for entry points that take more than the input
struct Args {
    len: usize,
    len16: u16,
    tls_hdr: TlsRecordHeader,
    dtls_hdr: DTLSRecordHeader,
    curve_type: u8,
    flag: bool,
}

fn gen_args(t: &mut Tape, input_len: usize) -> Args {
    let len = match t.below(8) {
        0 => t.below(9),
        1 => input_len,
        2 => input_len.saturating_sub(1),
        3 => input_len + 1,
        4 => 0xff_ffff,
        5 => usize::MAX,
        6 => input_len.saturating_sub(4),
        _ => t.u32() as usize,
    };
    let ctype = if t.chance(200) { t.pick(&[0x14u8, 0x15, 0x16, 0x17, 0x18]) } else { t.u8() };
    let hl = match t.below(4) {
        0 => input_len as u16,
        1 => t.below(4) as u16,
        _ => t.u16b(),
    };
    Args {
        len,
        len16: hl,
        tls_hdr: TlsRecordHeader { record_type: TlsRecordType(ctype), version: TlsVersion(t.u16b()), len: hl },
        dtls_hdr: DTLSRecordHeader { content_type: TlsRecordType(ctype), version: TlsVersion(t.u16b()), epoch: t.u16(), sequence_number: t.u64() & 0xffff_ffff_ffff, length: hl },
        curve_type: if t.bool() { t.pick(&[1u8, 2, 3]) } else { t.u8() },
        flag: t.bool(),
    }
}

type Entry = (&'static str, fn(&[u8], &Args) -> EpOut);

macro_rules! e1 {
    ($f:path) => {
        (stringify!($f), (|i, _a| ep(i, $f)) as fn(&[u8], &Args) -> EpOut)
    };
}
macro_rules! ed {
    ($f:path) => {
        (stringify!($f), (|i, _a| epd(i, $f)) as fn(&[u8], &Args) -> EpOut)
    };
}
macro_rules! el {
    ($f:path) => {
        (stringify!($f), (|i, a| ep(i, |i| $f(i, a.len))) as fn(&[u8], &Args) -> EpOut)
    };
}

/// formatting of a result whose type this file does not know (generated entries): Debug, compact and pretty, when the type has it
struct MaybeDebug<'x, T>(&'x T);
trait FmtViaDebug {
    fn fmt_len(&self) -> usize;
}
impl<'x, T: Debug> FmtViaDebug for MaybeDebug<'x, T> {
    fn fmt_len(&self) -> usize {
        debug_forms(self.0)
    }
}
trait FmtNotAtAll {
    fn fmt_len(&self) -> usize;
}
impl<'x, 'y, T> FmtNotAtAll for &'y MaybeDebug<'x, T> {
    fn fmt_len(&self) -> usize {
        0
    }
}

/// generated entries: `epa!(i, call)` parses (measured) and formats the result (measured)
#[allow(unused_macros)]
macro_rules! epa {
    ($i:ident, $call:expr) => {{
        let $i: &[u8] = $i;
        let (r, parse) = alloc::measure(|| $call);
        let cls = classify(&r);
        let (_s, fmt) = alloc::measure(|| (&MaybeDebug(&r)).fmt_len());
        EpOut { parse, fmt, cls }
    }};
}

include!(concat!(env!("OUT_DIR"), "/auto_entries.rs"));

fn entries() -> Vec<Entry> {
    let mut v = hand_entries();
    v.extend(auto_entries());
    v
}

fn hand_entries() -> Vec<Entry> {
    vec![
        // records
        e1!(parse_tls_record_header),
        e1!(parse_tls_plaintext),
        e1!(parse_tls_encrypted),
        e1!(parse_tls_raw_record),
        #[allow(deprecated)]
        e1!(tls_parser),
        e1!(tls_parser_many),
        ("parse_tls_record_with_header", |i, a| ep(i, |i| parse_tls_record_with_header(i, &a.tls_hdr))),
        ed!(TlsRecordType::parse),
        e1!(TlsRecordHeader::parse),
        // messages
        e1!(parse_tls_message_changecipherspec),
        e1!(parse_tls_message_alert),
        e1!(parse_tls_message_applicationdata),
        ("parse_tls_message_heartbeat", |i, a| ep(i, |i| parse_tls_message_heartbeat(i, a.len16))),
        e1!(parse_tls_message_handshake),
        // handshake bodies
        e1!(parse_tls_handshake_msg_hello_request),
        e1!(parse_tls_handshake_client_hello),
        e1!(parse_tls_handshake_msg_client_hello),
        e1!(parse_tls_handshake_server_hello),
        e1!(parse_tls_handshake_msg_server_hello),
        el!(parse_tls_handshake_msg_newsessionticket),
        e1!(parse_tls_handshake_msg_hello_retry_request),
        e1!(parse_tls_handshake_msg_certificate),
        el!(parse_tls_handshake_msg_serverkeyexchange),
        el!(parse_tls_handshake_msg_serverdone),
        el!(parse_tls_handshake_msg_certificateverify),
        el!(parse_tls_handshake_msg_clientkeyexchange),
        e1!(parse_tls_handshake_certificaterequest),
        e1!(parse_tls_handshake_msg_certificaterequest),
        el!(parse_tls_handshake_msg_finished),
        e1!(parse_tls_handshake_certificatestatus),
        e1!(parse_tls_handshake_msg_certificatestatus),
        e1!(parse_tls_handshake_next_protocol),
        e1!(parse_tls_handshake_msg_next_protocol),
        e1!(parse_tls_handshake_msg_key_update),
        ed!(TlsHandshakeType::parse),
        ed!(TlsVersion::parse),
        ed!(TlsHeartbeatMessageType::parse),
        ed!(TlsCompressionID::parse),
        ed!(TlsCipherSuiteID::parse),
        // alerts
        ed!(TlsAlertSeverity::parse),
        ed!(TlsAlertDescription::parse),
        e1!(TlsMessageAlert::parse),
        // extensions
        e1!(parse_tls_extension_sni_hostname),
        e1!(parse_tls_extension_sni_content),
        e1!(parse_tls_extension_sni),
        e1!(parse_tls_extension_max_fragment_length_content),
        e1!(parse_tls_extension_max_fragment_length),
        e1!(parse_tls_extension_status_request),
        e1!(parse_tls_extension_elliptic_curves_content),
        e1!(parse_tls_extension_elliptic_curves),
        e1!(parse_tls_extension_ec_point_formats_content),
        e1!(parse_tls_extension_ec_point_formats),
        e1!(parse_tls_extension_signature_algorithms_content),
        e1!(parse_tls_extension_signature_algorithms),
        e1!(parse_tls_extension_heartbeat_content),
        e1!(parse_tls_extension_heartbeat),
        e1!(parse_tls_extension_alpn_content),
        e1!(parse_tls_extension_signed_certificate_timestamp_content),
        e1!(parse_tls_extension_encrypt_then_mac),
        e1!(parse_tls_extension_extended_master_secret),
        e1!(parse_tls_extension_session_ticket),
        e1!(parse_tls_extension_key_share),
        e1!(parse_tls_extension_pre_shared_key),
        e1!(parse_tls_extension_early_data),
        e1!(parse_tls_extension_supported_versions),
        e1!(parse_tls_extension_cookie),
        e1!(parse_tls_extension_psk_key_exchange_modes_content),
        e1!(parse_tls_extension_psk_key_exchange_modes),
        e1!(parse_tls_extension_renegotiation_info_content),
        e1!(parse_tls_extension_encrypted_server_name),
        e1!(parse_tls_extension_unknown),
        e1!(parse_tls_client_hello_extension),
        e1!(parse_tls_server_hello_extension),
        e1!(parse_tls_extension),
        e1!(parse_tls_client_hello_extensions),
        e1!(parse_tls_server_hello_extensions),
        e1!(parse_tls_extensions),
        ed!(TlsExtensionType::parse),
        e1!(PskKeyExchangeMode::parse),
        ed!(SNIType::parse),
        ed!(CertificateStatusType::parse),
        // DTLS
        e1!(parse_dtls_record_header),
        e1!(parse_dtls_message_handshake),
        e1!(parse_dtls_message_changecipherspec),
        e1!(parse_dtls_message_alert),
        ("parse_dtls_record_with_header", |i, a| ep(i, |i| parse_dtls_record_with_header(i, &a.dtls_hdr))),
        e1!(parse_dtls_plaintext_record),
        e1!(parse_dtls_plaintext_records),
        // key exchange, signatures
        e1!(parse_dh_params),
        e1!(ServerDHParams::parse),
        e1!(parse_named_groups),
        e1!(parse_ec_parameters),
        e1!(parse_ecdh_params),
        ed!(NamedGroup::parse),
        e1!(ECCurve::parse),
        ("ECCurveType::parse", |i, _a| {
            let (r, parse) = alloc::measure(|| ECCurveType::parse(i));
            let cls = classify(&r);
            let (_s, fmt) = alloc::measure(|| match &r {
                Ok((rem, v)) => format!("{:?}{}", rem, v).len(),
                Err(e) => format!("{:?}", e).len(),
            });
            EpOut { parse, fmt, cls }
        }),
        e1!(ECPoint::parse),
        e1!(ExplicitPrimeContent::parse),
        ("ECParametersContent::parse", |i, a| ep(i, |i| ECParametersContent::parse(i, ECCurveType(a.curve_type)))),
        e1!(ECParameters::parse),
        e1!(ServerECDHParams::parse),
        e1!(parse_digitally_signed_old),
        e1!(parse_digitally_signed),
        ("parse_content_and_signature(dh)", |i, a| ep(i, |i| parse_content_and_signature(i, parse_dh_params, a.flag))),
        ("parse_content_and_signature(ecdh)", |i, a| ep(i, |i| parse_content_and_signature(i, parse_ecdh_params, a.flag))),
        ("parse_content_and_signature(ec)", |i, a| ep(i, |i| parse_content_and_signature(i, parse_ec_parameters, !a.flag))),
        ed!(HashAlgorithm::parse),
        ed!(SignAlgorithm::parse),
        ed!(SignatureAndHashAlgorithm::parse),
        ed!(SignatureScheme::parse),
        // certificate transparency
        e1!(parse_ct_signed_certificate_timestamp),
        e1!(parse_ct_signed_certificate_timestamp_list),
        ed!(CtVersion::parse),
    ]
}

pub fn asset_files() -> &'static Vec<Vec<u8>> {
    static A: std::sync::OnceLock<Vec<Vec<u8>>> = std::sync::OnceLock::new();
    A.get_or_init(|| {
        let dir = format!("{}/assets", std::env::var("VERIF_REPO").unwrap_or_else(|_| "/repo".into()));
        let mut names: Vec<_> = std::fs::read_dir(&dir).map(|d| d.filter_map(|e| e.ok()).map(|e| e.path()).collect()).unwrap_or_default();
        names.sort();
        names.iter().filter_map(|p| std::fs::read(p).ok()).collect()
    })
}

/// an encoder output of any family
pub fn gen_structured(t: &mut Tape) -> Enc {
    let mut e = Enc::new();
    match t.below(16) {
        0 | 1 => gen_record(t).encode(&mut e),
        2 => gen_dtls_record(t).encode(&mut e),
        3 => gen_hs(t, 400).encode(&mut e),
        4 => gen_hs(t, 400).encode_body(&mut e),
        5 => gen_dtls_hs(t, 300).encode(&mut e),
        6 => gen_ext(t, 300).encode(&mut e),
        7 => gen_ext(t, 300).encode_content(&mut e),
        8 => e = encode_ext_list(&gen_ext_list(t, 10, 3000)),
        9 => e = encode_sct_list(&gen_sct_list(t)),
        10 => gen_sct(t, 300).encode(&mut e),
        11 => {
            let d = MDh { p: t.small_blob(200), g: t.small_blob(4), ys: t.small_blob(200) };
            d.encode(&mut e);
            if t.bool() {
                let wa = t.bool();
                gen_signed(t, wa).encode(&mut e);
            }
        }
        12 => {
            gen_ecdh(t).encode(&mut e);
            if t.bool() {
                let wa = t.bool();
                gen_signed(t, wa).encode(&mut e);
            }
        }
        13 => gen_ec_params(t).encode(&mut e),
        14 => {
            // several records
            for _ in 0..1 + t.below(4) {
                gen_record(t).encode(&mut e);
            }
        }
        _ => {
            for _ in 0..1 + t.below(3) {
                gen_dtls_record(t).encode(&mut e);
            }
        }
    }
    e
}

fn dense(t: &mut Tape) -> Vec<u8> {
    let mut e = Enc::new();
    let n = [200usize, 4000, 16640][t.below(3)];
    match t.below(8) {
        0 => MRecord { ctype: 0x14, version: 0x0303, msgs: vec![MMsg::Ccs; n], padding: vec![] }.encode(&mut e),
        1 => MRecord { ctype: 0x15, version: 0x0303, msgs: vec![MMsg::Alert(1, 0); n / 2], padding: vec![] }.encode(&mut e),
        2 => MRecord { ctype: 0x16, version: 0x0303, msgs: vec![MMsg::Hs(MHs::HelloRequest); n / 4], padding: vec![] }.encode(&mut e),
        3 => MHs::Certificate { chain: vec![vec![]; n] }.encode(&mut e),
        4 => e = encode_ext_list(&vec![MExt::Unknown(0x1234, vec![]); n.min(16000)]),
        5 => MExt::Sni(vec![(0, vec![]); n.min(21000)]).encode(&mut e),
        6 => MHs::ClientHello { version: 0x0303, random: vec![0; 32], sid: None, ciphers: vec![0x1301; n.min(32767) * 2 - 1], comp: vec![0; 255], ext: None }.encode(&mut e),
        _ => {
            // a DTLS datagram full of minimal handshake fragments
            let m = MDtlsHs { msg_type: 1, length: 100, message_seq: 0, fragment_offset: 1, fragment_length: 0, body: MDtlsBody::Fragment(vec![]) };
            MDtlsRecord { ctype: 0x16, version: 0xfefd, epoch: 0, seq: 0, msgs: vec![MDtlsMsg::Hs(m); n / 12] }.encode(&mut e);
        }
    }
    e.buf
}

pub fn corrupt(t: &mut Tape, e: &Enc) -> Vec<u8> {
    let mut b = e.buf.clone();
    let n = t.below(4);
    for _ in 0..n {
        match t.below(6) {
            0 | 1 if !e.lens.is_empty() => {
                let lf = &e.lens[t.below(e.lens.len())];
                if lf.off + lf.width <= b.len() {
                    let max = (1u64 << (8 * lf.width)) - 1;
                    let v = match t.below(6) {
                        0 => 0,
                        1 => 1,
                        2 => (lf.value as u64).saturating_sub(1),
                        3 => (lf.value as u64 + 1).min(max),
                        4 => max,
                        _ => t.u32() as u64 & max,
                    };
                    set_be(&mut b[lf.off..lf.off + lf.width], v);
                }
            }
            2 => {
                let c = t.below(b.len() + 1);
                b.truncate(c);
            }
            3 if !b.is_empty() => {
                let i = t.below(b.len());
                b[i] = t.u8();
            }
            4 if !b.is_empty() => {
                let i = t.below(b.len());
                b[i] ^= 1 << t.below(8);
            }
            _ => {
                let x = t.small_blob(20);
                let at = t.below(b.len() + 1);
                let tail = b.split_off(at);
                b.extend(x);
                b.extend(tail);
            }
        }
    }
    b
}

/// structure headers with small / boundary length values and a body whose size need not match: the places where a
/// `len - k`, an emptiness check or a missing confinement shows
fn edge_headers(t: &mut Tape) -> Vec<u8> {
    let mut e = Enc::new();
    let small = |t: &mut Tape| -> usize {
        match t.below(4) {
            0 => t.below(6),
            1 => t.pick(&[0usize, 1, 2, 3, 4, 5, 31, 32, 33, 255, 256]),
            _ => t.below(40),
        }
    };
    match t.below(5) {
        0 | 1 => {
            // extension: known or arbitrary type, declared length and body drawn independently
            let ty = if t.chance(220) { KNOWN_EXT_TYPES[t.below(KNOWN_EXT_TYPES.len())] } else { t.u16b() };
            e.u16(ty);
            e.u16(small(t) as u16);
            let n = small(t);
            let body = t.bytes(n);
            e.bytes(&body);
        }
        2 => {
            let ty = if t.chance(220) { t.pick(&[0u8, 1, 2, 4, 5, 6, 11, 12, 13, 14, 15, 16, 20, 22, 24, 67]) } else { t.u8() };
            e.u8(ty);
            e.u24(small(t) as u32);
            let n = small(t);
            let body = t.bytes(n);
            e.bytes(&body);
        }
        3 => {
            e.u8(t.pick(&[0x14u8, 0x15, 0x16, 0x17, 0x18]));
            e.u16(0x0303);
            e.u16(small(t) as u16);
            let n = small(t);
            let body = t.bytes(n);
            e.bytes(&body);
        }
        _ => {
            // DTLS handshake header
            e.u8(t.pick(&[1u8, 2, 3, 11, 14, 16]));
            e.u24(small(t) as u32);
            e.u16(t.u16b());
            e.u24(if t.bool() { 0 } else { small(t) as u32 });
            e.u24(small(t) as u32);
            let n = small(t);
            let body = t.bytes(n);
            e.bytes(&body);
        }
    }
    e.buf
}

/// extensions whose names are long valid UTF-8 text (the Debug impls decode them), wrapped as the entry points expect
fn utf8_names(t: &mut Tape) -> Vec<u8> {
    let m = if t.bool() {
        let n = 1 + t.below(3);
        MExt::Sni((0..n).map(|_| (0u8, t.utf8_text(700))).collect())
    } else {
        let n = 1 + t.below(4);
        MExt::Alpn((0..n).map(|_| t.utf8_text(255)).collect())
    };
    let mut e = Enc::new();
    match t.below(3) {
        0 => m.encode(&mut e),
        1 => m.encode_content(&mut e),
        _ => {
            // inside a ClientHello inside a record
            let ext = m.to_bytes();
            let ch = MHs::ClientHello { version: 0x0303, random: t.bytes(32), sid: None, ciphers: vec![0x1301], comp: vec![0], ext: Some(ext) };
            MRecord { ctype: 0x16, version: 0x0301, msgs: vec![MMsg::Hs(ch)], padding: vec![] }.encode(&mut e);
        }
    }
    e.buf
}

/// structures whose length fields hold the last representable values WITH the announced bytes present (so that arithmetic on
/// the length - `3 + len`, `len + 2`, `len * 8` - is reached with its largest operands)
fn maxed(t: &mut Tape) -> Vec<u8> {
    let mut e = Enc::new();
    let top16 = |t: &mut Tape| t.pick(&[65535usize, 65534, 65533, 65532, 65531, 65536 - 49, 32768, 32767]);
    match t.below(9) {
        0 => {
            // heartbeat message: type, u16 payload length, payload (+ padding)
            let n = top16(t).min(65535);
            e.u8(1);
            e.u16(n as u16);
            e.bytes(&vec![0x11u8; n]);
            e.bytes(&t.small_blob(20));
        }
        1 => MDh { p: vec![1; top16(t).min(65535)], g: vec![2], ys: vec![3; t.pick(&[0usize, 65535, 65534])] }.encode(&mut e),
        2 => MSigned { alg: if t.bool() { Some((4, 3)) } else { None }, data: vec![9; top16(t).min(65535)] }.encode(&mut e),
        3 => MExt::Unknown(t.pick(&[0x1234u16, 35, 21, 41, 44, 51]), vec![0; top16(t).min(65535)]).encode(&mut e),
        4 => {
            let l = vec![MSct { version: 0, id: vec![7; 32], timestamp: 1, extensions: vec![5; top16(t).min(65535 - 49 - 8)], hash: 4, sign: 3, alg_present: true, signature: vec![1; 8] }];
            e = encode_sct_list(&l);
        }
        5 => {
            // handshake message with a body just around 2^16 (and the 24-bit maximum announced but absent)
            let n = t.pick(&[65535usize, 65536, 65537, 70000]);
            e.u8(t.pick(&[12u8, 16, 20, 15, 4, 11]));
            e.u24(n as u32);
            e.bytes(&vec![0x22u8; n]);
        }
        6 => {
            e.u8(0x17);
            e.u16(0x0303);
            let n = t.pick(&[16640usize, 16639, 16384]);
            e.u16(n as u16);
            e.bytes(&vec![0x33u8; n]);
            e.bytes(&vec![0x44u8; t.pick(&[0usize, 65536 - 5, 65536, 70000])]);
        }
        7 => {
            // DTLS record at the cap followed by 64 KiB
            e.u8(0x15);
            e.u16(0xfefd);
            e.u16(1);
            e.u48(2);
            e.u16(2);
            e.bytes(&[1, 0]);
            e.bytes(&vec![0x55u8; t.pick(&[65534usize, 65535, 65536, 70000])]);
        }
        _ => {
            // EC / ECDH with 255-byte fields, ALPN / point-format vectors at 255
            MEcdh { params: MEcParams::ExplicitPrime { p: vec![1; 255], a: vec![2; 255], b: vec![3; 255], base: vec![4; 255], order: vec![5; 255], cofactor: vec![6; 255] }, public: vec![7; 255] }.encode(&mut e);
        }
    }
    e.buf
}

/// hellos in the TLS 1.3 shape - the place where "feature work" lands: ServerHello with the HelloRetryRequest marker or a downgrade
/// sentinel as random, legacy version 0x0303, and a block holding supported_versions in each of its encodings (incl. the empty
/// list), key_share, cookie, pre_shared_key; ClientHello with the same kind of block. As a message, a body, or inside a record;
/// half of them corrupted afterwards.
pub fn tls13_hellos(t: &mut Tape) -> Vec<u8> {
    let ext = gen_tls13_server_ext(t);
    let random = match t.below(4) {
        0 | 1 => HRR_RANDOM.to_vec(),
        2 => {
            let mut r = t.bytes(32);
            r[24..].copy_from_slice(if t.bool() { b"DOWNGRD\x01" } else { b"DOWNGRD\x00" });
            r
        }
        _ => t.bytes(32),
    };
    let sid = if t.bool() { Some(t.bytes(32)) } else { None };
    let h = if t.chance(190) {
        MHs::ServerHello { version: t.pick(&[0x0303u16, 0x0303, 0x0303, 0x0302, 0x0301]), random, sid, cipher: gen_cipher_id(t), comp: 0, ext: Some(ext) }
    } else {
        MHs::ClientHello { version: 0x0303, random, sid, ciphers: vec![0x1301, 0x1302, gen_cipher_id(t)], comp: vec![0], ext: Some(ext) }
    };
    let mut e = Enc::new();
    match t.below(6) {
        // the extension block on its own (the extension parsers decode and print what the hello parsers keep opaque)
        4 | 5 => {
            if let MHs::ServerHello { ext: Some(x), .. } | MHs::ClientHello { ext: Some(x), .. } = &h {
                e.bytes(x);
            }
        }
        0 => h.encode_body(&mut e),
        1 => {
            let m = h.to_bytes();
            e.u8(0x16);
            e.u16(t.pick(&[0x0303u16, 0x0301]));
            e.vec(2, "rec.len", &m);
        }
        _ => h.encode(&mut e),
    }
    if t.bool() {
        e.buf
    } else {
        corrupt(t, &e)
    }
}

fn gen_input(t: &mut Tape) -> (String, Vec<u8>) {
    match t.weighted(&[4, 1, 10, 1, 4, 2, 1, 2, 1]) {
        8 => {
            // SSLv2-compatible ClientHello bytes, alone or followed by ordinary records
            let (mut b, _) = gen_sslv2_hello(t);
            if t.bool() {
                b.extend(gen_record(t).to_bytes());
            }
            ("sslv2-hello".into(), b)
        }
        7 => ("tls13-hellos".into(), tls13_hellos(t)),
        4 => ("edge-headers".into(), edge_headers(t)),
        5 => ("utf8-names".into(), utf8_names(t)),
        6 => ("maxed".into(), maxed(t)),
        0 => {
            let n = match t.below(3) {
                0 => t.below(16),
                1 => t.below(71),
                _ => t.pick(&[0usize, 1, 2, 3, 4, 5, 6, 9, 12, 13, 14, 38, 39, 43]),
            };
            ("soup".into(), (0..n).map(|_| t.u8()).collect())
        }
        1 => {
            let n = t.pick(&[300usize, 16640 + 5, 16641 + 5, 40_000, 65_541, 70_000]);
            let mut b = t.bytes(n);
            if t.bool() && n >= 5 {
                // make it look like a record whose length covers everything
                b[0] = t.pick(&[0x14u8, 0x15, 0x16, 0x17, 0x18]);
                let l = (n - 5).min(65535);
                b[3] = (l >> 8) as u8;
                b[4] = l as u8;
            }
            ("long-soup".into(), b)
        }
        2 => {
            let e = gen_structured(t);
            ("structured".into(), corrupt(t, &e))
        }
        _ => ("dense".into(), dense(t)),
    }
}

fn run_all(input: &[u8], t: &mut Tape, obs: &mut Obs, sub: &str) -> Result<bool, Fail> {
    let k = k_factor();
    let parse_bound = 64 * 1024 + k * input.len();
    let fmt_bound = 64 * 1024 + 1024 * input.len();
    let mut past_first = false;
    for (name, f) in entries() {
        let args = gen_args(t, input.len());
        obs.evals_add(1);
        let out = guard(name, || f(input, &args))?;
        if out.cls != Cls::Incomplete {
            past_first = true;
        }
        ensure!(
            out.parse.peak <= parse_bound && out.parse.total <= parse_bound,
            format!("C01:{}:alloc:{}", sub, name),
            "{}: heap use while parsing a {}-byte input: peak {} bytes, total requested {} bytes (largest request {}), bound 64 KiB + {}*len = {} (len arg {}): {}",
            name, input.len(), out.parse.peak, out.parse.total, out.parse.largest, k, parse_bound, args.len, hex_short(input)
        );
        ensure!(
            out.fmt.peak <= fmt_bound && out.fmt.total <= 4 * fmt_bound,
            format!("C01:{}:alloc-format:{}", sub, name),
            "{}: heap use while formatting the result of a {}-byte input: peak {} total {}, bound {}", name, input.len(), out.fmt.peak, out.fmt.total, fmt_bound
        );
    }
    Ok(past_first)
}

fn entry_points(t: &mut Tape, obs: &mut Obs) -> R {
    let (label, input) = gen_input(t);
    alloc::inflight_set("C01", "entry_points_raw", &input);
    obs.sample_class(&label, || json!({"family": label, "len": input.len(), "hex": hex_short(&input)}));
    let r = run_all(&input, t, obs, "entry");
    alloc::inflight_clear();
    if r? {
        obs.nontrivial(fnv64(&input));
    }
    Ok(())
}

/// parameter tape: [kind (0 extension, 1 handshake, 2 record), type index, declared length, body size, fill pattern]
fn edge_matrix(t: &mut Tape, obs: &mut Obs) -> R {
    let kind = t.u8();
    let ti = t.u8() as usize;
    let len = t.u8() as usize;
    let n = t.u8() as usize;
    let pat = t.u8();
    let body: Vec<u8> = (0..n).map(|i| match pat { 0 => 0u8, 1 => 0xff, _ => (i as u8).wrapping_mul(37).wrapping_add(1) }).collect();
    let mut e = Enc::new();
    match kind {
        0 => {
            let ty = KNOWN_EXT_TYPES.get(ti).copied().unwrap_or([0x0a0au16, 0x1234, 2, 0xffff][ti.saturating_sub(KNOWN_EXT_TYPES.len()) % 4]);
            e.u16(ty);
            e.u16(len as u16);
        }
        1 => {
            let known = [0u8, 1, 2, 4, 5, 6, 11, 12, 13, 14, 15, 16, 20, 22, 24, 67];
            e.u8(known.get(ti).copied().unwrap_or([3u8, 8, 0xfe][ti.saturating_sub(16) % 3]));
            e.u24(len as u32);
        }
        _ => {
            e.u8([0x14u8, 0x15, 0x16, 0x17, 0x18, 0x19, 0x00][ti % 7]);
            e.u16(0x0303);
            e.u16(len as u16);
        }
    }
    e.bytes(&body);
    let input = e.buf;
    let argbytes = vmodel::tape::fill(fnv64(&input) | 1, 1024);
    let mut at = Tape::new(&argbytes);
    alloc::inflight_set("C01", "entry_points_raw", &input);
    let r = run_all(&input, &mut at, obs, "edge");
    alloc::inflight_clear();
    if r? {
        obs.nontrivial(fnv64(&input));
    }
    if obs.wants_sample() && len != n && n > 0 {
        obs.sample(json!({"family": "edge_matrix", "hex": hex_short(&input)}));
    }
    Ok(())
}

/// the tape itself is the input (pure byte soup under proptest; the coverage-guided target of the libFuzzer campaign);
/// extra arguments come from a tape expanded from the input's hash
fn entry_points_raw(t: &mut Tape, obs: &mut Obs) -> R {
    let mut input = Vec::new();
    while !t.exhausted() {
        input.push(t.u8());
    }
    let argbytes = vmodel::tape::fill(fnv64(&input) | 1, 1024);
    let mut at = Tape::new(&argbytes);
    alloc::inflight_set("C01", "entry_points_raw", &input);
    let r = run_all(&input, &mut at, obs, "entry");
    alloc::inflight_clear();
    if r? {
        obs.nontrivial(fnv64(&input));
        obs.sample(json!({"family": "raw", "len": input.len(), "hex": hex_short(&input)}));
    }
    Ok(())
}

/// parameter tape: [file index, prefix_hi, prefix_lo]
fn assets(t: &mut Tape, obs: &mut Obs) -> R {
    let fi = t.u8() as usize;
    let l = t.u16() as usize;
    let files = asset_files();
    let f = match files.get(fi) {
        Some(f) => f,
        None => return Ok(()),
    };
    let input = &f[..l.min(f.len())];
    if run_all(input, t, obs, "assets")? {
        obs.nontrivial((fi as u64) << 32 | l as u64);
    }
    if l == f.len() {
        obs.sample(json!({"asset": fi, "len": l, "hex": hex_short(input)}));
    }
    Ok(())
}

fn run_history(ops: &[Op], obs: &mut Obs) -> R {
    let k = k_factor();
    let mut p = TlsRecordsParser::default();
    let mut fed = 0usize;
    let mut retained: isize = 0;
    let mut trace = String::new();
    let mut in_progress_calls = 0;
    for op in ops {
        let rec = match op {
            Op::Reset => {
                let (r, st) = alloc::measure(|| guard("reset", || p.reset()));
                r?;
                retained += st.net;
                continue;
            }
            Op::Parse(r) | Op::NoCopy(r) => r,
        };
        if p.defrag_in_progress() {
            in_progress_calls += 1;
        }
        fed += rec.data.len();
        let nocopy = matches!(op, Op::NoCopy(_));
        obs.evals_add(1);
        let (st, fst) = guard("TlsRecordsParser", || {
            let (r, st) = alloc::measure(|| if nocopy { p.parse_record_nocopy(rec.raw()) } else { p.parse_record(rec.raw()) });
            // formatted while still borrowed from the parser
            let (_, fst) = alloc::measure(|| format!("{:?}", r).len());
            (st, fst)
        })?;
        // Debug of the parser itself prints the whole buffer: done while it is small, and once at the end
        let small = p.verif_defrag_buffer().len() <= 64 * 1024;
        let (_, dst) = if small { alloc::measure(|| format!("{:?}", p).len()) } else { (0usize, Stats::default()) };
        // per call: a linear function of this record plus the documented 10 MiB buffer (x3: growing a Vec holds the old and the doubled new block)
        let bound = 64 * 1024 + 3 * 10 * 1024 * 1024 + (k + 2) * rec.data.len();
        ensure!(st.peak <= bound && st.total <= 2 * bound, "C01:history:alloc", "{} after [{}]: peak {} total {} bytes, bound 64 KiB + 3 x 10 MiB + {} x record length = {} ({} bytes fed so far)", op_label(op), trunc(&trace), st.peak, st.total, k + 2, bound, fed);
        // across calls: what the parser keeps allocated stays within twice its documented buffer (capacity doubling)
        retained += st.net;
        ensure!(retained <= (64 * 1024 + 2 * 10 * 1024 * 1024) as isize, "C01:history:retained", "{}: the parser retains {} bytes of heap after {} bytes were fed (documented buffer: 10 MiB)", op_label(op), retained, fed);
        let fbound = 64 * 1024 + 1024 * (fed + 1);
        ensure!(fst.peak <= fbound + 60 * 1024 * 1024 && dst.peak <= 64 * 1024 + 8 * (10 * 1024 * 1024 + fed), "C01:history:alloc-format", "{}: formatting used {} / {} bytes", op_label(op), fst.peak, dst.peak);
        if trace.len() < 300 {
            trace.push_str(&op_label(op));
            trace.push(' ');
        }
    }
    let (_, dst) = alloc::measure(|| format!("{:?}", p).len());
    ensure!(dst.peak <= 64 * 1024 + 16 * (10 * 1024 * 1024 + fed), "C01:history:alloc-format", "formatting the parser used {} bytes", dst.peak);
    if in_progress_calls > 0 {
        obs.nontrivial(fnv64(trace.as_bytes()) ^ ops.len() as u64);
        obs.sample(json!({"ops": ops.len(), "calls_while_defragmenting": in_progress_calls, "bytes_fed": fed, "heap_retained_by_parser": retained, "history": trunc(&trace)}));
    }
    obs.class(&format!("in_progress_calls={}", in_progress_calls.min(9)));
    Ok(())
}

fn histories(t: &mut Tape, obs: &mut Obs) -> R {
    let mut ops = gen_ops(t, 40);
    // arbitrary records too: corrupted payloads, unknown types, inconsistent headers
    for _ in 0..t.below(6) {
        let e = gen_structured(t);
        let data = corrupt(t, &e);
        let mut r = super::c07::Rec::new(if t.bool() { t.pick(&[0x16u8, 0x18, 0x17, 0x15, 0x14]) } else { t.u8() }, t.u16b(), data);
        if t.chance(60) {
            r.len = t.u16b();
        }
        let at = t.below(ops.len() + 1);
        ops.insert(at, if t.chance(200) { Op::Parse(r) } else { Op::NoCopy(r) });
    }
    alloc::inflight_set("C01", "histories_raw", &[]);
    let r = run_history(&ops, obs);
    alloc::inflight_clear();
    r
}

/// parameter tape: [mode, n_hi, n_mid, n_lo]: mode / 2 = fragment shape (0 empty, 1 one byte, 2 alternating), mode % 2 = content type
fn tiny_fragment_streams(t: &mut Tape, obs: &mut Obs) -> R {
    let mode = t.u8() as usize % 6;
    let n = (t.u8() as usize) << 16 | (t.u8() as usize) << 8 | t.u8() as usize;
    let (shape, ctype) = (mode / 2, if mode % 2 == 0 { 0x16u8 } else { 0x18 });
    let first: Vec<u8> = if ctype == 0x16 { vec![11, 0xff, 0xff, 0xff] } else { vec![1, 0xff, 0xff] };
    let mut p = TlsRecordsParser::default();
    let k = k_factor();
    let mut fed = 0usize;
    let mut worst = 0usize;
    let empty: Vec<u8> = vec![];
    let one = vec![0x3c_u8];
    for i in 0..=n {
        let data: &[u8] = if i == 0 {
            &first
        } else {
            match shape {
                0 => &empty,
                1 => &one,
                _ => if i % 2 == 0 { &empty } else { &one },
            }
        };
        fed += data.len();
        let rec = super::c07::Rec::new(ctype, 0x0303, data.to_vec());
        obs.evals_add(1);
        let st = guard("TlsRecordsParser::parse_record", || alloc::measure(|| p.parse_record(rec.raw()).map(|(r, m)| (r.len(), m.len())).map_err(|e| e.map(|x| x.code))).1)?;
        worst = worst.max(st.peak);
        let bound = 64 * 1024 + 3 * (fed + 1024) + (k + 2) * data.len();
        ensure!(st.peak <= bound, "C01:history:alloc", "fragment {} of a stream of tiny fragments: peak {} bytes with {} bytes fed (bound {})", i, st.peak, fed, bound);
        if i % 4096 == 0 {
            alloc::progress();
        }
    }
    obs.nontrivial(mode as u64 ^ (n as u64) << 8);
    let shape_name = ["empty", "one byte", "alternating"][shape];
    obs.sample(json!({"content_type": ctype, "fragment_shape": shape_name, "fragments": n, "bytes_fed": fed, "largest_peak_in_a_call": worst, "buffered_at_the_end": p.verif_defrag_buffer().len()}));
    Ok(())
}

const OVERSIZE_LENS: [usize; 8] = [MAX_DEFRAG - 2, MAX_DEFRAG - 1, MAX_DEFRAG, MAX_DEFRAG + 1, MAX_DEFRAG + 2, MAX_DEFRAG + 4096, MAX_DEFRAG - 16640, (1 << 24) - 1];
const MAX_DEFRAG: usize = 10 * 1024 * 1024;

/// a first fragment of about 10 MiB, then a few more calls: whatever the size of the stored first fragment, every later call returns
fn oversize_histories(t: &mut Tape, obs: &mut Obs) -> R {
    let n = OVERSIZE_LENS[t.u8() as usize % OVERSIZE_LENS.len()];
    let ctype = t.pick(&[0x16u8, 0x16, 0x18]);
    let mut data = vec![0x2e; n];
    if ctype == 0x16 {
        data[..4].copy_from_slice(&[11, 0xff, 0xff, 0xff]);
    } else {
        data[..3].copy_from_slice(&[1, 0xff, 0xff]);
    }
    let mut ops = vec![Op::Parse(super::c07::Rec::new(ctype, 0x0303, data))];
    for _ in 0..1 + t.below(12) {
        let sz = match t.below(6) {
            0 => 0,
            1 => 1,
            2 => 16640,
            3 => 16384,
            _ => t.below(2000),
        };
        let r = super::c07::Rec::new(if t.chance(40) { t.pick(&[0x17u8, 0x15, 0x18, 0x16]) } else { ctype }, 0x0303, vec![0x2f; sz]);
        ops.push(match t.below(12) {
            0 => Op::NoCopy(r),
            1 if t.chance(60) => Op::Reset,
            _ => Op::Parse(r),
        });
    }
    run_history(&ops, obs)
}

/// long streams (up to 1600 records of up to 16 KiB = 25 MiB fed): reach the 10 MiB cap with content that never completes
fn long_histories(t: &mut Tape, obs: &mut Obs) -> R {
    let mode = t.u8() as usize % 4;
    let n = [300usize, 700, 1500, 1600][mode] + t.below(100);
    // the two longest classes are handshake streams (a heartbeat stream completes after 64 KiB)
    let ctype = if mode >= 2 { 0x16 } else { t.pick(&[0x16u8, 0x18, 0x16]) };
    let mut ops = Vec::new();
    let mut first = Enc::new();
    if ctype == 0x16 {
        first.u8(11);
        first.u24(0xff_ffff);
    } else {
        first.u8(1);
        first.u16(0xffff);
    }
    ops.push(Op::Parse(super::c07::Rec::new(ctype, 0x0303, first.buf)));
    for i in 0..n {
        let sz = if t.chance(200) { 16640 } else { t.below(16641) };
        let r = super::c07::Rec::new(if t.chance(6) { 0x17 } else { ctype }, 0x0303, vec![(i & 0xff) as u8; sz]);
        // resets are rare (about one per 5000 records): the point of these streams is to run into the size limit
        ops.push(match t.below(20) {
            0 => Op::NoCopy(r),
            1 if mode != 2 && t.chance(1) => Op::Reset,
            _ => Op::Parse(r),
        });
    }
    run_history(&ops, obs)
}
