//! C09 Serializer output parses back to the same value with consistent lengths.

use super::PropDef;
use crate::conv;
use crate::core::*;
use crate::mk;
use cookie_factory::gen_simple;
use serde_json::json;
use tls_parser::*;
use vmodel::model::*;
use vmodel::tape::Tape;
use vmodel::wire::{fnv64, hex_short, Enc};

pub const DEF: PropDef = PropDef {
    id: "C09",
    title: "Serializer output parses back to the same value with consistent lengths",
    rule: "messages = ClientHello / ServerHello (TLS 1.0-1.2, SSLv3 without extensions, TLS 1.3 draft-18 form) / ClientKeyExchange (opaque, DH 0..65535, ECDH 0..255) / Finished / \
           HelloRequest / ChangeCipherSpec values from the model generators (random exactly 32 bytes, session id none or 1..32, 0..32767 ciphers, 0..255 compressions, extension \
           block none or 0..65535 bytes, any version): serialize() must succeed, its bytes must equal the harness's RFC encoder (so every length field equals what it prefixes), \
           parse back to the value (absent extension block -> empty one; DH/ECDH -> opaque body) consuming everything, and re-serialize to the same bytes; records = 1..6 such \
           messages of one content type within 16640 bytes, and records obtained by parsing generated valid records; extensions = SNI / max-fragment-length / supported-groups \
           values and lists through gen_tls_extension(s) and the extension parsers; unsupported = every other handshake variant, alert / application data / heartbeat messages, \
           every other extension, and records or lists containing one: GenError::NotYetImplemented; writers = the same records and extension lists through cookie_factory::gen \
           into a Vec, into byte slices and cursors of every capacity around the full length (and sampled smaller ones) and into a writer that accepts a few bytes per call: \
           Ok only with exactly the reference bytes written and the reported position equal to their number (also for two records in a row), otherwise an error. Non-trivial = a supported value with a non-empty variable field, or an \
           unsupported one; distinct by hash of the model value.",
    assumptions: &["the harness's RFC encoder (vmodel) is the reference for the emitted bytes; an absent extension block is emitted as a zero length (as the statement describes)", "built with the crate's `serialize` feature"],
    run,
};

pub const SUBS: &[SubDef] = &[
    SubDef { prop: "C09", name: "messages", oracle: messages },
    SubDef { prop: "C09", name: "records", oracle: records },
    SubDef { prop: "C09", name: "extensions", oracle: extensions },
    SubDef { prop: "C09", name: "unsupported", oracle: unsupported },
    SubDef { prop: "C09", name: "hand_built_records", oracle: hand_built_records },
    SubDef { prop: "C09", name: "writers", oracle: writers },
];

fn run(ctx: &Ctx) {
    ctx.run_tape("messages", messages, ctx.pick(100_000, 500_000), 500);
    ctx.run_tape("records", records, ctx.pick(50_000, 250_000), 1200);
    ctx.run_tape("extensions", extensions, ctx.pick(50_000, 250_000), 400);
    ctx.run_tape("unsupported", unsupported, ctx.pick(40_000, 200_000), 300);
    ctx.run_tape("hand_built_records", hand_built_records, ctx.pick(60_000, 400_000), 300);
    ctx.run_tape("writers", writers, ctx.pick(6_000, 60_000), 700);
}

/// a serializable handshake value
fn gen_supported(t: &mut Tape, budget: usize) -> MHs {
    match t.below(7) {
        0 | 1 => gen_hs_kind(t, 1, budget),
        2 => {
            let mut h = gen_hs_kind(t, 2, budget);
            if let MHs::ServerHello { version, ext, .. } = &mut h {
                if *version == 0x0300 {
                    *ext = None;
                }
            }
            h
        }
        3 => gen_hs_kind(t, 3, budget),
        4 => MHs::ClientKeyExchange(t.blob(budget.min(65535))),
        5 => MHs::Finished(t.blob(budget.min(4096))),
        _ => MHs::HelloRequest,
    }
}

/// what the reference encoder must produce for the serializer's conventions: an absent extension block is written as length 0
fn reference_bytes(h: &MHs) -> Vec<u8> {
    let mut x = h.clone();
    match &mut x {
        MHs::ClientHello { ext, .. } | MHs::ServerHello { ext, .. } | MHs::ServerHelloD18 { ext, .. } => {
            if ext.is_none() {
                *ext = Some(vec![]);
            }
        }
        _ => {}
    }
    x.to_bytes()
}

/// the value a parser returns for the serialized form
fn reread(h: &MHs) -> MHs {
    let mut x = h.clone();
    match &mut x {
        MHs::ServerHello { version, ext, .. } => {
            if *version == 0x0300 {
                *ext = None;
            } else if ext.is_none() {
                *ext = Some(vec![]);
            }
        }
        MHs::ClientHello { ext, .. } | MHs::ServerHelloD18 { ext, .. } => {
            if ext.is_none() {
                *ext = Some(vec![]);
            }
        }
        _ => {}
    }
    x
}

fn ser_msg(m: &TlsMessage) -> Result<Result<Vec<u8>, String>, Fail> {
    guard("TlsMessage::serialize", || m.serialize().map_err(|e| format!("{:?}", e)))
}

fn check_hs_roundtrip(h: &MHs, crate_val: &TlsMessageHandshake, what: &str) -> R {
    let bytes = match guard("TlsMessageHandshake::serialize", || crate_val.serialize().map_err(|e| format!("{:?}", e)))? {
        Ok(b) => b,
        Err(e) => return fail(format!("C09:{}:serialize-failed", what), format!("{}: serialize() of a supported value failed with {}: {}", what, e, trunc(&format!("{:?}", h)))),
    };
    let want = reference_bytes(h);
    ensure!(bytes == want, format!("C09:{}:bytes", what), "{}: serialized bytes differ from the RFC encoding (a length field does not match what it prefixes, or a field is misplaced): got {} expected {}", what, hex_short(&bytes), hex_short(&want));
    // via the TlsMessage wrapper too
    let via_msg = ser_msg(&TlsMessage::Handshake(crate_val.clone()))?;
    ensure!(via_msg.as_ref().ok() == Some(&bytes), format!("C09:{}:message-wrapper", what), "{}: TlsMessage::serialize differs from TlsMessageHandshake::serialize", what);
    let parsed = guard("parse_tls_message_handshake", || match parse_tls_message_handshake(&bytes) {
        Ok((rem, TlsMessage::Handshake(m))) => {
            let re = m.serialize().map_err(|e| format!("{:?}", e));
            Ok((rem.len(), conv::hs(&m), re))
        }
        Ok((_, o)) => Err(format!("{:?}", o)),
        Err(e) => Err(format!("{:?}", e.map(|x| x.code))),
    })?;
    match parsed {
        Ok((rl, m, re)) => {
            ensure!(rl == 0, format!("C09:{}:not-consumed", what), "{}: parsing the serialized bytes left {} bytes", what, rl);
            ensure!(m == reread(h), format!("C09:{}:roundtrip", what), "{}: parsing the serialized bytes gives {} expected {}", what, trunc(&format!("{:?}", m)), trunc(&format!("{:?}", reread(h))));
            ensure!(re.as_ref().ok() == Some(&bytes), format!("C09:{}:reserialize", what), "{}: re-serializing the parsed value does not reproduce the bytes: {:?}", what, re.map(|b| hex_short(&b)));
        }
        Err(e) => return fail(format!("C09:{}:unparsable", what), format!("{}: the serialized bytes cannot be parsed back ({}): {}", what, e, hex_short(&bytes))),
    }
    Ok(())
}

fn messages(t: &mut Tape, obs: &mut Obs) -> R {
    let budget = if t.chance(30) { 60000 } else { 300 };
    match t.below(10) {
        0 => {
            // ChangeCipherSpec message
            obs.class("ChangeCipherSpec");
            obs.nontrivial(1);
            let b = match ser_msg(&TlsMessage::ChangeCipherSpec)? {
                Ok(b) => b,
                Err(e) => return fail("C09:ccs:serialize-failed", format!("ChangeCipherSpec: {}", e)),
            };
            obs.sample(json!({"message": "ChangeCipherSpec", "bytes": hex_short(&b)}));
            ensure!(b == vec![1u8], "C09:ccs:bytes", "ChangeCipherSpec message serialized as {} (RFC 5246 7.1: a single byte of value 1)", hex_short(&b));
            let ok = guard("parse_tls_message_changecipherspec", || matches!(parse_tls_message_changecipherspec(&b), Ok((r, TlsMessage::ChangeCipherSpec)) if r.is_empty()))?;
            ensure!(ok, "C09:ccs:roundtrip", "serialized ChangeCipherSpec {} does not parse back", hex_short(&b));
            Ok(())
        }
        1 | 2 => {
            // DH / ECDH ClientKeyExchange (constructed values; they re-read as the opaque body)
            let dh = t.bool();
            let data = if dh { t.blob(65535.min(budget)) } else { t.blob(255) };
            let (val, body): (TlsClientKeyExchangeContents, Vec<u8>) = if dh {
                let mut e = Enc::new();
                e.vec(2, "dh", &data);
                (TlsClientKeyExchangeContents::Dh(&data), e.buf)
            } else {
                let mut e = Enc::new();
                e.vec(1, "ecdh", &data);
                (TlsClientKeyExchangeContents::Ecdh(ECPoint { point: &data }), e.buf)
            };
            obs.class(if dh { "ClientKeyExchange:Dh" } else { "ClientKeyExchange:Ecdh" });
            obs.nontrivial(fnv64(&body) ^ dh as u64);
            obs.sample(json!({"message": if dh { "ClientKeyExchange(Dh)" } else { "ClientKeyExchange(Ecdh)" }, "public_value_len": data.len()}));
            let h = MHs::ClientKeyExchange(body);
            check_hs_roundtrip(&h, &TlsMessageHandshake::ClientKeyExchange(val), if dh { "cke-dh" } else { "cke-ecdh" })
        }
        3 if t.chance(40) => {
            // values at the wire limits: bodies beyond 16 bits
            let h = match t.below(3) {
                0 => MHs::ClientHello { version: t.u16b(), random: t.bytes(32), sid: Some(t.bytes(32)), ciphers: { let raw = t.bytes(2 * 32767); raw.chunks(2).map(|c| (c[0] as u16) << 8 | c[1] as u16).collect() }, comp: t.bytes(255), ext: Some(t.bytes(65535)) },
                1 => { let n = 65536 + t.below(40000); MHs::ClientKeyExchange(t.bytes(n)) }
                _ => MHs::ServerHello { version: 0x0303, random: t.bytes(32), sid: Some(t.bytes(32)), cipher: t.u16(), comp: t.u8(), ext: Some(t.bytes(65535)) },
            };
            obs.nontrivial(fnv64(format!("{:?}", h).as_bytes()));
            obs.class("at-wire-limits");
            check_hs_roundtrip(&h, &mk::hs(&h), h.kind_name())
        }
        _ => {
            let h = gen_supported(t, budget);
            if h.has_nonempty_var() {
                obs.nontrivial(fnv64(format!("{:?}", h).as_bytes()));
            }
            obs.sample_class(h.kind_name(), || json!({"message": trunc(&format!("{:?}", h))}));
            check_hs_roundtrip(&h, &mk::hs(&h), h.kind_name())
        }
    }
}

fn records(t: &mut Tape, obs: &mut Obs) -> R {
    let version = gen_version(t);
    let from_parse = t.chance(80);
    let (ctype, msgs): (u8, Vec<MMsg>) = if t.chance(50) {
        (0x14, vec![MMsg::Ccs; 1 + t.count(RECORD_CAP - 1)])
    } else if t.chance(6) {
        // thousands of minimal handshake messages (HelloRequest is the only 4-byte serializable message)
        (0x16, vec![MMsg::Hs(MHs::HelloRequest); 1 + t.count(RECORD_CAP / 4 - 1)])
    } else {
        let n = 1 + t.small(5);
        let mut v = Vec::new();
        let mut left = RECORD_CAP;
        for _ in 0..n {
            let b = if t.chance(30) { left.saturating_sub(800) } else { left.saturating_sub(800).min(300) };
            let h = gen_supported(t, b);
            let l = reference_bytes(&h).len();
            if l > left {
                break;
            }
            left -= l;
            v.push(MMsg::Hs(h));
        }
        if v.is_empty() {
            v.push(MMsg::Hs(MHs::HelloRequest));
        }
        (0x16, v)
    };
    let mut payload = Vec::new();
    for m in &msgs {
        match m {
            MMsg::Hs(h) => payload.extend(reference_bytes(h)),
            _ => payload.push(1),
        }
    }
    let mut want = Enc::new();
    want.u8(ctype);
    want.u16(version);
    want.vec(2, "rec.len", &payload);
    let want = want.buf;
    if msgs.len() >= 2 || payload.len() > 64 {
        obs.nontrivial(fnv64(&want));
    }
    obs.sample_class(&format!("{}:{}", if ctype == 0x14 { "ccs" } else { "handshake" }, if from_parse { "parsed-value" } else { "constructed" }), || json!({"content_type": ctype, "messages": msgs.len(), "payload": payload.len(), "hex": hex_short(&want)}));
    let crate_msgs: Vec<TlsMessage> = msgs.iter().map(mk::msg).collect();
    let bytes: Result<Vec<u8>, String> = if from_parse {
        // value obtained by parsing a valid record (the reference encoding itself)
        guard("parse + serialize", || match parse_tls_plaintext(&want) {
            Ok((_, p)) => p.serialize().map_err(|e| format!("{:?}", e)),
            Err(e) => Err(format!("reference record rejected: {:?}", e.map(|x| x.code))),
        })?
    } else {
        let p = TlsPlaintext { hdr: TlsRecordHeader { record_type: TlsRecordType(ctype), version: TlsVersion(version), len: t.u16() }, msg: crate_msgs };
        guard("TlsPlaintext::serialize", || p.serialize().map_err(|e| format!("{:?}", e)))?
    };
    let bytes = match bytes {
        Ok(b) => b,
        Err(e) => return fail("C09:record:serialize-failed", format!("serialize() of a record of {} supported message(s) failed: {}", msgs.len(), e)),
    };
    ensure!(bytes == want, "C09:record:bytes", "record bytes differ from the RFC encoding (record length must be the size of the concatenated messages): got {} expected {}", hex_short(&bytes), hex_short(&want));
    let back = guard("parse_tls_plaintext", || match parse_tls_plaintext(&bytes) {
        Ok((rem, p)) => Ok((rem.len(), (p.hdr.record_type.0, p.hdr.version.0, p.hdr.len), conv::msgs(&p.msg), p.serialize().map_err(|e| format!("{:?}", e)))),
        Err(e) => Err(format!("{:?}", e.map(|x| x.code))),
    })?;
    match back {
        Ok((rl, hdr, m, re)) => {
            let exp: Vec<MMsg> = msgs.iter().map(|m| match m { MMsg::Hs(h) => MMsg::Hs(reread(h)), x => x.clone() }).collect();
            ensure!(rl == 0 && hdr == (ctype, version, payload.len() as u16), "C09:record:header", "re-read header {:?}, {} bytes left", hdr, rl);
            ensure!(m == exp, "C09:record:roundtrip", "re-read messages differ: {} expected {}", trunc(&format!("{:?}", m)), trunc(&format!("{:?}", exp)));
            ensure!(re.as_ref().ok() == Some(&bytes), "C09:record:reserialize", "re-serializing the parsed record does not reproduce the bytes");
        }
        Err(e) => return fail("C09:record:unparsable", format!("serialized record cannot be parsed back ({}): {}", e, hex_short(&bytes))),
    }
    Ok(())
}

/// Records built by hand whose header does not describe their messages: any content type over any mix of ChangeCipherSpec, supported
/// handshake messages and unsupported messages, with a stale header length that happens to equal the message count, the payload size,
/// 0, 1, 2 or anything. The serializer writes the header's type and version, then the u16 size of the concatenated message encodings
/// and those encodings - or NotYetImplemented as soon as one message is unsupported; the stale length and the type never matter.
fn hand_built_records(t: &mut Tape, obs: &mut Obs) -> R {
    let n = 1 + t.below(4);
    let msgs: Vec<MMsg> = (0..n)
        .map(|_| match t.weighted(&[5, 4, 1, 1]) {
            0 => MMsg::Ccs,
            1 => MMsg::Hs(if t.bool() { MHs::HelloRequest } else { gen_supported(t, 120) }),
            2 => MMsg::Alert(t.u8(), t.u8()),
            _ => MMsg::AppData(t.small_blob(8)),
        })
        .collect();
    let supported = msgs.iter().all(|m| matches!(m, MMsg::Ccs | MMsg::Hs(_)));
    let mut payload = Vec::new();
    for m in &msgs {
        match m {
            MMsg::Hs(h) => payload.extend(reference_bytes(h)),
            _ => payload.push(1),
        }
    }
    let ctype = t.pick(&[0x14u8, 0x14, 0x16, 0x16, 0x15, 0x17, 0x18, 0x00]);
    let version = gen_version(t);
    let stale = match t.below(7) {
        0 => msgs.len() as u16,
        1 => payload.len() as u16,
        2 => 0,
        3 => 1,
        4 => 2,
        5 => msgs.iter().filter(|m| matches!(m, MMsg::Ccs)).count() as u16,
        _ => t.u16(),
    };
    let crate_msgs: Vec<TlsMessage> = msgs.iter().map(mk::msg).collect();
    let p = TlsPlaintext { hdr: TlsRecordHeader { record_type: TlsRecordType(ctype), version: TlsVersion(version), len: stale }, msg: crate_msgs };
    let got = guard("TlsPlaintext::serialize", || p.serialize())?;
    let mixed = msgs.iter().any(|m| matches!(m, MMsg::Ccs)) && msgs.iter().any(|m| !matches!(m, MMsg::Ccs));
    if mixed || stale as usize == msgs.len() {
        obs.nontrivial(fnv64(format!("{:?}{}{}", msgs, ctype, stale).as_bytes()));
    }
    let label = format!("type={:#04x}:{}:{}", ctype, if supported { "supported" } else { "with-unsupported" }, if stale as usize == msgs.len() { "len=count" } else { "len=other" });
    obs.sample_class(&label, || json!({"header_type": ctype, "stale_len": stale, "messages": trunc(&format!("{:?}", msgs))}));
    if supported {
        let mut want = Enc::new();
        want.u8(ctype);
        want.u16(version);
        want.vec(2, "rec.len", &payload);
        match got {
            Ok(b) => ensure!(b == want.buf, "C09:hand-built:bytes", "header type {:#04x}, stale length {}, messages {}: got {} expected {} (the u16 must be the size of the concatenated message encodings)", ctype, stale, trunc(&format!("{:?}", msgs)), hex_short(&b), hex_short(&want.buf)),
            Err(e) => return fail("C09:hand-built:failed", format!("header type {:#04x}, stale length {}, supported messages {}: {:?}", ctype, stale, trunc(&format!("{:?}", msgs)), e)),
        }
    } else {
        ensure!(matches!(got, Err(GenError::NotYetImplemented)), "C09:hand-built:unsupported", "header type {:#04x}, stale length {}, messages {} (one unsupported): expected NotYetImplemented, got {:?}", ctype, stale, trunc(&format!("{:?}", msgs)), got.map(|b| hex_short(&b)));
    }
    Ok(())
}

/// a writer that takes at most `step` bytes per call (legal for io::Write) and at most `cap` in total
struct Trickle {
    got: Vec<u8>,
    step: usize,
    cap: usize,
}
impl std::io::Write for Trickle {
    fn write(&mut self, b: &[u8]) -> std::io::Result<usize> {
        let n = b.len().min(self.step).min(self.cap - self.got.len());
        self.got.extend_from_slice(&b[..n]);
        Ok(n)
    }
    fn flush(&mut self) -> std::io::Result<()> {
        Ok(())
    }
}

/// the serializers through cookie_factory::gen with destinations other than an unbounded Vec
fn writers(t: &mut Tape, obs: &mut Obs) -> R {
    use cookie_factory::gen;
    let version = gen_version(t);
    let which = t.below(3);
    // the value, its reference bytes, and a closure-free way to serialize it into any writer
    let msgs: Vec<MMsg> = if which == 0 { vec![MMsg::Ccs; 1 + t.small(4)] } else { (0..1 + t.small(3)).map(|_| MMsg::Hs(gen_supported(t, 200))).collect() };
    let exts: Vec<MExt> = (0..t.small(5)).map(|_| gen_ser_ext(t)).collect();
    let crate_msgs: Vec<TlsMessage> = msgs.iter().map(mk::msg).collect();
    let crate_exts: Vec<TlsExtension> = exts.iter().map(mk_ext).collect();
    let rec = TlsPlaintext { hdr: TlsRecordHeader { record_type: TlsRecordType(if which == 0 { 0x14 } else { 0x16 }), version: TlsVersion(version), len: t.u16() }, msg: crate_msgs };
    let is_rec = which != 2;
    let want: Vec<u8> = if is_rec {
        let mut payload = Vec::new();
        for m in &msgs {
            match m {
                MMsg::Hs(h) => payload.extend(reference_bytes(h)),
                _ => payload.push(1),
            }
        }
        let mut e = Enc::new();
        e.u8(rec.hdr.record_type.0);
        e.u16(version);
        e.vec(2, "rec.len", &payload);
        e.buf
    } else {
        // the block as gen_simple writes it into an unbounded Vec (checked against the parsers by the `extensions` sub-check)
        match guard("gen_tls_extensions", || gen_simple(gen_tls_extensions(&crate_exts), Vec::new()).ok())? {
            Some(b) => b,
            None => return Ok(()),
        }
    };
    let full = want.len();
    let what = if is_rec { "gen_tls_plaintext" } else { "gen_tls_extensions" };
    obs.nontrivial(fnv64(&want));
    obs.sample_class(what, || json!({"serializer": what, "full_length": full, "hex": hex_short(&want)}));
    // 1. Vec: bytes and position
    let r = guard(what, || if is_rec { gen(gen_tls_plaintext(&rec), Vec::new()) } else { gen(gen_tls_extensions(&crate_exts), Vec::new()) }.map_err(|e| format!("{:?}", e)))?;
    match r {
        Ok((v, pos)) => {
            ensure!(v == want, format!("C09:writers:{}:vec-bytes", what), "{} into a Vec: bytes differ from the RFC encoding: got {} expected {}", what, hex_short(&v), hex_short(&want));
            ensure!(pos as usize == full, format!("C09:writers:{}:position", what), "{} into a Vec: {} bytes were produced but the reported position is {}", what, full, pos);
        }
        Err(e) => return fail(format!("C09:writers:{}:vec-failed", what), format!("{} into a Vec failed: {}", what, e)),
    }
    // 2. two in a row: the position adds up
    if is_rec {
        let r = guard(what, || gen(cookie_factory::sequence::tuple((gen_tls_plaintext(&rec), gen_tls_plaintext(&rec))), Vec::new()).map_err(|e| format!("{:?}", e)))?;
        match r {
            Ok((v, pos)) => ensure!(v.len() == 2 * full && pos as usize == 2 * full && v[..full] == want[..] && v[full..] == want[..], format!("C09:writers:{}:two-in-a-row", what), "two records in a row: {} bytes produced, position {}, expected {} each", v.len(), pos, full),
            Err(e) => return fail(format!("C09:writers:{}:two-in-a-row", what), format!("two records in a row failed: {}", e)),
        }
    }
    // 3. byte slices and cursors of bounded capacity
    let mut caps: Vec<usize> = vec![0, 1, 2, 4, 5, 6, full.saturating_sub(2), full.saturating_sub(1), full, full + 1, full + 3];
    for _ in 0..6 {
        caps.push(t.below(full + 1));
    }
    for cap in caps {
        for cursor in [false, true] {
            obs.evals_add(1);
            let mut buf = vec![0xEEu8; cap];
            let r: Result<(usize, u64), String> = guard(what, || {
                if cursor {
                    let c = std::io::Cursor::new(&mut buf[..]);
                    if is_rec { gen(gen_tls_plaintext(&rec), c) } else { gen(gen_tls_extensions(&crate_exts), c) }.map(|(c, pos)| (c.position() as usize, pos)).map_err(|e| format!("{:?}", e))
                } else {
                    let s = &mut buf[..];
                    if is_rec { gen(gen_tls_plaintext(&rec), s) } else { gen(gen_tls_extensions(&crate_exts), s) }.map(|(rest, pos)| (cap - rest.len(), pos)).map_err(|e| format!("{:?}", e))
                }
            })?;
            let dest = if cursor { "cursor" } else { "slice" };
            match r {
                Ok((written, pos)) => {
                    ensure!(cap >= full, format!("C09:writers:{}:short-buffer-accepted", what), "{} into a {} of {} bytes succeeded although the value needs {} bytes: a length field announces bytes that were not written (written {}, position {})", what, dest, cap, full, written, pos);
                    ensure!(written == full && pos as usize == full && buf[..full] == want[..], format!("C09:writers:{}:bounded-bytes", what), "{} into a {} of {} bytes: written {}, position {}, expected {} bytes equal to the RFC encoding", what, dest, cap, written, pos, full);
                }
                Err(e) => ensure!(cap < full, format!("C09:writers:{}:large-buffer-refused", what), "{} into a {} of {} bytes (the value needs {}) failed: {}", what, dest, cap, full, e),
            }
        }
    }
    // 5. one serializer value used more than once (cookie-factory's retry idiom: a failed attempt into a buffer that is too small, then
    // the same closure again into a larger one): every successful use writes the whole value, whatever happened before
    {
        use cookie_factory::SerializeFn;
        fn reuse<F: SerializeFn<Trickle>>(f: &F, want: &[u8], what: &str) -> R {
            // one writer type for every use (a serializer value is tied to its writer type): a bounded one first, then unbounded ones
            let small = want.len().saturating_sub(1).min(7);
            let first = guard(what, || gen(f, Trickle { got: Vec::new(), step: usize::MAX, cap: small }).map(|(w, p)| (w.got.len(), p)).map_err(|e| format!("{:?}", e)))?;
            ensure!(first.is_err() || want.len() <= small, format!("C09:writers:{}:short-buffer-accepted", what), "{} into a writer that takes {} bytes succeeded although the value needs {} bytes", what, small, want.len());
            for round in 0..2 {
                let again = guard(what, || gen(f, Trickle { got: Vec::new(), step: usize::MAX, cap: usize::MAX }).map(|(w, p)| (w.got, p)).map_err(|e| format!("{:?}", e)))?;
                match again {
                    Ok((v, pos)) => ensure!(v == want && pos as usize == want.len(), format!("C09:writers:{}:reuse", what), "{}: use number {} of one serializer value (after a failed attempt into a writer that takes {} bytes) wrote {} bytes {} (position {}), expected the {} bytes {}", what, round + 2, small, v.len(), hex_short(&v), pos, want.len(), hex_short(want)),
                    Err(e) => return fail(format!("C09:writers:{}:reuse", what), format!("{}: use number {} of one serializer value failed: {}", what, round + 2, e)),
                }
            }
            Ok(())
        }
        if is_rec {
            let ser = gen_tls_plaintext(&rec);
            reuse(&ser, &want, "gen_tls_plaintext")?;
            for (k, m) in rec.msg.iter().enumerate() {
                if let MMsg::Hs(h) = &msgs[k] {
                    let wm = reference_bytes(h);
                    let sm = gen_tls_message(m);
                    reuse(&sm, &wm, "gen_tls_message")?;
                    match m {
                        TlsMessage::Handshake(TlsMessageHandshake::ClientHello(c)) => reuse(&gen_tls_clienthello(c), &wm, "gen_tls_clienthello")?,
                        TlsMessage::Handshake(TlsMessageHandshake::ServerHello(c)) => reuse(&gen_tls_serverhello(c), &wm, "gen_tls_serverhello")?,
                        TlsMessage::Handshake(TlsMessageHandshake::ServerHelloV13Draft18(c)) => reuse(&gen_tls_serverhellodraft18(c), &wm, "gen_tls_serverhellodraft18")?,
                        TlsMessage::Handshake(TlsMessageHandshake::Finished(c)) => reuse(&gen_tls_finished(c), &wm, "gen_tls_finished")?,
                        TlsMessage::Handshake(TlsMessageHandshake::ClientKeyExchange(c)) => reuse(&gen_tls_clientkeyexchange(c), &wm, "gen_tls_clientkeyexchange")?,
                        _ => {}
                    }
                }
            }
        } else {
            let ser = gen_tls_extensions(&crate_exts);
            reuse(&ser, &want, "gen_tls_extensions")?;
        }
    }
    // 4. a writer that accepts a few bytes per call: an error, or everything
    let step = 1 + t.below(7);
    let r = guard(what, || {
        let w = Trickle { got: Vec::new(), step, cap: usize::MAX };
        if is_rec { gen(gen_tls_plaintext(&rec), w) } else { gen(gen_tls_extensions(&crate_exts), w) }.map(|(w, pos)| (w.got, pos)).map_err(|e| format!("{:?}", e))
    })?;
    if let Ok((got, pos)) = r {
        ensure!(got == want && pos as usize == full, format!("C09:writers:{}:short-writes", what), "{} into a writer taking {} byte(s) per call reported success with {} of {} bytes written (position {})", what, step, got.len(), full, pos);
    }
    Ok(())
}

fn gen_ser_ext(t: &mut Tape) -> MExt {
    if t.chance(4) {
        // extension data at and just below the largest representable size (65535 bytes)
        return match t.below(3) {
            0 => MExt::Sni(vec![(0, vec![b'a'; t.pick(&[65530usize, 65529, 65528])])]),
            1 => {
                // 6553 seven-byte names + one filler name: list of exactly 65533 bytes -> extension data 65535
                let mut l: Vec<(u8, Vec<u8>)> = (0..6553).map(|_| (0u8, vec![b'x'; 7])).collect();
                l.push((0, vec![]));
                MExt::Sni(l)
            }
            _ => MExt::EllipticCurves((0..t.pick(&[32766usize, 32765])).map(|i| i as u16).collect()),
        };
    }
    match t.below(3) {
        0 => {
            let n = t.small(6);
            // names: arbitrary bytes, or the shapes real peers (and misconfigured ones) send - DNS names, IPv4 / IPv6 literals, trailing
            // dot, upper case, punycode (vmodel::HOST_NAMES)
            MExt::Sni((0..n).map(|_| (if t.chance(200) { 0 } else { t.u8() }, if t.chance(110) { HOST_NAMES[t.below(HOST_NAMES.len())].as_bytes().to_vec() } else { t.small_blob(300) })).collect())
        }
        1 => MExt::MaxFragmentLength(t.u8()),
        _ => {
            let n = t.small(200);
            MExt::EllipticCurves((0..n).map(|_| t.u16b()).collect())
        }
    }
}

fn mk_ext(m: &MExt) -> TlsExtension<'_> {
    match m {
        MExt::Sni(l) => TlsExtension::SNI(l.iter().map(|(t, n)| (SNIType(*t), n.as_slice())).collect()),
        MExt::MaxFragmentLength(v) => TlsExtension::MaxFragmentLength(*v),
        MExt::EllipticCurves(l) => TlsExtension::EllipticCurves(l.iter().map(|g| NamedGroup(*g)).collect()),
        MExt::Padding(p) => TlsExtension::Padding(p),
        MExt::Heartbeat(v) => TlsExtension::Heartbeat(*v),
        MExt::EncryptThenMac => TlsExtension::EncryptThenMac,
        MExt::SessionTicket(p) => TlsExtension::SessionTicket(p),
        MExt::SignatureAlgorithms(l) => TlsExtension::SignatureAlgorithms(l.clone()),
        MExt::Unknown(t, d) => TlsExtension::Unknown(TlsExtensionType(*t), d),
        MExt::Grease(t, d) => TlsExtension::Grease(*t, d),
        MExt::KeyShare(d) => TlsExtension::KeyShare(d),
        MExt::RecordSizeLimit(v) => TlsExtension::RecordSizeLimit(*v),
        MExt::ExtendedMasterSecret => TlsExtension::ExtendedMasterSecret,
        _ => TlsExtension::PostHandshakeAuth,
    }
}

fn extensions(t: &mut Tape, obs: &mut Obs) -> R {
    let n = t.small(6);
    let l: Vec<MExt> = (0..n).map(|_| gen_ser_ext(t)).collect();
    let crate_l: Vec<TlsExtension> = l.iter().map(mk_ext).collect();
    obs.nontrivial(fnv64(format!("{:?}", l).as_bytes()));
    obs.class(&format!("n={}", n));
    obs.sample(json!({"extensions": l.iter().map(|x| trunc(&format!("{:?}", x))).collect::<Vec<_>>()}));
    // single extensions
    for (m, c) in l.iter().zip(crate_l.iter()) {
        let b = match guard("gen_tls_extension", || gen_simple(gen_tls_extension(c), Vec::new()).map_err(|e| format!("{:?}", e)))? {
            Ok(b) => b,
            Err(e) => return fail(format!("C09:ext:{}:serialize-failed", m.name()), format!("gen_tls_extension failed for {:?}: {}", m, e)),
        };
        // outer type and length are exact
        ensure!(b.len() >= 4 && (b[0] as u16) << 8 | b[1] as u16 == m.wire_type() && ((b[2] as usize) << 8 | b[3] as usize) == b.len() - 4, format!("C09:ext:{}:framing", m.name()), "{}: type/length header does not match the body: {}", m.name(), hex_short(&b));
        let back = guard("parse_tls_extension", || match parse_tls_extension(&b) {
            Ok((rem, e)) => Ok((rem.len(), conv::ext(&e), gen_simple(gen_tls_extension(&e), Vec::new()).map_err(|x| format!("{:?}", x)))),
            Err(e) => Err(format!("{:?}", e.map(|x| x.code))),
        })?;
        match back {
            Ok((rl, v, re)) => {
                ensure!(rl == 0 && v == *m, format!("C09:ext:{}:roundtrip", m.name()), "{}: re-read {} ({} bytes left), expected {}", m.name(), trunc(&format!("{:?}", v)), rl, trunc(&format!("{:?}", m)));
                ensure!(re.as_ref().ok() == Some(&b), format!("C09:ext:{}:reserialize", m.name()), "{}: re-serialization differs", m.name());
            }
            Err(e) => return fail(format!("C09:ext:{}:unparsable", m.name()), format!("{}: serialized extension cannot be parsed ({}): {}", m.name(), e, hex_short(&b))),
        }
    }
    // the list: u16 total length, then the extensions
    let total: usize = l.iter().map(|m| {
        let c = mk_ext(m);
        gen_simple(gen_tls_extension(&c), Vec::new()).map(|b| b.len()).unwrap_or(0)
    }).sum();
    if total > 65535 {
        return Ok(());
    }
    let b = match guard("gen_tls_extensions", || gen_simple(gen_tls_extensions(&crate_l), Vec::new()).map_err(|e| format!("{:?}", e)))? {
        Ok(b) => b,
        Err(e) => return fail("C09:extlist:serialize-failed", format!("gen_tls_extensions failed: {}", e)),
    };
    ensure!(b.len() >= 2 && ((b[0] as usize) << 8 | b[1] as usize) == b.len() - 2, "C09:extlist:length", "extension block length field {} does not match the {} bytes that follow", (b[0] as usize) << 8 | b[1] as usize, b.len() - 2);
    let back = guard("parse_tls_extensions", || match parse_tls_extensions(&b[2..]) {
        Ok((rem, v)) => Ok((rem.len(), conv::exts(&v))),
        Err(e) => Err(format!("{:?}", e.map(|x| x.code))),
    })?;
    match back {
        Ok((rl, v)) => ensure!(rl == 0 && v == l, "C09:extlist:roundtrip", "re-read list {} expected {}", trunc(&format!("{:?}", v)), trunc(&format!("{:?}", l))),
        Err(e) => return fail("C09:extlist:unparsable", format!("serialized extension block cannot be parsed: {}", e)),
    }
    Ok(())
}

fn unsupported(t: &mut Tape, obs: &mut Obs) -> R {
    let is_nyi = |r: &Result<Vec<u8>, GenError>| matches!(r, Err(GenError::NotYetImplemented));
    match t.below(5) {
        0 => {
            // handshake variants the serializer does not know
            let k = t.pick(&[4usize, 5, 6, 7, 8, 9, 10, 11, 14, 15, 16]);
            let h = gen_hs_kind(t, k, 200);
            obs.nontrivial(fnv64(format!("{:?}", h).as_bytes()));
            obs.sample_class(&format!("handshake:{}", h.kind_name()), || json!({"unsupported": trunc(&format!("{:?}", h))}));
            let c = mk::hs(&h);
            let r = guard("serialize", || c.serialize())?;
            ensure!(is_nyi(&r), format!("C09:unsupported:handshake:{}", h.kind_name()), "{}: the serializer does not support this variant and must answer NotYetImplemented, got {:?}", h.kind_name(), r.map(|b| hex_short(&b)));
            let r = guard("serialize", || TlsMessage::Handshake(c.clone()).serialize())?;
            ensure!(is_nyi(&r), format!("C09:unsupported:message:{}", h.kind_name()), "{} wrapped in TlsMessage: expected NotYetImplemented", h.kind_name());
            // and a record containing it, after a supported message
            let good = MHs::Finished(vec![1, 2, 3]);
            let p = TlsPlaintext { hdr: TlsRecordHeader { record_type: TlsRecordType::Handshake, version: TlsVersion(0x0303), len: 0 }, msg: vec![TlsMessage::Handshake(mk::hs(&good)), TlsMessage::Handshake(c)] };
            let r = guard("serialize", || p.serialize())?;
            ensure!(is_nyi(&r), format!("C09:unsupported:record:{}", h.kind_name()), "a record containing {} must not be presented as valid bytes: {:?}", h.kind_name(), r.map(|b| hex_short(&b)));
        }
        1 => {
            let m = match t.below(3) {
                0 => MMsg::Alert(t.u8(), t.u8()),
                1 => MMsg::AppData(t.small_blob(40)),
                _ => { let p = t.small_blob(30); MMsg::Heartbeat { ty: t.u8(), payload_len: p.len() as u16, payload: p } },
            };
            obs.nontrivial(fnv64(format!("{:?}", m).as_bytes()));
            obs.sample_class(&format!("message:{}", format!("{:?}", m).split(|c: char| !c.is_alphanumeric()).next().unwrap_or("")), || json!({"unsupported": trunc(&format!("{:?}", m))}));
            let c = mk::msg(&m);
            let r = guard("serialize", || c.serialize())?;
            ensure!(is_nyi(&r), "C09:unsupported:message", "{:?}: expected NotYetImplemented, got {:?}", m, r.map(|b| hex_short(&b)));
            let p = TlsPlaintext { hdr: TlsRecordHeader { record_type: TlsRecordType(0x15), version: TlsVersion(0x0303), len: 0 }, msg: vec![c] };
            let r = guard("serialize", || p.serialize())?;
            ensure!(is_nyi(&r), "C09:unsupported:record-of-message", "a record of {:?} must answer NotYetImplemented", m);
        }
        _ => {
            // extensions other than the three supported ones
            let m = match t.below(12) {
                0 => MExt::Padding(t.small_blob(20)),
                1 => MExt::Heartbeat(t.u8()),
                2 => MExt::EncryptThenMac,
                3 => MExt::SessionTicket(t.small_blob(20)),
                4 => MExt::SignatureAlgorithms(vec![t.u16()]),
                5 => MExt::Unknown(0x1234, t.small_blob(10)),
                6 => MExt::Grease(0x0a0a, t.small_blob(4)),
                7 => MExt::KeyShare(t.small_blob(20)),
                8 => MExt::RecordSizeLimit(t.u16()),
                9 => MExt::ExtendedMasterSecret,
                _ => MExt::PostHandshakeAuth,
            };
            obs.nontrivial(fnv64(format!("{:?}", m).as_bytes()));
            obs.sample_class(&format!("extension:{}", m.name()), || json!({"unsupported": trunc(&format!("{:?}", m))}));
            let c = mk_ext(&m);
            let r = guard("gen_tls_extension", || gen_simple(gen_tls_extension(&c), Vec::new()))?;
            ensure!(is_nyi(&r), format!("C09:unsupported:extension:{}", m.name()), "{}: expected NotYetImplemented, got {:?}", m.name(), r.map(|b| hex_short(&b)));
            let good = MExt::MaxFragmentLength(2);
            let l = vec![mk_ext(&good), c];
            let r = guard("gen_tls_extensions", || gen_simple(gen_tls_extensions(&l), Vec::new()))?;
            ensure!(is_nyi(&r), format!("C09:unsupported:extension-list:{}", m.name()), "a list containing {} must answer NotYetImplemented, got {:?}", m.name(), r.map(|b| hex_short(&b)));
        }
    }
    Ok(())
}
