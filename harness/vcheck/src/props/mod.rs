//! Property registry.

use crate::core::*;

pub struct PropDef {
    pub id: &'static str,
    pub title: &'static str,
    pub rule: &'static str,
    pub assumptions: &'static [&'static str],
    pub run: fn(&Ctx),
}

macro_rules! props {
    ($($m:ident),* $(,)?) => {
        $(pub mod $m;)*
        pub const PROPS: &[PropDef] = &[$($m::DEF),*];
        pub fn subs() -> Vec<&'static SubDef> {
            let mut v: Vec<&'static SubDef> = Vec::new();
            $(v.extend($m::SUBS.iter());)*
            v
        }
    };
}

props!(c01, c02, c03, c04, c05, c06, c07, c08, c09, c10, c11, c12, c13, c14, c15, c16, c17, c18);

/// Seed corpora for the libFuzzer campaigns (written to `<dir>/<prop>-<sub>/`): the asset files and model encodings for the
/// raw targets, a few pseudo-random tapes for the tape targets. Deterministic in `seed`.
pub fn gen_corpus(dir: &str, seed: u64) {
    use vmodel::model::*;
    use vmodel::tape::{fill, Tape};
    let write = |sub: &str, i: usize, data: &[u8]| {
        let d = format!("{}/{}", dir, sub);
        let _ = std::fs::create_dir_all(&d);
        let _ = std::fs::write(format!("{}/seed-{:04}", d, i), data);
    };
    let assets = c01::asset_files().clone();
    for (i, a) in assets.iter().enumerate() {
        for sub in ["C01-entry_points_raw", "C02-frame_raw", "C03-differential_raw", "C16-many_raw"] {
            write(sub, 9000 + i, a);
        }
    }
    for i in 0..300usize {
        let tape = fill(seed ^ (0x5eed_0000 + i as u64), 600);
        let mut t = Tape::new(&tape);
        let mut b = c01::gen_structured(&mut t).buf;
        b.truncate(4096);
        write("C01-entry_points_raw", i, &b);
        let mut t = Tape::new(&tape);
        let mut r = gen_record(&mut t).to_bytes();
        r.truncate(2048);
        write("C02-frame_raw", i, &r);
        write("C03-differential_raw", i, &r);
        let mut many = r.clone();
        many.extend(gen_record(&mut t).to_bytes());
        many.truncate(4096);
        write("C16-many_raw", i, &many);
        let mut t = Tape::new(&tape);
        let mut d = gen_dtls_record(&mut t).to_bytes();
        d.truncate(2048);
        write("C10-frame_raw", i, &d);
        write("C16-many_raw", 1000 + i, &d);
        // locality_raw: [family selector, split selector, bytes]
        let mut t = Tape::new(&tape);
        let e = c01::gen_structured(&mut t);
        let mut l = vec![(i % 13) as u8, 200];
        l.extend(e.buf.iter().take(1024));
        write("C06-locality_raw", i, &l);
    }
    for sd in subs() {
        if sd.name.ends_with("_raw") || sd.name == "differential_case" {
            continue;
        }
        for i in 0..40usize {
            let n = 32 + 16 * (i % 20);
            write(&format!("{}-{}", sd.prop, sd.name), i, &fill(seed ^ vmodel::wire::fnv64(sd.name.as_bytes()) ^ i as u64, n));
        }
    }
}
