//! Property registry.

use crate::core::*;

pub struct PropDef {
    pub id: &'static str,
    pub title: &'static str,
    pub rule: &'static str,
    pub assumptions: &'static [&'static str],
    pub run: fn(&Ctx),
}

macro_rules! props {
    ($($m:ident),* $(,)?) => {
        $(pub mod $m;)*
        pub const PROPS: &[PropDef] = &[$($m::DEF),*];
        pub fn subs() -> Vec<&'static SubDef> {
            let mut v: Vec<&'static SubDef> = Vec::new();
            $(v.extend($m::SUBS.iter());)*
            v
        }
    };
}

props!(c01, c02, c03, c04, c05, c06, c07, c08, c09, c10, c11, c12, c13, c14, c15, c16, c17, c18);

pub fn gen_corpus(_dir: &str) {}
