//! C02 TLS record framing: exact header decode, length cap, streaming contract.

use super::PropDef;
use crate::core::*;
use serde_json::json;
use std::cell::RefCell;
use tls_parser::nom::error::ErrorKind;
use tls_parser::nom::{Err, Needed};
use tls_parser::*;
use vmodel::model::*;
use vmodel::tape::{fill, Tape};
use vmodel::wire::{hex_short, Enc};

pub const DEF: PropDef = PropDef {
    id: "C02",
    title: "TLS record framing: exact header decode, length cap, streaming contract",
    rule: "frame_exhaustive enumerates (content type, declared length 0..65535) x 3 parsers x 10 cut points over a pseudo-random payload; \
           frame_generated draws records from the model generators (valid messages of every content type, random payloads, any version) with \
           trailing bytes (none / random / another record) and cuts them at every prefix (<=300 bytes) or 64 sampled cuts plus the boundaries. \
           A case is non-trivial when the header is complete and the declared length is within the cap (framing is exercised); \
           distinct = distinct (parser, content type, declared length, position of the cut relative to the record end clamped to -2..+2).",
    assumptions: &[
        "header fields are decoded by hand in the harness (b[0], BE16(b[1..3]), BE16(b[3..5])) and compared with the parser's",
        "pointer identity of payload and remainder is checked with slice pointers of the caller's buffer",
    ],
    run,
};

pub const SUBS: &[SubDef] = &[
    SubDef { prop: "C02", name: "frame_exhaustive", oracle: frame_exhaustive },
    SubDef { prop: "C02", name: "frame_shapes", oracle: frame_shapes },
    SubDef { prop: "C02", name: "frame_generated", oracle: frame_generated },
    SubDef { prop: "C02", name: "frame_raw", oracle: frame_raw },
    SubDef { prop: "C02", name: "frame_foreign", oracle: frame_foreign },
];

fn run(ctx: &Ctx) {
    // content types: the five defined ones, neighbours, extremes, and 8 derived from the seed
    let mut types: Vec<u8> = vec![0x14, 0x15, 0x16, 0x17, 0x18, 0x00, 0x13, 0x19, 0xff];
    if ctx.tier == Tier::Thorough {
        types = (0..=255u8).collect();
    } else {
        let extra = fill(ctx.seed ^ 0xC02, 8);
        for b in extra {
            if !types.contains(&b) {
                types.push(b);
            }
        }
    }
    let step = 1usize;
    let cases = types.iter().flat_map(move |&t| (0..=65535u32).step_by(step).map(move |l| vec![t, (l >> 8) as u8, l as u8]));
    ctx.run_enum(
        "frame_exhaustive",
        frame_exhaustive,
        ctx.tier == Tier::Thorough,
        &format!("{} content types x all 65536 declared lengths x 3 parsers x 10 cut points", types.len()),
        cases,
    );
    // records whose first payload bytes are what a message of that content type starts with, alone and followed by a twin record:
    // the framing layer must not look at them (no merging of adjacent records, no read-ahead hints for long messages)
    let mut cases: Vec<Vec<u8>> = Vec::new();
    for ty in 0x14..=0x19u8 {
        for l in 0..=5u8 {
            for v in 0..6u8 {
                cases.push(vec![0, ty, l, v]);
            }
        }
    }
    for ht in [0u8, 1, 2, 4, 5, 6, 8, 11, 12, 13, 14, 15, 16, 20, 22, 24, 25, 67, 254] {
        for li in 0..6u8 {
            for di in 0..5u8 {
                cases.push(vec![1, ht, li, di]);
            }
        }
    }
    ctx.run_enum("frame_shapes", frame_shapes, false, "6 content types x payload lengths 0..5 x 6 payload starts, each alone and twice in a row; 19 handshake types x 6 record lengths x 5 declared message lengths; every cut near the boundaries", cases.into_iter());
    ctx.run_tape("frame_generated", frame_generated, ctx.pick(6_000, 400_000), 512);
    ctx.run_tape("frame_raw", frame_raw, ctx.pick(10_000, 400_000), 64);
    // what a TLS port also receives: the first bytes of other protocols (to a record parser: a header like any other)
    let per = ctx.pick(4, 64) as u8;
    let cases = (0..FOREIGN_OPENERS.len() as u8).flat_map(|o| (0..per).map(move |k| vec![o, k, o ^ k.wrapping_mul(37)]));
    ctx.run_enum("frame_foreign", frame_foreign, false, &format!("{} openers of other protocols (HTTP methods and responses, HTTP/2 preface, SSH, SMTP, IMAP, POP3, SOCKS, SSLv2, DTLS, RDP, SMB, ...) x {} continuations, cut at every prefix up to 64 bytes and around the record end their first five bytes announce", FOREIGN_OPENERS.len(), per), cases);
}

thread_local! {
    static BUF: RefCell<Vec<u8>> = RefCell::new(fill(0x5eed_c02, 5 + 65535 + 32));
}

#[derive(Clone, Copy, PartialEq, Debug)]
enum P {
    Plain,
    Enc,
    Raw,
}

/// the cap of the statement: 2^14 + 256
const CAP: usize = (1 << 14) + 256;

const PARSERS: [P; 3] = [P::Plain, P::Enc, P::Raw];

/// outcome of one framing call, reduced to what C02 talks about
enum Out<'a> {
    Ok { rem: &'a [u8], ctype: u8, version: u16, len: u16, data: Option<&'a [u8]> },
    Incomplete(Needed),
    Error(ErrorKind),
}

fn call<'a>(p: P, i: &'a [u8]) -> Out<'a> {
    fn conv<'a, T>(r: IResult<&'a [u8], T>, f: impl FnOnce(&T) -> (TlsRecordHeader, Option<&'a [u8]>)) -> Out<'a> {
        match r {
            Ok((rem, v)) => {
                let (h, data) = f(&v);
                Out::Ok { rem, ctype: h.record_type.0, version: h.version.0, len: h.len, data }
            }
            Err(Err::Incomplete(n)) => Out::Incomplete(n),
            Err(Err::Error(e)) | Err(Err::Failure(e)) => Out::Error(e.code),
        }
    }
    match p {
        P::Plain => conv(parse_tls_plaintext(i), |v| (v.hdr, None)),
        P::Enc => conv(parse_tls_encrypted(i), |v| (v.hdr, Some(v.msg.blob))),
        P::Raw => conv(parse_tls_raw_record(i), |v| (v.hdr, Some(v.data))),
    }
}

/// the framing contract for one (parser, input prefix). `full` is the whole buffer the prefix was cut from.
fn check_cut(p: P, input: &[u8], obs: &mut Obs) -> R {
    let pl = input.len();
    let pn = format!("{:?}", p).to_lowercase();
    let out = guard("tls record parser", || call(p, input))?;
    if pl < 5 {
        ensure!(matches!(out, Out::Incomplete(_)), format!("C02:{}:short-header-not-incomplete", pn), "{:?} on a {}-byte input (shorter than the header) must answer Incomplete: {}", p, pl, hex_short(input));
        return Ok(());
    }
    // reference header decode
    let ctype = input[0];
    let version = (input[1] as u16) << 8 | input[2] as u16;
    let l = ((input[3] as usize) << 8) | input[4] as usize;
    if l > CAP {
        ensure!(
            matches!(out, Out::Error(ErrorKind::TooLarge)),
            format!("C02:{}:cap-not-enforced", pn),
            "{:?}: declared length {} > 2^14+256 must be rejected with TooLarge (input {} bytes, type {:#04x}), got {}",
            p, l, pl, ctype, describe(&out)
        );
        return Ok(());
    }
    let rel = pl as i64 - (5 + l) as i64;
    obs.nontrivial(((p as u64) << 48) ^ ((ctype as u64) << 40) ^ ((l as u64) << 8) ^ (rel.clamp(-2, 2) + 2) as u64);
    if pl < 5 + l {
        match out {
            Out::Incomplete(Needed::Size(n)) if n.get() == 5 + l - pl => Ok(()),
            _ => fail(
                format!("C02:{}:needed-wrong", pn),
                format!("{:?}: strict prefix ({} of {} bytes, type {:#04x}) must answer Incomplete(Size({})), got {}", p, pl, 5 + l, ctype, 5 + l - pl, describe(&out)),
            ),
        }
    } else {
        match out {
            Out::Incomplete(n) => fail(
                format!("C02:{}:incomplete-on-complete-record:type={:#04x}", pn, ctype),
                format!("{:?}: the input holds the whole record (5+{} of {} bytes, type {:#04x}) but the parser answers Incomplete({:?}): {}", p, l, pl, ctype, n, hex_short(input)),
            ),
            Out::Error(k) => {
                // raw / encrypted framing never fails below the cap; plaintext may reject the content
                ensure!(p == P::Plain, format!("C02:{}:framing-rejected", pn), "{:?}: length {} <= cap must be framed, got Error({:?})", p, l, k);
                ensure!(k != ErrorKind::TooLarge, format!("C02:{}:toolarge-below-cap", pn), "{:?}: length {} is within the cap but was rejected with TooLarge", p, l);
                Ok(())
            }
            Out::Ok { rem, ctype: c2, version: v2, len: l2, data } => {
                ensure!(c2 == ctype && v2 == version && l2 as usize == l, format!("C02:{}:header-fields", pn),
                    "{:?}: header decoded as type {:#04x} version {:#06x} len {}, wire has type {:#04x} version {:#06x} len {}", p, c2, v2, l2, ctype, version, l);
                let want_rem = &input[5 + l..];
                // also when it is empty: "everything after them" starts where the record ends. nom's `recognize` / `consumed` / `Offset`
                // compute positions from the address of the remainder, so a detached empty slice breaks every caller that composes
                // these parsers (checked below through nom itself)
                ensure!(rem.len() == want_rem.len() && rem.as_ptr() == want_rem.as_ptr(), format!("C02:{}:remainder", pn),
                    "{:?}: remainder must be the input after 5+{} bytes ({} bytes), got {} bytes at offset {:?}", p, l, want_rem.len(), rem.len(), (rem.as_ptr() as usize).wrapping_sub(input.as_ptr() as usize));
                if let Some(d) = data {
                    let want = &input[5..5 + l];
                    ensure!(d.len() == l && d.as_ptr() == want.as_ptr(), format!("C02:{}:payload", pn),
                        "{:?}: payload must be exactly input[5..5+{}], got {} bytes at offset {:?}", p, l, d.len(), (d.as_ptr() as usize).wrapping_sub(input.as_ptr() as usize));
                }
                // the parser composed with nom's own combinators: `recognize` must hand back exactly the 5+l consumed bytes
                let rec = guard("nom::combinator::recognize over the record parser", || match p {
                    P::Plain => tls_parser::nom::combinator::recognize(parse_tls_plaintext)(input).map(|(r, c)| (r.len(), c.len(), c.as_ptr() as usize)).map_err(|e| e.map(|x| x.code)),
                    P::Enc => tls_parser::nom::combinator::recognize(parse_tls_encrypted)(input).map(|(r, c)| (r.len(), c.len(), c.as_ptr() as usize)).map_err(|e| e.map(|x| x.code)),
                    P::Raw => tls_parser::nom::combinator::recognize(parse_tls_raw_record)(input).map(|(r, c)| (r.len(), c.len(), c.as_ptr() as usize)).map_err(|e| e.map(|x| x.code)),
                })?;
                ensure!(rec == Ok((pl - 5 - l, 5 + l, input.as_ptr() as usize)), format!("C02:{}:recognize", pn), "recognize({:?}) on a {}-byte input holding a record of 5+{} bytes gives {:?} (remainder length, recognised length, address), expected the first {} bytes", p, pl, l, rec, 5 + l);
                Ok(())
            }
        }
    }
}

fn describe(o: &Out) -> String {
    match o {
        Out::Ok { rem, len, .. } => format!("Ok(len={}, remainder {} bytes)", len, rem.len()),
        Out::Incomplete(n) => format!("Incomplete({:?})", n),
        Out::Error(k) => format!("Error({:?})", k),
    }
}

/// parameter tape: [content type, len_hi, len_lo]
fn frame_exhaustive(t: &mut Tape, obs: &mut Obs) -> R {
    let ctype = t.u8();
    let l = t.u16() as usize;
    BUF.with(|b| {
        let mut b = b.borrow_mut();
        b[0] = ctype;
        b[1] = 0x03;
        b[2] = (l % 5) as u8; // versions 0x0300..0x0304
        b[3] = (l >> 8) as u8;
        b[4] = l as u8;
        let total = b.len();
        let mut cuts = vec![0usize, 1, 2, 3, 4, 5];
        for c in [(5 + l).saturating_sub(1), 5 + l, 5 + l + 1, 5 + l + 17, total] {
            // `total`: the record at the front of a buffer holding more than 64 KiB (65572 bytes)
            if c <= total && !cuts.contains(&c) {
                cuts.push(c);
            }
        }
        for p in PARSERS {
            for &c in &cuts {
                obs.evals_add(1);
                check_cut(p, &b[..c], obs)?;
            }
        }
        if obs.wants_sample() && l > 3 {
            obs.sample(json!({"content_type": ctype, "declared_len": l, "cuts": cuts, "parsers": ["plaintext", "encrypted", "raw"]}));
        }
        Ok(())
    })
}

/// parameter tape: [0, content type, payload length, variant] or [1, handshake type, record-length index, declared-length index]
fn frame_shapes(t: &mut Tape, obs: &mut Obs) -> R {
    let kind = t.u8();
    let (a, b, c) = (t.u8(), t.u8(), t.u8());
    let mut inputs: Vec<Vec<u8>> = Vec::new();
    if kind == 0 {
        let (ty, l, v) = (a, b as usize, c);
        // payload starts: a fatal alert, a warning close_notify, a ChangeCipherSpec byte, a handshake header, a heartbeat request, zeros
        let start: &[u8] = [&[2u8, 40, 2, 40, 2][..], &[1, 0, 1, 0, 1], &[1, 1, 1, 1, 1], &[14, 0, 0, 0, 14], &[1, 0, 1, 0x61, 0x62], &[0, 0, 0, 0, 0]][v as usize % 6];
        let version = [0x0301u16, 0x0303, 0x0300][l % 3];
        let mut r = vec![ty, (version >> 8) as u8, version as u8, 0, l as u8];
        r.extend_from_slice(&start[..l]);
        let mut twice = r.clone();
        twice.extend_from_slice(&r);
        let mut other = r.clone();
        other.extend_from_slice(&[ty, 3, 3, 0, l as u8]);
        other.extend(start[..l].iter().map(|x| x ^ 0x29));
        inputs.push(r);
        inputs.push(twice);
        inputs.push(other);
    } else {
        let ht = a;
        let l = [4usize, 100, 16383, 16384, 16385, 16640][b as usize % 6];
        let declared = [l.saturating_sub(4), l.saturating_sub(3), 40_000, 0xff_ffff, 16_381][c as usize % 5];
        let mut r = vec![0x16, 3, [1u8, 3][l % 2], (l >> 8) as u8, l as u8];
        let mut payload = vec![0x42u8; l];
        payload[..4].copy_from_slice(&[ht, (declared >> 16) as u8, (declared >> 8) as u8, declared as u8]);
        r.extend(payload);
        r.extend_from_slice(&[0x16, 3, 3, 0x40, 0x00, 0x0b]);
        inputs.push(r);
    }
    for input in &inputs {
        let l = ((input[3] as usize) << 8) | input[4] as usize;
        let mut cuts: Vec<usize> = (0..=12.min(input.len())).collect();
        for c in [5 + l - l.min(1), 5 + l, 5 + l + 1, 5 + l + 5, 5 + l + 6, input.len() - 1, input.len()] {
            if c <= input.len() && !cuts.contains(&c) {
                cuts.push(c);
            }
        }
        for p in PARSERS {
            for &c in &cuts {
                obs.evals_add(1);
                check_cut(p, &input[..c], obs)?;
            }
        }
    }
    if obs.wants_sample() {
        obs.sample(json!({"shape": if kind == 0 { "twin records" } else { "handshake header at the start of the payload" }, "hex": hex_short(&inputs[inputs.len() - 1])}));
    }
    Ok(())
}

/// input = the opening bytes of another protocol, continued with filler up to (and beyond) the record length its first five bytes
/// announce. parameter tape: [opener index, continuation variant, filler seed]
fn frame_foreign(t: &mut Tape, obs: &mut Obs) -> R {
    let o = t.u8() as usize % FOREIGN_OPENERS.len();
    let k = t.u8() as usize;
    let seed = t.u8();
    let mut input = FOREIGN_OPENERS[o].to_vec();
    // variants: the opener as it is / cut to 5..8 bytes / case changed, then filler
    match k % 4 {
        1 => input.truncate(5 + k / 4 % 4),
        2 => input.iter_mut().for_each(|b| *b = b.to_ascii_lowercase()),
        _ => {}
    }
    while input.len() < 5 {
        input.push(b' ');
    }
    let l = ((input[3] as usize) << 8) | input[4] as usize;
    let want = if l > CAP { 64 } else { 5 + l + [0usize, 1, 7][k % 3] };
    let mut x = seed as u32 | 0x100;
    while input.len() < want {
        x = x.wrapping_mul(1_103_515_245).wrapping_add(12345);
        input.push(if k % 2 == 0 { (x >> 16) as u8 } else { b"abcdefghijklmnopqrstuvwxyz /:.\r\n"[(x >> 16) as usize % 32] });
    }
    let mut cuts: Vec<usize> = (0..=64.min(input.len())).collect();
    if l <= CAP {
        for c in [5 + l - l.min(1), 5 + l, 5 + l + 1, input.len()] {
            if c <= input.len() && !cuts.contains(&c) {
                cuts.push(c);
            }
        }
    }
    for p in PARSERS {
        for &c in &cuts {
            obs.evals_add(1);
            check_cut(p, &input[..c], obs)?;
        }
    }
    obs.sample_class(if l > CAP { "announces-more-than-the-cap" } else { "announces-a-length-within-the-cap" }, || json!({"opener": String::from_utf8_lossy(&FOREIGN_OPENERS[o][..FOREIGN_OPENERS[o].len().min(24)]).to_string(), "as_header": format!("type {:#04x} version {:#06x} length {}", input[0], (input[1] as u16) << 8 | input[2] as u16, l), "input_bytes": input.len()}));
    Ok(())
}

/// the tape itself is the input: the framing contract on arbitrary bytes and on every prefix of them
fn frame_raw(t: &mut Tape, obs: &mut Obs) -> R {
    let mut buf = Vec::new();
    while !t.exhausted() {
        buf.push(t.u8());
    }
    for p in PARSERS {
        for c in 0..=buf.len().min(80) {
            check_cut(p, &buf[..c], obs)?;
        }
        check_cut(p, &buf, obs)?;
    }
    if buf.len() > 5 {
        obs.sample(json!({"case": "raw", "hex": hex_short(&buf)}));
    }
    Ok(())
}

fn frame_generated(t: &mut Tape, obs: &mut Obs) -> R {
    // a record: valid content, or arbitrary type / payload
    let mut e = Enc::new();
    let label;
    match t.weighted(&[5, 3, 2]) {
        0 => {
            let r = gen_record(t);
            label = format!("valid:{:#04x}", r.ctype);
            r.encode(&mut e);
        }
        1 => {
            // arbitrary content type and payload; lengths weighted towards the cap
            let ctype = if t.bool() { t.pick(&[0x14u8, 0x15, 0x16, 0x17, 0x18]) } else { t.u8() };
            let l = match t.weighted(&[4, 2, 2]) {
                0 => t.small(64),
                1 => t.len(CAP),
                _ => t.pick(&[CAP - 1, CAP, CAP + 1, 16384, 16385, 65535, 32768]),
            };
            label = format!("random:{:#04x}", ctype);
            e.u8(ctype);
            e.u16(t.u16b());
            e.u16(l as u16);
            let body = t.bytes(l);
            e.bytes(&body);
        }
        _ => {
            // heartbeat / handshake records whose inner length exceeds the record
            let ctype = t.pick(&[0x18u8, 0x16, 0x18]);
            let inner = t.small_blob(40);
            label = format!("inner-overlong:{:#04x}", ctype);
            e.u8(ctype);
            e.u16(0x0303);
            e.with_len(2, "rec.len", |e| {
                if ctype == 0x18 {
                    e.u8(1);
                    e.u16(t.pick(&[0xffffu16, 0x4000, 200, 41]));
                } else {
                    e.u8(t.pick(&[1u8, 2, 11, 16, 20]));
                    e.u24(t.pick(&[0xffffffu32, 0x4000, 200, 41]));
                }
                e.bytes(&inner);
            });
        }
    }
    let rec_len = e.buf.len();
    match t.weighted(&[6, 6, 4, 1]) {
        0 => {}
        1 => {
            let x = t.small_blob(40);
            e.bytes(&x);
        }
        2 => gen_record(t).encode(&mut e),
        _ => {
            // more than 64 KiB after the record (sizes around multiples of 2^16)
            let n = t.pick(&[65531usize, 65535, 65536, 65537, 70000, 131072, 131100]);
            e.bytes(&vec![0x33u8; n]);
        }
    }
    let buf = e.buf;
    obs.sample_class(&label, || json!({"case": label, "record_bytes": rec_len, "total_bytes": buf.len(), "hex": hex_short(&buf)}));
    let mut cuts: Vec<usize> = Vec::new();
    if buf.len() <= 300 {
        cuts.extend(0..=buf.len());
    } else {
        cuts.extend([0, 1, 4, 5, 6, rec_len.saturating_sub(1), rec_len, rec_len + 1, buf.len()]);
        for _ in 0..64 {
            cuts.push(t.below(buf.len() + 1));
        }
        cuts.retain(|&c| c <= buf.len());
        cuts.sort();
        cuts.dedup();
    }
    for p in PARSERS {
        for &c in &cuts {
            check_cut(p, &buf[..c], obs)?;
        }
    }
    Ok(())
}
