//! C17 Registry constants, names and integer conversions are exact.

use super::PropDef;
use crate::core::*;
use serde_json::json;
use std::convert::TryFrom;
use tls_parser::*;
use vmodel::iana::{self, Registry};
use vmodel::tape::Tape;

pub const DEF: PropDef = PropDef {
    id: "C17",
    title: "Registry constants, names and integer conversions are exact",
    rule: "complete enumeration: constants = every named constant of the 18 registry newtypes against the harness's IANA tables; \
           names = every value of every type's integer domain (14 x 256 + 4 x 65536) formatted with Display and Debug; \
           conversions = all 65536 u16 / 256 u8 values through From/Into, Deref, AsRef, to_be_bytes, LowerHex, Display of cipher ids, \
           from_u16, SignatureScheme hash/sign/reserved and NamedGroup::key_bits. Non-trivial = a (type, value) pair that has a named constant, \
           a conversion on a non-zero value, or a key_bits query for a registered group; distinct by (type, value).",
    assumptions: &[
        "the IANA tables in harness/vmodel/src/iana.rs were typed in from the registries; identifier spelling is the crate's API",
        "a name printed for a value that the tables do not list is tolerated (counted as class unlisted-name) when it is a new identifier, so that adding a correct constant upstream is not an alarm",
    ],
    run,
};

pub const SUBS: &[SubDef] = &[
    SubDef { prop: "C17", name: "sigalg_debug", oracle: sigalg_debug },
    SubDef { prop: "C17", name: "composite_debug", oracle: composite_debug },
    SubDef { prop: "C17", name: "names", oracle: names },
    SubDef { prop: "C17", name: "conversions", oracle: conversions },
];

struct RegImpl {
    reg: &'static Registry,
    consts: fn() -> Vec<(&'static str, u32)>,
    display: fn(u32) -> Option<String>,
    debug: fn(u32) -> Option<String>,
}

macro_rules! regtype {
    ($reg:expr, $T:ident, $int:ty, $disp:tt, $dbg:tt, [$($c:ident),* $(,)?]) => {
        RegImpl {
            reg: &$reg,
            consts: || vec![$((stringify!($c), $T::$c.0 as u32)),*],
            display: |v| regtype!(@fmt $disp, "{}", $T(v as $int)),
            debug: |v| regtype!(@fmt $dbg, "{:?}", $T(v as $int)),
        }
    };
    (@fmt true, $f:expr, $e:expr) => { Some(format!($f, $e)) };
    (@fmt false, $f:expr, $e:expr) => { { let _ = $e; None } };
}

fn impls() -> Vec<RegImpl> {
    vec![
        regtype!(iana::RECORD_TYPE, TlsRecordType, u8, true, true, [ChangeCipherSpec, Alert, Handshake, ApplicationData, Heartbeat]),
        regtype!(iana::HANDSHAKE_TYPE, TlsHandshakeType, u8, true, true, [HelloRequest, ClientHello, ServerHello, HelloVerifyRequest, NewSessionTicket, EndOfEarlyData, HelloRetryRequest, EncryptedExtensions, Certificate, ServerKeyExchange, CertificateRequest, ServerDone, CertificateVerify, ClientKeyExchange, Finished, CertificateURL, CertificateStatus, KeyUpdate, NextProtocol]),
        regtype!(iana::VERSION, TlsVersion, u16, true, true, [Ssl30, Tls10, Tls11, Tls12, Tls13, Tls13Draft18, Tls13Draft19, Tls13Draft20, Tls13Draft21, Tls13Draft22, Tls13Draft23, DTls10, DTls11, DTls12]),
        regtype!(iana::HEARTBEAT_TYPE, TlsHeartbeatMessageType, u8, true, true, [HeartBeatRequest, HeartBeatResponse]),
        regtype!(iana::COMPRESSION, TlsCompressionID, u8, true, true, [Null, Deflate]),
        regtype!(iana::KEY_UPDATE, KeyUpdateRequest, u8, false, false, [NotRequested, Requested]),
        regtype!(iana::ALERT_SEVERITY, TlsAlertSeverity, u8, true, true, [Warning, Fatal]),
        regtype!(iana::ALERT_DESCRIPTION, TlsAlertDescription, u8, true, true, [CloseNotify, UnexpectedMessage, BadRecordMac, DecryptionFailed, RecordOverflow, DecompressionFailure, HandshakeFailure, NoCertificate, BadCertificate, UnsupportedCertificate, CertificateRevoked, CertificateExpired, CertificateUnknown, IllegalParameter, UnknownCa, AccessDenied, DecodeError, DecryptError, ExportRestriction, ProtocolVersion, InsufficientSecurity, InternalError, InappropriateFallback, UserCancelled, NoRenegotiation, MissingExtension, UnsupportedExtension, CertUnobtainable, UnrecognizedName, BadCertStatusResponse, BadCertHashValue, UnknownPskIdentity, CertificateRequired, NoApplicationProtocol]),
        regtype!(iana::EXTENSION_TYPE, TlsExtensionType, u16, true, true, [ServerName, MaxFragmentLength, ClientCertificate, TrustedCaKeys, TruncatedHMac, StatusRequest, UserMapping, ClientAuthz, ServerAuthz, CertType, SupportedGroups, EcPointFormats, Srp, SignatureAlgorithms, UseSrtp, Heartbeat, ApplicationLayerProtocolNegotiation, StatusRequestv2, SignedCertificateTimestamp, ClientCertificateType, ServerCertificateType, Padding, EncryptThenMac, ExtendedMasterSecret, TokenBinding, CachedInfo, RecordSizeLimit, SessionTicketTLS, KeyShareOld, PreSharedKey, EarlyData, SupportedVersions, Cookie, PskExchangeModes, TicketEarlyDataInfo, CertificateAuthorities, OidFilters, PostHandshakeAuth, SigAlgorithmsCert, KeyShare, NextProtocolNegotiation, Grease, RenegotiationInfo, EncryptedServerName]),
        regtype!(iana::PSK_MODE, PskKeyExchangeMode, u8, false, true, [Psk, PskDhe]),
        regtype!(iana::SNI_TYPE, SNIType, u8, true, true, [HostName]),
        regtype!(iana::CERT_STATUS_TYPE, CertificateStatusType, u8, true, true, [OCSP]),
        regtype!(iana::NAMED_GROUP, NamedGroup, u16, true, true, [Sect163k1, Sect163r1, Sect163r2, Sect193r1, Sect193r2, Sect233k1, Sect233r1, Sect239k1, Sect283k1, Sect283r1, Sect409k1, Sect409r1, Sect571k1, Sect571r1, Secp160k1, Secp160r1, Secp160r2, Secp192k1, Secp192r1, Secp224k1, Secp224r1, Secp256k1, Secp256r1, Secp384r1, Secp521r1, BrainpoolP256r1, BrainpoolP384r1, BrainpoolP512r1, EcdhX25519, EcdhX448, BrainpoolP256r1tls13, BrainpoolP384r1tls13, BrainpoolP512r1tls13, Sm2, Ffdhe2048, Ffdhe3072, Ffdhe4096, Ffdhe6144, Ffdhe8192, ArbitraryExplicitPrimeCurves, ArbitraryExplicitChar2Curves]),
        regtype!(iana::EC_CURVE_TYPE, ECCurveType, u8, true, false, [ExplicitPrime, ExplicitChar2, NamedGroup]),
        regtype!(iana::HASH_ALG, HashAlgorithm, u8, true, true, [None, Md5, Sha1, Sha224, Sha256, Sha384, Sha512, Intrinsic]),
        regtype!(iana::SIGN_ALG, SignAlgorithm, u8, true, true, [Anonymous, Rsa, Dsa, Ecdsa, Ed25519, Ed448]),
        regtype!(iana::SIGNATURE_SCHEME, SignatureScheme, u16, true, true, [rsa_pkcs1_sha256, rsa_pkcs1_sha384, rsa_pkcs1_sha512, ecdsa_secp256r1_sha256, ecdsa_secp384r1_sha384, ecdsa_secp521r1_sha512, sm2sig_sm3, rsa_pss_rsae_sha256, rsa_pss_rsae_sha384, rsa_pss_rsae_sha512, ed25519, ed448, rsa_pss_pss_sha256, rsa_pss_pss_sha384, rsa_pss_pss_sha512, ecdsa_brainpoolP256r1tls13_sha256, ecdsa_brainpoolP384r1tls13_sha384, ecdsa_brainpoolP512r1tls13_sha512, rsa_pkcs1_sha1, ecdsa_sha1]),
        regtype!(iana::CT_VERSION, CtVersion, u8, true, true, [V1]),
    ]
}

fn run(ctx: &Ctx) {
    ctx.run_fn("constants", true, "every named constant of the 18 registry newtypes vs the harness's IANA tables", |obs| {
        for (ti, im) in impls().iter().enumerate() {
            let got = (im.consts)();
            ensure!(got.len() == im.reg.consts.len(), format!("C17:constants:{}:count", im.reg.ty), "{}: {} constants checked, table has {}", im.reg.ty, got.len(), im.reg.consts.len());
            for (name, val) in got {
                obs.eval();
                let want = im.reg.consts.iter().find(|c| c.0 == name).map(|c| c.1);
                ensure!(want == Some(val), format!("C17:constants:{}::{}:got={:#x}", im.reg.ty, name, val), "{}::{} = {:#x}, the registry assigns {:?}", im.reg.ty, name, val, want.map(|w| format!("{:#x}", w)));
                obs.nontrivial((ti as u64) << 32 | val as u64);
                obs.sample(json!({"type": im.reg.ty, "constant": name, "value": val}));
            }
        }
        Ok(())
    });
    let ims = impls();
    let mut cases: Vec<Vec<u8>> = Vec::new();
    for (ti, im) in ims.iter().enumerate() {
        let n: u32 = 1 << im.reg.bits;
        for v in 0..n {
            cases.push(vec![ti as u8, (v >> 8) as u8, v as u8]);
        }
    }
    ctx.run_enum("names", names, true, "every integer of every registry type's domain (14 x 256 + 4 x 65536 values), Display and Debug", cases.into_iter());
    let cases = (0..=65535u32).map(|v| vec![(v >> 8) as u8, v as u8]);
    ctx.run_enum("sigalg_debug", sigalg_debug, true, "all 65536 code points inside a signature_algorithms extension, Debug text (the place where the crate prints scheme / hash / signature names together)", cases);
    let comps = composites();
    let mut cases: Vec<Vec<u8>> = Vec::new();
    for (ci, c) in comps.iter().enumerate() {
        for v in 0..(1u32 << c.reg.bits) {
            cases.push(vec![ci as u8, (v >> 8) as u8, v as u8]);
        }
    }
    ctx.run_enum("composite_debug", composite_debug, true, &format!("{} (structure, registry-typed field) pairs x every value of the field's domain: the text the structure prints for that field", comps.len()), cases.into_iter());
    ctx.run_fn("variant_tags", true, "every TlsExtension variant converted to its TlsExtensionType", |obs| {
        use vmodel::model::*;
        let seed = [7u8; 64];
        for (i, ty) in KNOWN_EXT_TYPES.iter().enumerate() {
            let mut t = Tape::new(&seed);
            let m = gen_ext_known(&mut t, i, 64);
            let bytes = m.to_bytes();
            obs.eval();
            let tag = guard("TlsExtensionType::from", || parse_tls_extension(&bytes).map(|(_, e)| TlsExtensionType::from(&e).0).map_err(|e| format!("{:?}", e.map(|x| x.code))))?;
            ensure!(tag == Ok(*ty), format!("C17:variant-tag:type={}", ty), "extension type {} ({}) decodes to a variant whose TlsExtensionType is {:?}", ty, m.name(), tag);
            obs.nontrivial(*ty as u64);
        }
        obs.sample(json!({"variants_checked": KNOWN_EXT_TYPES.len()}));
        Ok(())
    });
    let cases = (0..=65535u32).map(|v| vec![(v >> 8) as u8, v as u8]);
    ctx.run_enum("conversions", conversions, true, "all 65536 u16 values (and their low bytes as u8 values)", cases);
}

/// parameter tape: [value_hi, value_lo]: Debug of TlsExtension::SignatureAlgorithms([v]) must show the scheme's name when it has one,
/// and otherwise hash = high byte and signature = low byte (by name or by a numeric fallback containing the byte's value)
fn sigalg_debug(t: &mut Tape, obs: &mut Obs) -> R {
    let v = t.u16();
    let text = guard("Debug for TlsExtension", || format!("{:?}", TlsExtension::SignatureAlgorithms(vec![v])))?;
    let sig = format!("C17:sigalg-debug:value={:#06x}", v);
    // an entry is printed the same wherever it stands and whatever stands next to it (named schemes, pairs printed as HashSign(..),
    // unregistered values): the text of [v] must reappear at v's position in longer lists
    let elems = |text: &str| -> Vec<String> { text.split('[').nth(1).unwrap_or("").trim_end_matches(|c| c == ')' || c == ']').split("\", \"").map(|e| e.trim_matches('"').to_string()).collect() };
    let alone = elems(&text);
    for (ctx, pos) in [(vec![0x0402u16, v], 1usize), (vec![v, 0x0402], 0), (vec![0x0804, v, 0x0402], 1), (vec![0xeeee, 0x0402, 0x0403, v], 3), (vec![0x0403, 0x0403, v, v], 3)] {
        let t2 = guard("Debug for TlsExtension", || format!("{:?}", TlsExtension::SignatureAlgorithms(ctx.clone())))?;
        let e2 = elems(&t2);
        ensure!(alone.len() == 1 && e2.len() == ctx.len() && e2[pos] == alone[0], format!("C17:sigalg-debug:context:value={:#06x}", v), "Debug of signature_algorithms {:04x?} is {:?}: entry {} ({:#06x}) is printed {:?} there and {:?} when it is alone", ctx, t2, pos, v, e2.get(pos), alone.first());
    }
    if let Some(name) = iana::SIGNATURE_SCHEME.name_of(v as u32) {
        obs.nontrivial(v as u64);
        obs.class("named-scheme");
        ensure!(text.contains(name), sig, "Debug of signature_algorithms [{:#06x}] is {:?}; the scheme's name is {}", v, text, name);
        if obs.wants_sample() {
            obs.sample(json!({"value": v, "debug": text}));
        }
        return Ok(());
    }
    let (hi, lo) = ((v >> 8) as u32, (v & 0xff) as u32);
    let h = iana::HASH_ALG.name_of(hi).map(|s| s.to_string()).unwrap_or_else(|| hi.to_string());
    let s = iana::SIGN_ALG.name_of(lo).map(|s| s.to_string()).unwrap_or_else(|| lo.to_string());
    // expected shape: "...(<hash name or fallback containing hi>,<sign name or fallback containing lo>)..."
    let inner = text.split("HashSign(").nth(1).unwrap_or("");
    let (hpart, spart) = match inner.split_once(',') {
        Some((a, b)) => (a.to_string(), b.to_string()),
        None => (String::new(), String::new()),
    };
    obs.class("hash-sign-pair");
    ensure!(hpart.contains(&h), sig, "Debug of signature_algorithms [{:#06x}] is {:?}: the hash part must show {} (high byte {})", v, text, h, hi);
    ensure!(spart.contains(&s), sig, "Debug of signature_algorithms [{:#06x}] is {:?}: the signature part must show {} (low byte {})", v, text, s, lo);
    if iana::SIGN_ALG.name_of(lo).is_none() {
        // a fallback must not print the name of a different registered algorithm
        ensure!(!iana::SIGN_ALG.consts.iter().any(|c| spart.starts_with(c.0)), sig, "Debug of [{:#06x}] prints {:?} for unregistered signature algorithm {}", v, spart, lo);
    }
    if iana::HASH_ALG.name_of(hi).is_none() {
        ensure!(!iana::HASH_ALG.consts.iter().any(|c| hpart.starts_with(c.0)), sig, "Debug of [{:#06x}] prints {:?} for unregistered hash algorithm {}", v, hpart, hi);
    }
    Ok(())
}

/// a structure that prints a registry-typed field by name: (label, registry, text of the structure holding value v in that field).
/// The other fields hold values whose text cannot be mistaken for a name of the registry under test.
struct Composite {
    label: &'static str,
    reg: &'static Registry,
    /// the structure prints this field with the field type's Display (true) or Debug (false): read off tls_debug.rs / the derives.
    /// The name is expected exactly when that formatting of the field type prints names (Registry::display_names / debug_names).
    via_display: bool,
    text: fn(u32) -> String,
}

fn composites() -> Vec<Composite> {
    fn ecp(ct: u8, g: u16) -> ECParameters<'static> {
        ECParameters { curve_type: ECCurveType(ct), params_content: ECParametersContent::NamedGroup(NamedGroup(g)) }
    }
    fn sha(h: u8, s: u8) -> SignatureAndHashAlgorithm {
        SignatureAndHashAlgorithm { hash: HashAlgorithm(h), sign: SignAlgorithm(s) }
    }
    static RND: [u8; 32] = [0x11; 32];
    vec![
        Composite { label: "Debug of ECParameters: curve_type", reg: &iana::EC_CURVE_TYPE, via_display: true, text: |v| format!("{:?}", ecp(v as u8, 23)) },
        Composite { label: "Debug of ServerECDHParams: curve_type", reg: &iana::EC_CURVE_TYPE, via_display: true, text: |v| format!("{:?}", ServerECDHParams { curve_params: ecp(v as u8, 23), public: ECPoint { point: &[4, 1] } }) },
        Composite { label: "Debug of ECParameters: named group", reg: &iana::NAMED_GROUP, via_display: true, text: |v| format!("{:?}", ecp(1, v as u16)) },
        Composite { label: "Debug of SignatureAndHashAlgorithm: hash", reg: &iana::HASH_ALG, via_display: true, text: |v| format!("{:?}", sha(v as u8, 0xee)) },
        Composite { label: "Debug of SignatureAndHashAlgorithm: signature", reg: &iana::SIGN_ALG, via_display: true, text: |v| format!("{:?}", sha(0xee, v as u8)) },
        Composite { label: "Display of SignatureAndHashAlgorithm: hash", reg: &iana::HASH_ALG, via_display: true, text: |v| format!("{}", sha(v as u8, 0xee)) },
        Composite { label: "Display of SignatureAndHashAlgorithm: signature", reg: &iana::SIGN_ALG, via_display: true, text: |v| format!("{}", sha(0xee, v as u8)) },
        Composite { label: "Debug of DigitallySigned: hash", reg: &iana::HASH_ALG, via_display: true, text: |v| format!("{:?}", DigitallySigned { alg: Some(sha(v as u8, 0xee)), data: &[1, 2] }) },
        Composite { label: "Debug of DigitallySigned: signature", reg: &iana::SIGN_ALG, via_display: true, text: |v| format!("{:?}", DigitallySigned { alg: Some(sha(0xee, v as u8)), data: &[1, 2] }) },
        Composite { label: "Debug of TlsRecordHeader: type", reg: &iana::RECORD_TYPE, via_display: false, text: |v| format!("{:?}", TlsRecordHeader { record_type: TlsRecordType(v as u8), version: TlsVersion(0x9999), len: 1 }) },
        Composite { label: "Debug of TlsRecordHeader: version", reg: &iana::VERSION, via_display: false, text: |v| format!("{:?}", TlsRecordHeader { record_type: TlsRecordType(0x99), version: TlsVersion(v as u16), len: 1 }) },
        Composite { label: "Debug of TlsPlaintext: type", reg: &iana::RECORD_TYPE, via_display: false, text: |v| format!("{:?}", TlsPlaintext { hdr: TlsRecordHeader { record_type: TlsRecordType(v as u8), version: TlsVersion(0x9999), len: 0 }, msg: vec![] }) },
        Composite { label: "Debug of TlsMessageAlert: severity", reg: &iana::ALERT_SEVERITY, via_display: false, text: |v| format!("{:?}", TlsMessageAlert { severity: TlsAlertSeverity(v as u8), code: TlsAlertDescription(0xee) }) },
        Composite { label: "Debug of TlsMessageAlert: description", reg: &iana::ALERT_DESCRIPTION, via_display: false, text: |v| format!("{:?}", TlsMessageAlert { severity: TlsAlertSeverity(0xee), code: TlsAlertDescription(v as u8) }) },
        Composite { label: "Debug of TlsMessage::Alert: description", reg: &iana::ALERT_DESCRIPTION, via_display: false, text: |v| format!("{:?}", TlsMessage::Alert(TlsMessageAlert { severity: TlsAlertSeverity(0xee), code: TlsAlertDescription(v as u8) })) },
        Composite { label: "Debug of supported_groups extension: group", reg: &iana::NAMED_GROUP, via_display: true, text: |v| format!("{:?}", TlsExtension::EllipticCurves(vec![NamedGroup(0x9999), NamedGroup(v as u16)])) },
        Composite { label: "Debug of supported_versions extension: version", reg: &iana::VERSION, via_display: true, text: |v| format!("{:?}", TlsExtension::SupportedVersions(vec![TlsVersion(0x9999), TlsVersion(v as u16)])) },
        // the same lists with the value under test far from the front (a list is printed whole, however long it is)
        Composite { label: "Debug of supported_versions extension: version at position 130", reg: &iana::VERSION, via_display: true, text: |v| format!("{:?}", TlsExtension::SupportedVersions((0..130).map(|k| TlsVersion(if k == 129 { v as u16 } else { 0x9999 })).collect())) },
        Composite { label: "Debug of supported_versions extension: version at position 300", reg: &iana::VERSION, via_display: true, text: |v| format!("{:?}", TlsExtension::SupportedVersions((0..300).map(|k| TlsVersion(if k == 299 { v as u16 } else { 0x9999 })).collect())) },
        Composite { label: "Debug of supported_groups extension: group at position 300", reg: &iana::NAMED_GROUP, via_display: true, text: |v| format!("{:?}", TlsExtension::EllipticCurves((0..300).map(|k| NamedGroup(if k == 299 { v as u16 } else { 0x9999 })).collect())) },
        Composite { label: "Debug of server_name extension: name type at position 300", reg: &iana::SNI_TYPE, via_display: true, text: |v| format!("{:?}", TlsExtension::SNI((0..300).map(|k| (SNIType(if k == 299 { v as u8 } else { 0x63 }), &b"a.example"[..])).collect())) },
        Composite { label: "Debug of server_name extension: name type", reg: &iana::SNI_TYPE, via_display: true, text: |v| format!("{:?}", TlsExtension::SNI(vec![(SNIType(v as u8), &b"a.example"[..])])) },
        Composite { label: "Debug of server_name extension: name type (name not UTF-8)", reg: &iana::SNI_TYPE, via_display: true, text: |v| format!("{:?}", TlsExtension::SNI(vec![(SNIType(0x63), &b"ok.example"[..]), (SNIType(v as u8), &[0xff, 0xfe, 0x41, 0xc3][..])])) },
        Composite { label: "Debug of status_request extension: status type", reg: &iana::CERT_STATUS_TYPE, via_display: false, text: |v| format!("{:?}", TlsExtension::StatusRequest(Some((CertificateStatusType(v as u8), &[7u8, 7][..])))) },
        Composite { label: "Debug of status_request extension: status type (request shaped like an OCSPStatusRequest)", reg: &iana::CERT_STATUS_TYPE, via_display: false, text: |v| format!("{:?}", TlsExtension::StatusRequest(Some((CertificateStatusType(v as u8), &[0u8, 2, 0xaa, 0xbb, 0, 0][..])))) },
        Composite { label: "Debug of status_request extension: status type (empty responder list and extensions)", reg: &iana::CERT_STATUS_TYPE, via_display: false, text: |v| format!("{:?}", TlsExtension::StatusRequest(Some((CertificateStatusType(v as u8), &[0u8, 0, 0, 0][..])))) },
        Composite { label: "Debug of encrypted_server_name extension: group", reg: &iana::NAMED_GROUP, via_display: false, text: |v| format!("{:?}", TlsExtension::EncryptedServerName { ciphersuite: TlsCipherSuiteID(0x9999), group: NamedGroup(v as u16), key_share: &[], record_digest: &[], encrypted_sni: &[] }) },
        Composite { label: "Debug of TlsClientHelloContents: version", reg: &iana::VERSION, via_display: false, text: |v| format!("{:?}", TlsClientHelloContents { version: TlsVersion(v as u16), random: &RND, session_id: None, ciphers: vec![], comp: vec![], ext: None }) },
        Composite { label: "Debug of TlsClientHelloContents: compression", reg: &iana::COMPRESSION, via_display: false, text: |v| format!("{:?}", TlsClientHelloContents { version: TlsVersion(0x9999), random: &RND, session_id: None, ciphers: vec![], comp: vec![TlsCompressionID(0x99), TlsCompressionID(v as u8)], ext: None }) },
        Composite { label: "Debug of TlsServerHelloContents: version", reg: &iana::VERSION, via_display: false, text: |v| format!("{:?}", TlsServerHelloContents { version: TlsVersion(v as u16), random: &RND, session_id: None, cipher: TlsCipherSuiteID(0x9999), compression: TlsCompressionID(0x99), ext: None }) },
        Composite { label: "Debug of TlsServerHelloContents: compression", reg: &iana::COMPRESSION, via_display: false, text: |v| format!("{:?}", TlsServerHelloContents { version: TlsVersion(0x9999), random: &RND, session_id: None, cipher: TlsCipherSuiteID(0x9999), compression: TlsCompressionID(v as u8), ext: None }) },
        Composite { label: "Debug of TlsServerHelloContents: compression (random = the HelloRetryRequest marker)", reg: &iana::COMPRESSION, via_display: false, text: |v| format!("{:?}", TlsServerHelloContents { version: TlsVersion(0x0303), random: &vmodel::model::HRR_RANDOM, session_id: None, cipher: TlsCipherSuiteID(0x9999), compression: TlsCompressionID(v as u8), ext: None }) },
        Composite { label: "Debug of TlsServerHelloContents: version (random = the HelloRetryRequest marker)", reg: &iana::VERSION, via_display: false, text: |v| format!("{:?}", TlsServerHelloContents { version: TlsVersion(v as u16), random: &vmodel::model::HRR_RANDOM, session_id: None, cipher: TlsCipherSuiteID(0x9999), compression: TlsCompressionID(0x99), ext: Some(&[0, 0x2b, 0, 2, 3, 4]) }) },
        Composite { label: "Debug of TlsServerHelloV13Draft18Contents: version", reg: &iana::VERSION, via_display: false, text: |v| format!("{:?}", TlsServerHelloV13Draft18Contents { version: TlsVersion(v as u16), random: &RND, cipher: TlsCipherSuiteID(0x9999), ext: None }) },
        Composite { label: "Debug of TlsHelloRetryRequestContents: version", reg: &iana::VERSION, via_display: false, text: |v| format!("{:?}", TlsHelloRetryRequestContents { version: TlsVersion(v as u16), cipher: TlsCipherSuiteID(0x9999), ext: None }) },
        Composite { label: "Debug of TlsMessageHeartbeat: type", reg: &iana::HEARTBEAT_TYPE, via_display: false, text: |v| format!("{:?}", TlsMessageHeartbeat { heartbeat_type: TlsHeartbeatMessageType(v as u8), payload_len: 0, payload: &[] }) },
        Composite { label: "Debug of DTLSRecordHeader: type", reg: &iana::RECORD_TYPE, via_display: false, text: |v| format!("{:?}", DTLSRecordHeader { content_type: TlsRecordType(v as u8), version: TlsVersion(0x9999), epoch: 0, sequence_number: 0, length: 0 }) },
        Composite { label: "Debug of DTLSRecordHeader: version", reg: &iana::VERSION, via_display: false, text: |v| format!("{:?}", DTLSRecordHeader { content_type: TlsRecordType(0x99), version: TlsVersion(v as u16), epoch: 0, sequence_number: 0, length: 0 }) },
        Composite { label: "Debug of DTLSMessageHandshake: type", reg: &iana::HANDSHAKE_TYPE, via_display: false, text: |v| format!("{:?}", DTLSMessageHandshake { msg_type: TlsHandshakeType(v as u8), length: 0, message_seq: 0, fragment_offset: 0, fragment_length: 0, body: DTLSMessageHandshakeBody::ServerDone(&[]) }) },
        Composite { label: "Debug of SignedCertificateTimestamp: version", reg: &iana::CT_VERSION, via_display: false, text: |v| format!("{:?}", SignedCertificateTimestamp { version: CtVersion(v as u8), id: CtLogID { key_id: &RND }, timestamp: 0x9999, extensions: CtExtensions(&[]), signature: DigitallySigned { alg: None, data: &[] } }) },
    ]
}

/// parameter tape: [composite index, value_hi, value_lo]: a structure that prints a registry-typed field shows that field by the
/// constant's name when one is defined, and otherwise by text containing the value (decimal or hexadecimal)
fn composite_debug(t: &mut Tape, obs: &mut Obs) -> R {
    let ci = t.u8() as usize;
    let v = t.u16() as u32;
    let comps = composites();
    let c = match comps.get(ci) {
        Some(c) => c,
        None => return Ok(()),
    };
    if c.reg.bits == 8 && v > 255 {
        return Ok(());
    }
    let text = guard(c.label, || (c.text)(v))?;
    let sig = format!("C17:composite:{}:value={:#x}", c.label, v);
    let has_token = |name: &str| text.split(|ch: char| !(ch.is_ascii_alphanumeric() || ch == '_')).any(|w| w == name);
    let prints_names = if c.via_display { c.reg.display_names } else { c.reg.debug_names };
    match c.reg.name_of(v).filter(|_| prints_names) {
        Some(name) => {
            obs.nontrivial((ci as u64) << 32 | v as u64);
            obs.class("named");
            ensure!(has_token(name), sig, "{} with value {:#x} is {:?}: the constant defined for this value is {} and does not appear", c.label, v, trunc(&text), name);
            if obs.wants_sample() {
                obs.sample(json!({"structure": c.label, "value": v, "text": trunc(&text)}));
            }
        }
        None => {
            obs.class("unnamed");
            let shown = has_token(&v.to_string()) || has_token(&format!("0x{:x}", v)) || has_token(&format!("{:x}", v)) || has_token(&format!("{:04x}", v)) || has_token(&format!("{:02x}", v)) || has_token(&format!("0x{:04x}", v)) || has_token(&format!("0x{:02x}", v));
            if !shown {
                // a name the tables do not list is tolerated when it is an identifier of no other registered value (as in `names`)
                let other = c.reg.consts.iter().any(|k| has_token(k.0));
                ensure!(!other, sig, "{} with unregistered value {:#x} is {:?}: it shows neither the value nor a new name, but the name of another constant", c.label, v, trunc(&text));
                obs.class("unnamed:value-not-shown");
            }
        }
    }
    Ok(())
}

fn is_ident(s: &str) -> bool {
    !s.is_empty() && s.chars().all(|c| c.is_ascii_alphanumeric() || c == '_') && !s.chars().next().unwrap().is_ascii_digit()
}

/// parameter tape: [type index, value_hi, value_lo]
fn names(t: &mut Tape, obs: &mut Obs) -> R {
    let ti = t.u8() as usize;
    let v = t.u16() as u32;
    let ims = impls();
    let im = match ims.get(ti) {
        Some(i) => i,
        None => return Ok(()),
    };
    let reg = im.reg;
    if reg.bits == 8 && v > 255 {
        return Ok(());
    }
    let named = reg.name_of(v);
    if named.is_some() {
        obs.nontrivial((ti as u64) << 32 | v as u64);
    }
    let dec = v.to_string();
    let check = |what: &str, text: &str, prints_names: bool, obs: &mut Obs| -> R {
        match (named, prints_names) {
            (Some(n), true) => {
                ensure!(text == n, format!("C17:names:{}:{}:value={:#x}", reg.ty, what, v), "{} of {}({:#x}) is {:?}, the constant defined for this value is {}", what, reg.ty, v, text, n);
                obs.class("named");
            }
            (None, true) => {
                ensure!(!reg.has_name(text), format!("C17:names:{}:{}:value={:#x}", reg.ty, what, v), "{} of {}({:#x}) is {:?}, which is the name of a different constant", what, reg.ty, v, text);
                // a name this harness does not list is tolerated (a new constant), except where the registry fixes the value from the
                // name: TLS 1.3 draft NN is 0x7f00 | NN (RFC 8446 4.2.1)
                if reg.ty == "TlsVersion" {
                    if let Some(nn) = text.strip_prefix("Tls13Draft").and_then(|d| d.parse::<u32>().ok()) {
                        ensure!(v == 0x7f00 | nn, format!("C17:names:{}:{}:value={:#x}", reg.ty, what, v), "{} of TlsVersion({:#x}) is {:?}; TLS 1.3 draft {} has the code point {:#06x}", what, v, text, nn, 0x7f00 | nn);
                    }
                }
                if text.contains(&dec) {
                    obs.class("numeric-fallback");
                } else {
                    ensure!(is_ident(text), format!("C17:names:{}:{}:value={:#x}", reg.ty, what, v), "{} of unregistered {}({:#x}) is {:?}: neither a numeric fallback containing {} nor an identifier", what, reg.ty, v, text, dec);
                    obs.class("unlisted-name");
                }
            }
            (_, false) => {
                // derived Debug: must show the raw value
                ensure!(text.contains(&dec), format!("C17:names:{}:{}:value={:#x}", reg.ty, what, v), "{} of {}({:#x}) is {:?} and does not contain {}", what, reg.ty, v, text, dec);
                obs.class("derived-debug");
            }
        }
        Ok(())
    };
    if let Some(d) = (im.display)(v) {
        check("Display", &d, reg.display_names, obs)?;
        if named.is_some() && obs.wants_sample() {
            obs.sample(json!({"type": reg.ty, "value": v, "display": d}));
        }
    }
    if let Some(d) = (im.debug)(v) {
        check("Debug", &d, reg.debug_names, obs)?;
    }
    Ok(())
}

/// parameter tape: [value_hi, value_lo]
fn conversions(t: &mut Tape, obs: &mut Obs) -> R {
    let v = t.u16();
    let b = v as u8;
    if v != 0 {
        obs.nontrivial(v as u64);
    }
    let sig = |what: &str| format!("C17:conversions:{}:value={:#x}", what, v);
    // u16 newtypes
    ensure_eq!(u16::from(TlsVersion(v)), v, sig("TlsVersion->u16"), "u16::from(TlsVersion)");
    ensure_eq!(TlsVersion(v).to_be_bytes(), [(v >> 8) as u8, v as u8], sig("TlsVersion::to_be_bytes"), "to_be_bytes");
    ensure_eq!(format!("{:x}", TlsVersion(v)), format!("{:x}", v), sig("TlsVersion:LowerHex"), "LowerHex");
    ensure_eq!(u16::from(TlsCipherSuiteID(v)), v, sig("TlsCipherSuiteID->u16"), "u16::from(TlsCipherSuiteID)");
    ensure_eq!(*TlsCipherSuiteID(v), v, sig("TlsCipherSuiteID:Deref"), "Deref");
    ensure_eq!(*AsRef::<u16>::as_ref(&TlsCipherSuiteID(v)), v, sig("TlsCipherSuiteID:AsRef"), "AsRef");
    // integer methods reached by method syntax on the newtype (through Deref today; an inherent method of the same name would take over)
    ensure_eq!(TlsCipherSuiteID(v).to_be_bytes(), [(v >> 8) as u8, v as u8], sig("TlsCipherSuiteID.to_be_bytes()"), "to_be_bytes by method syntax");
    ensure_eq!(TlsCipherSuiteID(v).to_le_bytes(), [v as u8, (v >> 8) as u8], sig("TlsCipherSuiteID.to_le_bytes()"), "to_le_bytes by method syntax");
    ensure_eq!(TlsCipherSuiteID(v).swap_bytes(), v.swap_bytes(), sig("TlsCipherSuiteID.swap_bytes()"), "swap_bytes by method syntax");
    ensure_eq!(TlsCipherSuiteID(v).count_ones(), v.count_ones(), sig("TlsCipherSuiteID.count_ones()"), "count_ones by method syntax");
    ensure_eq!(TlsCipherSuiteID(v).leading_zeros(), v.leading_zeros(), sig("TlsCipherSuiteID.leading_zeros()"), "leading_zeros by method syntax");
    ensure_eq!(TlsCipherSuiteID(v).checked_add(1), v.checked_add(1), sig("TlsCipherSuiteID.checked_add()"), "checked_add by method syntax");
    ensure_eq!(TlsCompressionID(b).to_be_bytes(), [b], sig("TlsCompressionID.to_be_bytes()"), "to_be_bytes by method syntax");
    ensure_eq!(TlsCompressionID(b).count_ones(), b.count_ones(), sig("TlsCompressionID.count_ones()"), "count_ones by method syntax");
    ensure_eq!(TlsCompressionID(b).leading_zeros(), b.leading_zeros(), sig("TlsCompressionID.leading_zeros()"), "leading_zeros by method syntax");
    ensure_eq!(format!("{}", TlsCipherSuiteID(v)), v.to_string(), sig("TlsCipherSuiteID:Display"), "Display of a cipher id");
    ensure_eq!(format!("{:x}", TlsCipherSuiteID(v)), format!("{:x}", v), sig("TlsCipherSuiteID:LowerHex"), "LowerHex");
    // ... and under format flags: whether an implementation forwards width / fill / sign to the integer or ignores them (the pinned
    // tree ignores them for Display) is not the statement's business, but the digits printed are still the raw value - in particular
    // a precision does not cut them short, as it would for a string
    let dec = |t: String| t.trim_matches(|c| c == ' ' || c == '*').trim_start_matches('+').parse::<u32>().ok();
    for (spec, text) in [("{:.3}", format!("{:.3}", TlsCipherSuiteID(v))), ("{:.0}", format!("{:.0}", TlsCipherSuiteID(v))), ("{:.64}", format!("{:.64}", TlsCipherSuiteID(v))), ("{:>8}", format!("{:>8}", TlsCipherSuiteID(v))), ("{:<7.2}", format!("{:<7.2}", TlsCipherSuiteID(v))), ("{:08}", format!("{:08}", TlsCipherSuiteID(v))), ("{:+}", format!("{:+}", TlsCipherSuiteID(v))), ("{:*^9.1}", format!("{:*^9.1}", TlsCipherSuiteID(v)))] {
        ensure!(dec(text.clone()) == Some(v as u32), sig("TlsCipherSuiteID:Display-flags"), "Display of cipher id {} with format spec {} is {:?}: not the raw value", v, spec, text);
    }
    let hex = |t: String| u32::from_str_radix(t.trim().trim_start_matches("0x"), 16).ok();
    for (spec, text) in [("{:#x}", format!("{:#x}", TlsCipherSuiteID(v))), ("{:08x}", format!("{:08x}", TlsCipherSuiteID(v))), ("{:.2x}", format!("{:.2x}", TlsCipherSuiteID(v))), ("{:>7x}", format!("{:>7x}", TlsCipherSuiteID(v))), ("{:#x} (version)", format!("{:#x}", TlsVersion(v))), ("{:.1x} (version)", format!("{:.1x}", TlsVersion(v))), ("{:06x} (version)", format!("{:06x}", TlsVersion(v)))] {
        ensure!(hex(text.clone()) == Some(v as u32), sig("LowerHex-flags"), "LowerHex of {} with format spec {} is {:?}: not the raw value", v, spec, text);
    }
    let dbg = format!("{:?}", TlsCipherSuiteID(v));
    ensure!(dbg.contains(&format!("{:04x}", v)), sig("TlsCipherSuiteID:Debug"), "Debug of cipher id {:#06x} is {:?}", v, dbg);
    ensure_eq!(u16::from(TlsExtensionType(v)), v, sig("TlsExtensionType->u16"), "u16::from(TlsExtensionType)");
    ensure_eq!(TlsExtensionType::from_u16(v).0, v, sig("TlsExtensionType::from_u16"), "from_u16");
    ensure_eq!(Into::<u16>::into(TlsExtensionType(v)), v, sig("TlsExtensionType:Into"), "Into<u16>");
    // id lookup conversions agree with each other (contents are C12's business)
    let a = TlsCipherSuite::from_id(v).map(|c| c.id.0);
    let b2 = <&'static TlsCipherSuite>::try_from(v).ok().map(|c| c.id.0);
    let c2 = <&'static TlsCipherSuite>::try_from(TlsCipherSuiteID(v)).ok().map(|c| c.id.0);
    ensure!(a == b2 && a == c2, sig("cipher-lookup-routes"), "lookup routes disagree for id {:#06x}: {:?} {:?} {:?}", v, a, b2, c2);
    // SignatureScheme split
    let s = SignatureScheme(v);
    ensure_eq!(s.hash_alg(), (v >> 8) as u8, sig("SignatureScheme::hash_alg"), "hash_alg");
    ensure_eq!(s.sign_alg(), v as u8, sig("SignatureScheme::sign_alg"), "sign_alg");
    ensure_eq!(s.is_reserved(), (0xfe00..=0xfeff).contains(&v), sig("SignatureScheme::is_reserved"), "is_reserved");
    // key_bits
    let kb = NamedGroup(v).key_bits();
    match iana::NAMED_GROUP.name_of(v as u32) {
        None => ensure!(kb.is_none(), format!("C17:key_bits:group={:#06x}:got={:?}", v, kb), "key_bits() of unregistered group {:#06x} is {:?}, expected None", v, kb),
        Some(name) => {
            obs.nontrivial(0x1_0000 | v as u64);
            if let Some(bits) = iana::classic_curve_bits(v) {
                ensure!(kb == Some(bits), format!("C17:key_bits:group={:#06x}:got={:?}", v, kb), "key_bits() of {} is {:?}, its name states {}", name, kb, bits);
                obs.class("key_bits:classic");
            } else if let Some(opt) = iana::optional_group_bits(v) {
                ensure!(kb.is_none() || kb == opt, format!("C17:key_bits:group={:#06x}:got={:?}", v, kb), "key_bits() of {} is {:?}; acceptable: None or {:?}", name, kb, opt);
                obs.class("key_bits:optional");
            } else {
                obs.class("key_bits:unconstrained");
            }
        }
    }
    // u8 newtypes (low byte; every u8 value is visited 256 times, checked each time)
    if v < 256 {
        ensure_eq!(u8::from(TlsRecordType(b)), b, sig("TlsRecordType->u8"), "u8::from(TlsRecordType)");
        ensure_eq!(u8::from(TlsHandshakeType(b)), b, sig("TlsHandshakeType->u8"), "u8::from(TlsHandshakeType)");
        ensure_eq!(u8::from(TlsHeartbeatMessageType(b)), b, sig("TlsHeartbeatMessageType->u8"), "u8::from");
        ensure_eq!(u8::from(TlsCompressionID(b)), b, sig("TlsCompressionID->u8"), "u8::from");
        ensure_eq!(*TlsCompressionID(b), b, sig("TlsCompressionID:Deref"), "Deref");
        ensure_eq!(*AsRef::<u8>::as_ref(&TlsCompressionID(b)), b, sig("TlsCompressionID:AsRef"), "AsRef");
        obs.class("u8+u16");
    } else {
        obs.class("u16");
    }
    if obs.wants_sample() && v > 0x0300 {
        obs.sample(json!({"value": v, "TlsVersion_hex": format!("{:x}", TlsVersion(v)), "cipher_id_debug": dbg, "key_bits": format!("{:?}", kb)}));
    }
    Ok(())
}
