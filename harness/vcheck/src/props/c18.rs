//! C18 Feature matrix: no_std, std and serialize builds agree; no unsafe code.

use super::c01::{corrupt, gen_structured};
use super::PropDef;
use crate::core::*;
use proptest::strategy::{Strategy, ValueTree};
use proptest::test_runner::{Config, RngAlgorithm, RngSeed, TestRunner};
use serde_json::json;
use std::path::PathBuf;
use std::process::Command;
use tls_parser::*;
use vmodel::tape::{tape, Tape};
use vmodel::model::*;
use vmodel::wire::{fnv64, hex, hex_short, Enc};

pub const DEF: PropDef = PropDef {
    id: "C18",
    title: "Feature matrix: no_std, std and serialize builds agree; no unsafe code",
    rule: "feature_builds = the four feature sets of the statement, enumerated completely: cargo build of the crate (through the cfgdiff probe package, tls-parser with \
           default-features = false plus the selected features) must succeed for {none, std, std+serialize} (each also type-checked in the plain release profile without debug assertions and in the dev profile) and fail for {serialize without std} with the compile_error text; \
           differential = a corpus generated from VERIF_SEED by the proptest tape strategy (model encoders + corruptions + byte soup; quick 6000, thorough 200000 inputs) is run \
           through 30 entry points, registry lookups, the state machine and the defragmenter by the cfgdiff binary of each buildable configuration; the per-input digests of \
           every {:?} result must be byte-identical across the three configurations, as must six fixed probes (public limits, a never-completing 10 MiB defragmentation stream, a 70000-byte fragmented message, records at 16640/16641 bytes, a ClientHello with 32767 ciphers); static_claims = #![forbid(unsafe_code)] present and no `unsafe` token in src/ and build.rs \
           (source scan), Send + Sync of every public value type and of &'static TlsCipherSuite (compile-time assertions instantiated in this harness). \
           Non-trivial = a corpus input on which at least one entry point returns Ok; distinct by hash of the input.",
    assumptions: &[
        "the static sub-claims (no unsafe, Send/Sync) are compile-time facts checked by building, outside generated-input search; stated as such in DESIGN.md",
        "cfgdiff is built with the same rustc, profile (debug assertions and overflow checks on) and --cfg tls_parser_verif in every configuration",
    ],
    run,
};

pub const SUBS: &[SubDef] = &[SubDef { prop: "C18", name: "differential_case", oracle: differential_case }];

fn harness_dir() -> PathBuf {
    PathBuf::from(std::env::var("VERIF_DIR").unwrap_or_else(|_| "/verif".into())).join("harness")
}

const CONFIGS: [(&str, &[&str]); 3] = [("none", &[]), ("std", &["--features", "std"]), ("ser", &["--features", "std,serialize"])];

fn cargo(args: &[&str], target: &str) -> (bool, String) {
    let out = output_with_progress(Command::new("cargo").args(args).current_dir(harness_dir().join("cfgdiff")).env("CARGO_TARGET_DIR", harness_dir().join(target)).env("CARGO_NET_OFFLINE", "true"), 3600, true);
    match out {
        Ok(o) => (o.status.success(), String::from_utf8_lossy(&o.stderr).to_string()),
        Err(e) => (false, format!("cannot run cargo: {}", e)),
    }
}

fn build_all(obs: &mut Obs) -> R {
    for (name, feat) in CONFIGS {
        let mut a = vec!["build", "--release", "-q"];
        a.extend_from_slice(feat);
        obs.eval();
        let (ok, err) = cargo(&a, &format!("target-cfg-{}", name));
        let lines: Vec<&str> = err.lines().filter(|l| l.starts_with("error")).take(4).collect();
        ensure!(ok, format!("C18:build:{}", name), "tls-parser does not build with feature set `{}`: {}", name, lines.join(" | "));
        obs.nontrivial(fnv64(name.as_bytes()));
        obs.sample(json!({"feature_set": name, "cargo_args": a, "result": "builds"}));
        // the same feature set in the other profiles a user builds with: plain release (no debug assertions) and dev
        for (pn, pargs) in [("plainrelease", vec!["check", "-q", "--profile", "plainrelease"]), ("dev", vec!["check", "-q"])] {
            let mut a = pargs.clone();
            a.extend_from_slice(feat);
            obs.eval();
            let (ok, err) = cargo(&a, &format!("target-cfg-{}", name));
            let lines: Vec<&str> = err.lines().filter(|l| l.starts_with("error")).take(4).collect();
            ensure!(ok, format!("C18:build:{}:{}", name, pn), "tls-parser does not build with feature set `{}` in the {} profile: {}", name, pn, lines.join(" | "));
            obs.nontrivial(fnv64(format!("{}/{}", name, pn).as_bytes()));
        }
    }
    obs.eval();
    let (ok, err) = cargo(&["check", "--release", "-q", "--features", "serialize"], "target-cfg-bad");
    ensure!(!ok, "C18:build:serialize-without-std-accepted", "enabling `serialize` without `std` must be refused at compile time, but the build succeeded");
    ensure!(err.contains("cannot be enabled when using `no_std`"), "C18:build:serialize-without-std-message", "the build fails without the documented compile_error text: {}", trunc(&err));
    obs.nontrivial(fnv64(b"serialize-without-std"));
    obs.sample(json!({"feature_set": "serialize without std", "result": "refused with the compile_error text"}));
    // the same refusal for every way the crate itself gets compiled: as a library (above, through a dependent package) and as its own
    // unit-test harness (cfg(test): `cargo test --lib`), whose guards can differ from the library's
    let repo = std::env::var("VERIF_REPO").unwrap_or_else(|_| "/repo".into());
    for (what, args) in [("cargo check --lib", vec!["check", "--lib", "-q", "--offline", "--no-default-features", "--features", "serialize"]), ("cargo check --lib --profile test (the unit-test harness)", vec!["check", "--lib", "--profile", "test", "-q", "--offline", "--no-default-features", "--features", "serialize"])] {
        obs.eval();
        let out = output_with_progress(Command::new("cargo").args(&args).current_dir(&repo).env("CARGO_TARGET_DIR", harness_dir().join("target-cfg-bad")).env("CARGO_NET_OFFLINE", "true").env_remove("RUSTFLAGS"), 3600, true).map_err(|e| Fail { sig: "harness:cargo".into(), msg: format!("{}", e) })?;
        let err = String::from_utf8_lossy(&out.stderr).to_string();
        ensure!(!out.status.success(), "C18:build:serialize-without-std-accepted", "enabling `serialize` without `std` must be refused at compile time, but `{}` in the crate succeeded", what);
        if err.contains("cannot be enabled when using `no_std`") {
            obs.nontrivial(fnv64(what.as_bytes()));
            obs.sample(json!({"feature_set": "serialize without std", "command": what, "result": "refused with the compile_error text"}));
        } else {
            // failed for another reason (a dev-dependency that cannot be resolved offline, ...): nothing is learnt, and nothing is claimed
            obs.class("crate-level-refusal-probe-unavailable");
            obs.sample(json!({"command": what, "result": "failed without the compile_error text", "stderr": trunc(&err)}));
        }
    }
    Ok(())
}

fn run_bins(corpus: &PathBuf) -> Result<Vec<(String, String)>, Fail> {
    run_bins_env(corpus, false)
}

/// `closed_stderr`: the children get a standard error stream that rejects every write (/dev/full), the way a daemon with a closed
/// or full stderr runs: a parser that prints a diagnostic in one configuration only then panics there and returns a value elsewhere
fn run_bins_env(corpus: &PathBuf, closed_stderr: bool) -> Result<Vec<(String, String)>, Fail> {
    let mut outs = Vec::new();
    for (name, _) in CONFIGS {
        let bin = harness_dir().join(format!("target-cfg-{}/release/cfgdiff", name));
        let mut cmd = Command::new(&bin);
        cmd.arg(corpus);
        if closed_stderr {
            match std::fs::OpenOptions::new().write(true).open("/dev/full") {
                Ok(f) => {
                    cmd.stderr(std::process::Stdio::from(f));
                }
                Err(_) => return Ok(Vec::new()),
            }
        }
        let o = output_with_progress(&mut cmd, 7200, !closed_stderr);
        match o {
            Ok(o) if o.status.success() => outs.push((name.to_string(), String::from_utf8_lossy(&o.stdout).to_string())),
            Ok(o) => return fail(format!("C18:run:{}", name), format!("cfgdiff built with feature set `{}` crashed: {} {}", name, o.status, trunc(&String::from_utf8_lossy(&o.stderr)))),
            Err(e) => return fail("harness:cfgdiff-missing", format!("cannot run {}: {}", bin.display(), e)),
        }
    }
    Ok(outs)
}

fn gen_corpus_input(t: &mut Tape) -> Vec<u8> {
    // inputs are kept under 1200 bytes: every result (errors carry the input) is formatted 30 times per configuration
    let mut b = gen_corpus_input_raw(t);
    b.truncate(1200);
    b
}

fn gen_corpus_input_raw(t: &mut Tape) -> Vec<u8> {
    match t.weighted(&[2, 7, 2]) {
        0 => {
            let n = t.below(48);
            t.bytes(n)
        }
        // hellos and extension blocks in the TLS 1.3 shape (structured key_share / pre_shared_key / supported_versions contents)
        2 => super::c01::tls13_hellos(t),
        _ => {
            let e = gen_structured(t);
            if t.chance(128) {
                e.buf
            } else {
                corrupt(t, &e)
            }
        }
    }
}

fn run(ctx: &Ctx) {
    ctx.run_fn("feature_builds", true, "the four feature sets {none, std, std+serialize, serialize-without-std}", build_all);
    let n = ctx.pick(6_000, 200_000) as usize;
    let seed = ctx.seed;
    ctx.run_fn("differential", false, &format!("{} corpus inputs from the proptest tape strategy x 3 configurations", n), |obs| {
        // corpus from the library's generator, fixed seed
        let cfg = Config { failure_persistence: None, rng_algorithm: RngAlgorithm::ChaCha, rng_seed: RngSeed::Fixed(seed.wrapping_mul(0x9E37_79B9_7F4A_7C15) ^ 0xC18), ..Config::default() };
        let mut runner = TestRunner::new(cfg);
        let strat = tape(500);
        let mut inputs: Vec<Vec<u8>> = Vec::with_capacity(n);
        for _ in 0..n {
            let tree = strat.new_tree(&mut runner).map_err(|e| Fail { sig: "harness:strategy".into(), msg: format!("{}", e) })?;
            let data = tree.current();
            let mut t = Tape::new(&data);
            inputs.push(gen_corpus_input(&mut t));
        }
        // plus a fixed-size block of inputs built directly from the structured generators a TLS-aware change is most likely to key on
        // (key_share lists with repeated groups, OfferedPsks, server names of every shape, TLS 1.3 extension blocks, SSLv2 hellos)
        for i in 0..1000u64 {
            let data = vmodel::tape::fill(seed ^ 0xC18E ^ (i << 20), 400);
            let mut t = Tape::new(&data);
            let mut e = Enc::new();
            match i % 10 {
                0..=3 => MExt::KeyShare(gen_key_share_content(&mut t, 400)).encode(&mut e),
                4 => MExt::PreSharedKey(gen_psk_content(&mut t, 400)).encode(&mut e),
                5 | 6 => gen_ext_known(&mut t, 0, 300).encode(&mut e),
                7 | 8 => e.bytes(&gen_tls13_server_ext(&mut t)),
                _ => e.bytes(&gen_sslv2_hello(&mut t).0),
            }
            let mut b = e.buf;
            b.truncate(1200);
            inputs.push(b);
        }
        // runs of near-duplicates: cfgdiff also reports what `==` says about the values decoded from consecutive inputs, so the corpus
        // holds messages next to their closest neighbours (extension block absent / empty / present, one body byte changed), bare and
        // inside a record
        for i in 0..500u64 {
            let data = vmodel::tape::fill(seed ^ 0xC18D ^ (i << 20), 400);
            let mut t = Tape::new(&data);
            let kind = [1usize, 2, 1, 3, 6, 2][(i % 6) as usize];
            let h = if i % 5 == 4 { gen_hs(&mut t, 200) } else { gen_hs_kind(&mut t, kind, 200) };
            let mut variants: Vec<MHs> = vec![h.clone()];
            let with_ext = |h: &MHs, x: Option<Vec<u8>>| {
                let mut v = h.clone();
                match &mut v {
                    MHs::ClientHello { ext, .. } | MHs::ServerHello { ext, .. } | MHs::ServerHelloD18 { ext, .. } | MHs::HelloRetryRequest { ext, .. } => *ext = x,
                    _ => {}
                }
                v
            };
            variants.push(with_ext(&h, None));
            variants.push(with_ext(&h, Some(vec![])));
            variants.push(with_ext(&h, Some(vec![0, 23, 0, 0])));
            variants.push(with_ext(&h, None));
            let in_record = i % 2 == 1;
            let mut push = |bytes: Vec<u8>| {
                let mut b = if in_record {
                    let mut e = Enc::new();
                    e.u8(0x16);
                    e.u16(0x0303);
                    e.vec(2, "rec.len", &bytes);
                    e.buf
                } else {
                    bytes
                };
                b.truncate(1200);
                inputs.push(b);
            };
            for v in &variants {
                push(v.to_bytes());
            }
            // one byte of the body changed
            let mut b = h.to_bytes();
            if b.len() > 5 {
                let pos = 4 + t.below(b.len() - 4);
                b[pos] ^= 1 + t.below(255) as u8;
                push(b);
            }
            push(h.to_bytes());
        }
        let n = inputs.len();
        let dir = harness_dir().join("target-cfg-corpus");
        let _ = std::fs::create_dir_all(&dir);
        let path = dir.join(format!("corpus-{}.txt", std::process::id()));
        let text: String = inputs.iter().map(|i| format!("{}\n", hex(i))).collect();
        std::fs::write(&path, text).map_err(|e| Fail { sig: "harness:corpus".into(), msg: format!("{}", e) })?;
        let outs = run_bins(&path);
        let _ = std::fs::remove_file(&path);
        let outs = outs?;
        obs.evals_add((n * 3) as u64);
        let base: Vec<&str> = outs[0].1.lines().collect();
        ensure!(base.len() > n, "harness:cfgdiff-lines", "cfgdiff printed {} lines for {} inputs", base.len(), n);
        for (name, out) in &outs[1..] {
            let l: Vec<&str> = out.lines().collect();
            ensure!(l.len() == base.len(), "harness:cfgdiff-lines", "cfgdiff[{}] printed {} lines, cfgdiff[{}] {}", name, l.len(), outs[0].0, base.len());
            for i in 0..base.len() {
                if l[i] != base[i] {
                    if i >= n {
                        // the fixed probes after the corpus: public limits, long defragmentation streams, structures at their size limits
                        return Err(Fail { sig: format!("C18:differential:probe:{}-vs-{}", outs[0].0, name), msg: format!("configurations `{}` and `{}` disagree on a fixed probe: `{}` vs `{}`", outs[0].0, name, base[i], l[i]) });
                    }
                    return Err(Fail { sig: format!("C18:differential:{}-vs-{}", outs[0].0, name), msg: format!("configurations `{}` and `{}` disagree on input {}: `{}` vs `{}`\nINPUT {}", outs[0].0, name, hex_short(&inputs[i]), base[i], l[i], hex(&inputs[i])) });
                }
            }
        }
        obs.evals_add(((base.len() - n) * 3) as u64);
        obs.sample(json!({"fixed_probes": base[n..].to_vec()}));
        // the first inputs once more with an unwritable standard error stream
        let m = n.min(2000);
        let path2 = dir.join(format!("corpus-{}-b.txt", std::process::id()));
        let text: String = inputs.iter().take(m).map(|i| format!("{}\n", hex(i))).collect();
        std::fs::write(&path2, text).map_err(|e| Fail { sig: "harness:corpus".into(), msg: format!("{}", e) })?;
        let outs2 = run_bins_env(&path2, true);
        let _ = std::fs::remove_file(&path2);
        let outs2 = outs2?;
        if outs2.is_empty() {
            obs.class("closed-stderr-pass-unavailable");
        } else {
            obs.evals_add((m * 3) as u64);
            for (name, out) in &outs2[1..] {
                ensure!(*out == outs2[0].1, format!("C18:differential:closed-stderr:{}-vs-{}", outs2[0].0, name), "with an unwritable stderr configurations `{}` and `{}` disagree", outs2[0].0, name);
            }
            let first: Vec<&str> = outs2[0].1.lines().take(m).collect();
            ensure!(first == base[..m].to_vec(), "C18:differential:closed-stderr:differs-from-normal-run", "configuration `{}` answers differently when stderr is unwritable", outs2[0].0);
            obs.class("closed-stderr-pass");
        }
        for (i, l) in base.iter().take(n).enumerate() {
            let ok: u32 = l.split(' ').nth(1).and_then(|x| x.parse().ok()).unwrap_or(0);
            if ok > 0 {
                obs.nontrivial(fnv64(&inputs[i]));
                obs.sample(json!({"input": hex_short(&inputs[i]), "digest_line": l}));
            }
            obs.class(if ok > 0 { "some-entry-point-ok" } else { "all-rejected" });
        }
        Ok(())
    });
    ctx.run_fn("static_claims", true, "source scan for `unsafe` / forbid(unsafe_code), also after macro expansion in each feature set; compile-time Send + Sync assertions per feature set", static_claims);
    let per = ctx.pick(40_000, 1_000_000) as usize;
    ctx.run_fn("shared_registry", false, &format!("8 threads x {} rounds of every lookup route on the shared static registry", per), move |obs| shared_registry(obs, per));
}

/// replay of one differential case: the tape is the input itself
fn differential_case(t: &mut Tape, _obs: &mut Obs) -> R {
    let mut input = Vec::new();
    while !t.exhausted() {
        input.push(t.u8());
    }
    let dir = harness_dir().join("target-cfg-corpus");
    let _ = std::fs::create_dir_all(&dir);
    let path = dir.join(format!("replay-{}.txt", std::process::id()));
    std::fs::write(&path, format!("{}\n", hex(&input))).map_err(|e| Fail { sig: "harness:corpus".into(), msg: format!("{}", e) })?;
    let outs = run_bins(&path);
    let _ = std::fs::remove_file(&path);
    let outs = outs?;
    for (name, o) in &outs[1..] {
        ensure!(*o == outs[0].1, format!("C18:differential:{}-vs-{}", outs[0].0, name), "configurations disagree on {}: {} vs {}", hex_short(&input), outs[0].1.trim(), o.trim());
    }
    Ok(())
}

fn static_claims(obs: &mut Obs) -> R {
    let repo = std::env::var("VERIF_REPO").unwrap_or_else(|_| "/repo".into());
    let lib = std::fs::read_to_string(format!("{}/src/lib.rs", repo)).map_err(|e| Fail { sig: "harness:read".into(), msg: format!("{}", e) })?;
    obs.eval();
    ensure!(lib.lines().any(|l| l.trim() == "#![forbid(unsafe_code)]"), "C18:static:forbid-missing", "src/lib.rs no longer carries #![forbid(unsafe_code)]");
    let mut files: Vec<PathBuf> = std::fs::read_dir(format!("{}/src", repo)).map(|d| d.filter_map(|e| e.ok()).map(|e| e.path()).filter(|p| p.extension().map_or(false, |x| x == "rs")).collect()).unwrap_or_default();
    files.push(PathBuf::from(format!("{}/build.rs", repo)));
    files.sort();
    for f in &files {
        let text = std::fs::read_to_string(f).unwrap_or_default();
        for (n, line) in text.lines().enumerate() {
            obs.eval();
            let code = strip_strings(line.split("//").next().unwrap_or(""));
            if code.contains("forbid(unsafe_code)") {
                continue;
            }
            let has = code.split(|c: char| !(c.is_alphanumeric() || c == '_')).any(|w| w == "unsafe");
            ensure!(!has, "C18:static:unsafe-token", "{}:{} contains the `unsafe` keyword: {}", f.display(), n + 1, line.trim());
        }
        obs.nontrivial(fnv64(f.to_string_lossy().as_bytes()));
    }
    obs.sample(json!({"files_scanned": files.len()}));
    // "contains none" also after macro expansion: a derive can bring in `unsafe fn` / `unsafe impl` without the keyword appearing in the
    // sources, and the unsafe_code lint is not reported for code produced by an external derive. The crate is expanded with the nightly
    // toolchain (-Zunpretty=expanded) once per buildable feature set and every `unsafe` token outside string literals and doc text is
    // reported, except the two forms the compiler's own derives emit (`unsafe impl ::core::clone::TrivialClone for T { }` and the
    // `_ => unsafe { ::core::intrinsics::unreachable() }` arm of a derived comparison).
    for (cfg, flags) in [("no_std+alloc", &["--no-default-features"][..]), ("std", &[][..]), ("std+serialize", &["--features", "serialize"][..])] {
        obs.eval();
        let out = output_with_progress(
            Command::new("cargo")
                .args(["+nightly", "rustc", "--lib", "--offline", "-q"])
                .args(flags)
                .args(["--", "-Zunpretty=expanded"])
                .current_dir(&repo)
                .env("CARGO_TARGET_DIR", harness_dir().join("target-expand"))
                .env("CARGO_NET_OFFLINE", "true")
                .env_remove("RUSTFLAGS"),
            3600,
            true,
        )
            .map_err(|e| Fail { sig: "harness:cargo".into(), msg: format!("{}", e) })?;
        if !out.status.success() || out.stdout.len() < 10_000 {
            // no nightly toolchain / expansion unavailable: this part is skipped and says so (never a violation)
            obs.class("expansion-unavailable");
            obs.sample(json!({"macro_expansion": "unavailable", "feature_set": cfg, "stderr": String::from_utf8_lossy(&out.stderr).lines().last().unwrap_or("").to_string()}));
            continue;
        }
        let text = String::from_utf8_lossy(&out.stdout);
        let mut lines_scanned = 0u64;
        for (n, line) in text.lines().enumerate() {
            let tl = line.trim_start();
            if tl.starts_with("//") || tl.starts_with("#[doc") || tl.starts_with("#![doc") {
                continue;
            }
            lines_scanned += 1;
            let code = strip_strings(line.split("//").next().unwrap_or(""));
            if code.contains("forbid(unsafe_code)") {
                continue;
            }
            let t = code.trim();
            // the two forms the compiler's own derives emit (Clone/Copy marker impl; the impossible arm of a derived comparison on an enum)
            if (t.starts_with("unsafe impl ::core::clone::TrivialClone for ") && t.ends_with("{ }")) || t == "_ => unsafe { ::core::intrinsics::unreachable() }" {
                continue;
            }
            let has = code.split(|c: char| !(c.is_alphanumeric() || c == '_')).any(|w| w == "unsafe");
            ensure!(!has, format!("C18:static:unsafe-after-expansion:{}", cfg), "with feature set {} the macro-expanded crate contains unsafe code (expanded line {}): {}", cfg, n + 1, line.trim());
        }
        obs.evals_add(lines_scanned);
        obs.nontrivial(fnv64(format!("expanded:{}", cfg).as_bytes()));
        obs.sample(json!({"macro_expansion": "scanned", "feature_set": cfg, "expanded_lines": lines_scanned}));
    }
    // every public value type is Send + Sync: a probe package holding one `assert_send_sync::<T>()` per type is type-checked now
    // (once per buildable feature set: a cfg-dependent field type can make a type !Send in one configuration only)
    for (cfg, flags) in [("no_std+alloc", &[][..]), ("std", &["--features", "std"][..]), ("std+serialize", &["--features", "std,serialize"][..])] {
        obs.eval();
        let out = output_with_progress(Command::new("cargo").args(["check", "--release", "-q"]).args(flags).current_dir(harness_dir().join("sendsync")).env("CARGO_TARGET_DIR", harness_dir().join("target-cfg-sendsync")).env("CARGO_NET_OFFLINE", "true"), 3600, true)
            .map_err(|e| Fail { sig: "harness:cargo".into(), msg: format!("{}", e) })?;
        let err = String::from_utf8_lossy(&out.stderr).to_string();
        if !out.status.success() {
            let relevant: Vec<&str> = err.lines().filter(|l| l.contains("cannot be sent between threads") || l.contains("cannot be shared between threads") || l.starts_with("error")).take(6).collect();
            if err.contains("cannot be sent between threads safely") || err.contains("cannot be shared between threads safely") {
                return fail(format!("C18:static:not-send-sync:{}", cfg), format!("with feature set {} a public value type is not Send + Sync: {}", cfg, relevant.join(" | ")));
            }
            if err.contains("lifetime may not live long enough") || err.contains("borrowed data escapes") || err.contains("returning this value requires") || err.contains("explicit lifetime required") {
                let relevant: Vec<&str> = err.lines().filter(|l| l.starts_with("error") || l.contains("-->") ).take(6).collect();
                return fail(format!("C18:static:registry-reference-not-static:{}", cfg), format!("with feature set {} a registry lookup no longer returns a `&'static TlsCipherSuite` (the reference borrows from its argument, so it cannot be kept or moved to another thread): {}", cfg, relevant.join(" | ")));
            }
            return fail("harness:sendsync-probe", format!("the Send/Sync probe does not compile with feature set {} for another reason (API change?): {}", cfg, relevant.join(" | ")));
        }
        obs.nontrivial(fnv64(cfg.as_bytes()));
    }
    let n = std::fs::read_to_string(harness_dir().join("sendsync/src/lib.rs")).map(|s| s.matches("assert_send_sync::<").count() as u64).unwrap_or(0);
    obs.evals_add(3 * n);
    obs.sample(json!({"send_sync_types_type_checked": n, "feature_sets": 3}));
    // and the registry is really shared: read it from several threads
    let ids: Vec<u16> = (0..4u16).map(|i| 0x1301 + i).collect();
    let names: Vec<Option<&'static str>> = std::thread::scope(|s| ids.iter().map(|id| s.spawn(move || TlsCipherSuite::from_id(*id).map(|c| c.name))).collect::<Vec<_>>().into_iter().map(|h| h.join().unwrap()).collect());
    ensure!(names.iter().all(|n| n.is_some()), "C18:static:registry-threads", "registry lookups from threads: {:?}", names);
    Ok(())
}

/// blank out the contents of string literals (a message that mentions the word is not code)
fn strip_strings(code: &str) -> String {
    let mut out = String::with_capacity(code.len());
    let mut in_str = false;
    let mut esc = false;
    for c in code.chars() {
        if in_str {
            if esc {
                esc = false;
            } else if c == '\\' {
                esc = true;
            } else if c == '"' {
                in_str = false;
                out.push(c);
            }
        } else {
            if c == '"' {
                in_str = true;
            }
            out.push(c);
        }
    }
    out
}

/// "the static cipher registry can be shared across threads": every lookup route used from 8 threads at once, each thread walking the
/// registry in its own order and interleaving unknown ids and names; every answer is compared with the registry text file.
/// (The schedule belongs to the OS, so a race may need many lookups to show: the workload is fixed, 8 x `per_thread` lookups.)
fn shared_registry(obs: &mut Obs, per_thread: usize) -> R {
    let tb = super::c12::tabs()?;
    let rows = &tb.file;
    let n = rows.len();
    let barrier = std::sync::Barrier::new(8);
    let results: Vec<Result<u64, (String, String)>> = std::thread::scope(|s| {
        let hs: Vec<_> = (0..8usize)
            .map(|ti| {
                let barrier = &barrier;
                s.spawn(move || {
                    barrier.wait();
                    let mut done = 0u64;
                    // thread ti walks the rows with its own stride (coprime with 352 = 2^5 * 11)
                    let stride = [1usize, 3, 5, 7, 9, 13, 15, 17][ti];
                    for k in 0..per_thread {
                        let r = &rows[(ti * 41 + k * stride) % n];
                        let by_name = TlsCipherSuite::from_name(&r.name);
                        match by_name {
                            Some(c) if c.id.0 == r.id && c.name == r.name => {}
                            o => return Err(("C18:threads:from_name".to_string(), format!("thread {}: from_name({}) returned {:?} while other threads were looking up other names", ti, r.name, o.map(|c| (c.id.0, c.name))))),
                        }
                        let by_try = <&'static TlsCipherSuite>::try_from(r.name.as_str()).ok();
                        match by_try {
                            Some(c) if c.id.0 == r.id && c.name == r.name => {}
                            o => return Err(("C18:threads:TryFrom<&str>".to_string(), format!("thread {}: try_from({}) returned {:?}", ti, r.name, o.map(|c| (c.id.0, c.name))))),
                        }
                        match TlsCipherSuite::from_id(r.id) {
                            Some(c) if c.id.0 == r.id && c.name == r.name => {}
                            o => return Err(("C18:threads:from_id".to_string(), format!("thread {}: from_id({:#06x}) returned {:?}", ti, r.id, o.map(|c| (c.id.0, c.name))))),
                        }
                        match TlsCipherSuiteID(r.id).get_ciphersuite() {
                            Some(c) if c.id.0 == r.id => {}
                            o => return Err(("C18:threads:get_ciphersuite".to_string(), format!("thread {}: get_ciphersuite({:#06x}) returned {:?}", ti, r.id, o.map(|c| (c.id.0, c.name))))),
                        }
                        // unknown id / name in between
                        let unk = 0x4000u16 + ((k * 7 + ti) % 0x1000) as u16;
                        if TlsCipherSuite::from_id(unk).is_some() && !rows.iter().any(|x| x.id == unk) {
                            return Err(("C18:threads:from_id:phantom".to_string(), format!("thread {}: from_id({:#06x}) returned a suite", ti, unk)));
                        }
                        if let Some(c) = TlsCipherSuite::from_name(&r.name[..r.name.len() - 1]) {
                            if c.name != &r.name[..r.name.len() - 1] {
                                return Err(("C18:threads:from_name:phantom".to_string(), format!("thread {}: from_name({}) returned {}", ti, &r.name[..r.name.len() - 1], c.name)));
                            }
                        }
                        done += 6;
                    }
                    Ok(done)
                })
            })
            .collect();
        hs.into_iter().map(|h| h.join().unwrap_or_else(|_| Err(("panic:shared_registry".to_string(), "a lookup thread panicked".to_string())))).collect()
    });
    for r in results {
        match r {
            Ok(d) => obs.evals_add(d),
            Err((sig, msg)) => return fail(sig, msg),
        }
    }
    obs.nontrivial(per_thread as u64);
    obs.sample(json!({"threads": 8, "lookups_per_thread": per_thread * 6, "routes": ["from_name", "TryFrom<&str>", "from_id", "get_ciphersuite"]}));
    Ok(())
}
