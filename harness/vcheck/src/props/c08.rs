//! C08 Handshake state machine accepts exactly the documented TLS flows.

use super::PropDef;
use crate::core::*;
use crate::mk;
use serde_json::json;
use tls_parser::*;
use vmodel::model::*;
use vmodel::states::{self, Kind, STATE_NAMES};
use vmodel::tape::Tape;

pub const DEF: PropDef = PropDef {
    id: "C08",
    title: "Handshake state machine accepts exactly the documented TLS flows",
    rule: "cells = complete enumeration of 25 states x 2 directions x message kinds (17 handshake kinds, ClientHello with and without session id, \
           ChangeCipherSpec, all 256x256 alerts, application data, heartbeat) against the harness's edge-list model; content = generated payloads \
           (handshake values of every kind from the C04 generators, alerts, app data, heartbeats) in every state/direction: the outcome must be the \
           model's for the kind, whatever the payload; sequences = random message sequences of 1..60 steps from None, implementation and model run in \
           lock step (on error both continue from Invalid as the documentation prescribes). Non-trivial = a cell whose expected answer is Ok with a \
           state change, or a sequence with >= 3 accepted state-changing steps; distinct by cell / by hash of the kind sequence.",
    assumptions: &[
        "the reference model (harness/vmodel/src/states.rs) is a transcription of the flows listed in the statement; it shares no code with the crate",
        "direction of ChangeCipherSpec rows is as documented in the crate (CCS is not a handshake message, the sender rule of the statement does not apply to it)",
    ],
    run,
};

pub const SUBS: &[SubDef] = &[
    SubDef { prop: "C08", name: "cells", oracle: cells },
    SubDef { prop: "C08", name: "content", oracle: content },
    SubDef { prop: "C08", name: "sequences", oracle: sequences },
];

const STATES: [TlsState; 25] = [
    TlsState::None, TlsState::ClientHello, TlsState::AskResumeSession, TlsState::ResumeSession, TlsState::ServerHello, TlsState::Certificate,
    TlsState::CertificateSt, TlsState::ServerKeyExchange, TlsState::ServerHelloDone, TlsState::ClientKeyExchange, TlsState::ClientChangeCipherSpec,
    TlsState::CRCertRequest, TlsState::CRHelloDone, TlsState::CRCert, TlsState::CRClientKeyExchange, TlsState::CRCertVerify, TlsState::NoCertSKE,
    TlsState::NoCertHelloDone, TlsState::NoCertCKE, TlsState::PskHelloDone, TlsState::PskCKE, TlsState::SessionEncrypted, TlsState::Alert,
    TlsState::Finished, TlsState::Invalid,
];

fn state_index(s: TlsState) -> usize {
    STATES.iter().position(|x| *x == s).expect("state in table")
}

fn run(ctx: &Ctx) {
    ctx.run_fn("state_table", true, "the 25 states of the crate map one-to-one onto the model's state names", |obs| {
        for (i, s) in STATES.iter().enumerate() {
            obs.eval();
            obs.nontrivial(i as u64);
            ensure!(format!("{:?}", s) == STATE_NAMES[i], "C08:state-names", "state {} is {:?} in the crate, {} in the model", i, s, STATE_NAMES[i]);
        }
        obs.sample(json!({"states": STATE_NAMES.to_vec()}));
        Ok(())
    });
    // cells: [state, dir, kind_tag, a, b]
    let mut cases: Vec<Vec<u8>> = Vec::new();
    for s in 0..25u8 {
        for d in 0..2u8 {
            for k in 0..HS_KINDS as u8 {
                cases.push(vec![s, d, 0, k, 0]);
            }
            cases.push(vec![s, d, 0, 1, 1]); // ClientHello with a session id
            cases.push(vec![s, d, 1, 0, 0]);
            cases.push(vec![s, d, 3, 0, 0]);
            cases.push(vec![s, d, 4, 0, 0]);
            for sev in 0..=255u8 {
                for code in 0..=255u8 {
                    cases.push(vec![s, d, 2, sev, code]);
                }
            }
        }
    }
    ctx.run_enum("cells", cells, true, "25 states x 2 directions x (17 handshake kinds + ClientHello with session id + CCS + 65536 alerts + application data + heartbeat)", cases.into_iter());
    ctx.run_tape("content", content, ctx.pick(80_000, 2_000_000), 256);
    ctx.run_tape("sequences", sequences, ctx.pick(40_000, 500_000), 200);
}

fn res_to_model(r: Result<TlsState, StateChangeError>) -> Result<Result<usize, ()>, Fail> {
    match r {
        Ok(s) => Ok(Ok(state_index(s))),
        Err(StateChangeError::InvalidTransition) => Ok(Err(())),
        Err(e) => fail("C08:unexpected-error-kind", format!("tls_state_transition returned {:?}; every rejected transition must be InvalidTransition", e)),
    }
}

fn show(r: Result<usize, ()>) -> String {
    match r {
        Ok(s) => format!("Ok({})", STATE_NAMES[s]),
        Err(()) => "Err(InvalidTransition)".into(),
    }
}

fn minimal_msg(kind: Kind) -> MMsg {
    match kind {
        Kind::Hs(k, sid) => {
            let empty: [u8; 0] = [];
            let mut t = Tape::new(&empty);
            let mut h = gen_hs_kind(&mut t, k, 64);
            if let MHs::ClientHello { sid: s, .. } = &mut h {
                *s = if sid { Some(vec![7]) } else { None };
            }
            MMsg::Hs(h)
        }
        Kind::Ccs => MMsg::Ccs,
        Kind::Alert(sev) => MMsg::Alert(sev, 0),
        Kind::AppData => MMsg::AppData(vec![]),
        Kind::Heartbeat => MMsg::Heartbeat { ty: 1, payload_len: 0, payload: vec![] },
    }
}

fn kind_of(m: &MMsg) -> Kind {
    match m {
        MMsg::Hs(h) => Kind::Hs(h.kind_index(), matches!(h, MHs::ClientHello { sid: Some(_), .. })),
        MMsg::Ccs => Kind::Ccs,
        MMsg::Alert(s, _) => Kind::Alert(*s),
        MMsg::AppData(_) => Kind::AppData,
        MMsg::Heartbeat { .. } => Kind::Heartbeat,
    }
}

fn check_cell(state: usize, m: &MMsg, to_server: bool, what: &str) -> R {
    let kind = kind_of(m);
    let want = states::expected(state, kind, to_server);
    let tm = mk::msg(m);
    let got = res_to_model(guard("tls_state_transition", || tls_state_transition(STATES[state], &tm, to_server))?)?;
    if got != want {
        return fail(
            format!("C08:{}:state={}:kind={:?}:to_server={}", what, STATE_NAMES[state], kind, to_server),
            format!("tls_state_transition({}, {:?}, to_server={}) = {}, the documented flows give {}", STATE_NAMES[state], kind, to_server, show(got), show(want)),
        );
    }
    Ok(())
}

/// parameter tape: [state, dir, tag, a, b]; tag 0 = handshake kind a (b=1: ClientHello with session id), 1 = CCS, 2 = alert(a,b), 3 = app data, 4 = heartbeat
fn cells(t: &mut Tape, obs: &mut Obs) -> R {
    let state = (t.u8() as usize) % 25;
    let to_server = t.u8() & 1 == 1;
    let tag = t.u8();
    let a = t.u8();
    let b = t.u8();
    let m = match tag {
        0 => minimal_msg(Kind::Hs(a as usize % HS_KINDS, b == 1)),
        1 => MMsg::Ccs,
        2 => MMsg::Alert(a, b),
        3 => MMsg::AppData(vec![1, 2, 3]),
        _ => MMsg::Heartbeat { ty: 1, payload_len: 2, payload: vec![9, 9] },
    };
    let kind = kind_of(&m);
    if let Ok(n) = states::expected(state, kind, to_server) {
        if n != state {
            obs.nontrivial((state as u64) << 32 | (to_server as u64) << 24 | (tag as u64) << 16 | (a as u64) << 8 | b as u64);
            if tag != 2 {
                obs.sample(json!({"state": STATE_NAMES[state], "to_server": to_server, "kind": format!("{:?}", kind), "expected": STATE_NAMES[n]}));
            }
        }
    }
    obs.class(match tag {
        0 => "handshake",
        1 => "ccs",
        2 => "alert",
        3 => "appdata",
        _ => "heartbeat",
    });
    check_cell(state, &m, to_server, "cell")
}

fn gen_msg(t: &mut Tape) -> MMsg {
    match t.weighted(&[8, 2, 2, 1, 1, 2]) {
        5 => {
            // constructed ClientHello whose session id has a length no parser would produce (the state machine takes any TlsMessage)
            let mut h = gen_hs_kind(t, 1, 100);
            let n = t.pick(&[33usize, 255, 256, 257, 512, 768, 1024, 65535, 65536, 65537]);
            if let MHs::ClientHello { sid, .. } = &mut h {
                *sid = Some(vec![0x5a; n]);
            }
            MMsg::Hs(h)
        }
        0 => MMsg::Hs(gen_hs(t, 300)),
        1 => MMsg::Ccs,
        2 => MMsg::Alert(if t.bool() { t.pick(&[1u8, 2]) } else { t.u8() }, t.u8()),
        3 => MMsg::AppData(if t.chance(40) { vec![0x17; t.pick(&[16384usize, 16640, 16641, 20000, 70000])] } else { t.small_blob(100) }),
        _ => {
            let p = t.small_blob(50);
            MMsg::Heartbeat { ty: t.u8(), payload_len: t.u16b(), payload: p }
        }
    }
}

/// outcome depends only on state, direction, kind, session-id presence and alert severity
fn content(t: &mut Tape, obs: &mut Obs) -> R {
    let state = t.below(25);
    let to_server = t.bool();
    let m = gen_msg(t);
    let kind = kind_of(&m);
    let h = vmodel::wire::fnv64(format!("{:?}", m).as_bytes());
    if matches!(&m, MMsg::Hs(h) if h.has_nonempty_var()) || !matches!(m, MMsg::Hs(_) | MMsg::Ccs) {
        obs.nontrivial(h ^ (state as u64) << 56 ^ (to_server as u64) << 55);
    }
    obs.sample_class(&format!("{:?}", kind).split('(').next().unwrap_or("").to_string(), || json!({"state": STATE_NAMES[state], "to_server": to_server, "message": trunc(&format!("{:?}", m))}));
    // the same call with the minimal message of that kind must give the same answer (metamorphic form), in every state and
    // direction: 50 cells per generated message, so that a content-dependent row of any single cell is met by every message of its kind
    let m0 = minimal_msg(kind);
    let (a, b) = (mk::msg(&m), mk::msg(&m0));
    // the same kind in the payload variants no parser produces (the state machine takes any constructed TlsMessage)
    let mut variants: Vec<TlsMessage> = vec![a];
    if let MMsg::Hs(MHs::ClientKeyExchange(body)) = &m {
        variants.push(TlsMessage::Handshake(TlsMessageHandshake::ClientKeyExchange(TlsClientKeyExchangeContents::Dh(body))));
        variants.push(TlsMessage::Handshake(TlsMessageHandshake::ClientKeyExchange(TlsClientKeyExchangeContents::Ecdh(ECPoint { point: body }))));
        obs.class("client-key-exchange-variants");
    }
    for a in &variants {
    for st in 0..25 {
        for dir in [true, false] {
            obs.evals_add(1);
            let ra = res_to_model(guard("tls_state_transition", || tls_state_transition(STATES[st], a, dir))?)?;
            let rb = res_to_model(guard("tls_state_transition", || tls_state_transition(STATES[st], &b, dir))?)?;
            ensure!(ra == rb, format!("C08:content-dependence:state={}:kind={:?}", STATE_NAMES[st], kind), "outcome depends on message content: {} for {} but {} for a minimal message of the same kind (state {}, to_server={})", show(ra), trunc(&format!("{:?}", a)), show(rb), STATE_NAMES[st], dir);
            let want = states::expected(st, kind, dir);
            ensure!(ra == want, format!("C08:content:state={}:kind={:?}:to_server={}", STATE_NAMES[st], kind, dir), "tls_state_transition({}, {}, to_server={}) = {}, the documented flows give {}", STATE_NAMES[st], trunc(&format!("{:?}", a)), dir, show(ra), show(want));
        }
    }
    }
    check_cell(state, &m, to_server, "content")
}

/// random walks: plausible next messages are favoured so that long accepted prefixes occur
fn sequences(t: &mut Tape, obs: &mut Obs) -> R {
    let n = 1 + t.below(60);
    let mut s_impl = TlsState::None;
    let mut s_model = states::st("None");
    let mut accepted = 0;
    let mut trace: Vec<String> = Vec::new();
    for step in 0..n {
        let (m, to_server) = if t.chance(200) {
            // pick among the kinds the model accepts here with a state change
            let mut opts: Vec<(Kind, bool)> = Vec::new();
            for d in [true, false] {
                for k in 0..HS_KINDS {
                    for sid in [false, true] {
                        if let Ok(nx) = states::expected(s_model, Kind::Hs(k, sid), d) {
                            if nx != s_model {
                                opts.push((Kind::Hs(k, sid), d));
                            }
                        }
                    }
                }
                if let Ok(nx) = states::expected(s_model, Kind::Ccs, d) {
                    if nx != s_model {
                        opts.push((Kind::Ccs, d));
                    }
                }
            }
            if opts.is_empty() {
                (gen_msg(t), t.bool())
            } else {
                let (k, d) = opts[t.below(opts.len())];
                (minimal_msg(k), d)
            }
        } else {
            (gen_msg(t), t.bool())
        };
        let kind = kind_of(&m);
        let want = states::expected(s_model, kind, to_server);
        let tm = mk::msg(&m);
        let got = res_to_model(guard("tls_state_transition", || tls_state_transition(s_impl, &tm, to_server))?)?;
        trace.push(format!("{:?}/{}", kind, if to_server { "c" } else { "s" }));
        if got != want {
            return fail(
                format!("C08:sequence:state={}:kind={:?}:to_server={}", STATE_NAMES[s_model], kind, to_server),
                format!("after {} step(s) [{}] in state {}: {:?} to_server={} gives {}, the documented flows give {}", step, trace.join(" "), STATE_NAMES[s_model], kind, to_server, show(got), show(want)),
            );
        }
        match want {
            Ok(nx) => {
                if nx != s_model {
                    accepted += 1;
                }
                s_model = nx;
                s_impl = STATES[nx];
            }
            Err(()) => {
                // documented use: on error the caller moves to Invalid
                s_model = states::st("Invalid");
                s_impl = TlsState::Invalid;
            }
        }
    }
    if accepted >= 3 {
        obs.nontrivial(vmodel::wire::fnv64(trace.join(" ").as_bytes()));
        obs.sample(json!({"accepted_state_changes": accepted, "trace": trace.join(" "), "final_state": STATE_NAMES[s_model]}));
    }
    obs.class(&format!("accepted_changes={}", accepted.min(9)));
    Ok(())
}
