//! C15 Hello accessors and constructors reflect the parsed fields.

use super::PropDef;
use crate::core::*;
use crate::mk;
use serde_json::json;
use tls_parser::*;
use vmodel::model::*;
use vmodel::tape::Tape;
use vmodel::wire::{fnv64, hex_short, Enc};

pub const DEF: PropDef = PropDef {
    id: "C15",
    title: "Hello accessors and constructors reflect the parsed fields",
    rule: "tls_parsed / dtls_parsed = ClientHello values from the model generators (leading random word weighted to 0, 1, 2^31, 2^32-1; cipher lists mixing registry ids and unlisted \
           ids; session id and extension block absent or present) encoded, parsed, and queried through the ClientHello trait and the inherent getters; constructed = values \
           built with new() / struct literals from slices of length 0..64 (random of a length other than 32 included); server = ServerHello new(), get_version(), get_cipher(). \
           Oracle: every accessor equals (and for slices aliases) the structure's own field, rand_time = BE32 of the first four random bytes, rand_bytes = the rest, cipher \
           accessors = per-id lookup in the harness's own parse of scripts/tls-ciphersuites.txt (C12's table). Non-trivial = a hello whose leading random word is non-zero and \
           whose cipher list is non-empty; distinct by hash of the encoding / of the constructor arguments.",
    assumptions: &["for a random shorter than 4 bytes only 'returns without panic' is required of rand_time / rand_bytes (the statement speaks of 32-byte randoms)", "registry contents per id come from the harness's reader of the IANA text file, not from the crate"],
    run,
};

pub const SUBS: &[SubDef] = &[
    SubDef { prop: "C15", name: "version_cipher_joint", oracle: version_cipher_joint },
    SubDef { prop: "C15", name: "tls_parsed", oracle: tls_parsed },
    SubDef { prop: "C15", name: "dtls_parsed", oracle: dtls_parsed },
    SubDef { prop: "C15", name: "constructed", oracle: constructed },
    SubDef { prop: "C15", name: "server", oracle: server },
    SubDef { prop: "C15", name: "neighbour_context", oracle: neighbour_context },
];

fn run(ctx: &Ctx) {
    ctx.run_tape("tls_parsed", tls_parsed, ctx.pick(50_000, 300_000), 400);
    ctx.run_tape("dtls_parsed", dtls_parsed, ctx.pick(80_000, 200_000), 400);
    ctx.run_tape("constructed", constructed, ctx.pick(50_000, 300_000), 300);
    ctx.run_tape("server", server, ctx.pick(80_000, 200_000), 200);
    // joint sweep of (hello version, cipher id): every id maps to its registry entry or None whatever version stands next to it (a
    // private table consulted for one version only - national or experimental suites - would hide behind the per-id sweeps)
    let cases = (0..JOINT_VERSIONS.len() as u8).flat_map(|vi| (0..=255u8).map(move |hi| vec![vi, hi]));
    ctx.run_enum("version_cipher_joint", version_cipher_joint, true, &format!("{} versions x all 65536 ids through cipher_suites / get_ciphers (TLS, DTLS) and get_cipher (ServerHello)", JOINT_VERSIONS.len()), cases);
    // every registered id at every position of lists of 16, 17 and 32 entries whose other entries are all unlisted ids above it, all unlisted
    // ids below it, all listed ids, or copies of itself (block-wise or range-based shortcuts in the list accessors answer for a whole
    // neighbourhood; per-id sweeps and lists of consecutive ids never put a registered id alone among such neighbours)
    let rows = super::c12::tabs().map(|t| t.file.len()).unwrap_or(0);
    let cases = (0..rows).flat_map(|k| (0..4u8).map(move |c| vec![(k >> 8) as u8, k as u8, c]));
    ctx.run_enum("neighbour_context", neighbour_context, true, "every registered id x 4 kinds of neighbours x every position of lists of 16, 17, 32 entries through cipher_suites / get_ciphers (TLS, DTLS)", cases);
    // the accessors in a process that has not touched the registry yet: one fresh child process per registered id (that id is the first
    // thing the child looks up), followed by an unlisted id and the same registered id again. State kept between lookups (a cache, a
    // lazily built table) whose initial value collides with a real id shows up here and, at best by luck, nowhere else
    ctx.run_fn("fresh_process", true, "one fresh process per row of the list: hello accessors on [id], then [unlisted, id], through cipher_suites / get_ciphers / get_cipher / get_ciphersuite", |obs| {
        let tb = super::c12::tabs()?;
        let exe = std::env::current_exe().map_err(|e| Fail { sig: "harness:current-exe".into(), msg: format!("{}", e) })?;
        let unlisted: Vec<u16> = (0..=0xffffu16).filter(|v| !tb.file.iter().any(|r| r.id == *v)).take(4000).collect();
        let results: Vec<R> = std::thread::scope(|sc| {
            let hs: Vec<_> = (0..8usize)
                .map(|w| {
                    let (exe, unlisted) = (&exe, &unlisted);
                    sc.spawn(move || -> R {
                        for (k, r) in tb.file.iter().enumerate() {
                            if k % 8 != w {
                                continue;
                            }
                            let miss = unlisted[(r.id as usize * 31 + 7) % unlisted.len()];
                            let args = [format!("{:04x}", r.id), format!("{:04x}", miss), format!("{:04x}", r.id)];
                            let o = output_with_progress(std::process::Command::new(exe).arg("probe-registry").args(&args), 600, true).map_err(|e| Fail { sig: "harness:probe-registry".into(), msg: format!("{}", e) })?;
                            let text = String::from_utf8_lossy(&o.stdout).to_string();
                            if !o.status.success() {
                                return fail(format!("C15:fresh-process:crash:{:04x}", r.id), format!("a fresh process looking up {:04x} first ended with {}: {}", r.id, o.status, trunc(&String::from_utf8_lossy(&o.stderr))));
                            }
                            let lines: Vec<&str> = text.lines().collect();
                            let want = [format!("{:04x}={}", r.id, r.name), format!("{:04x}=none", miss), format!("{:04x}={}", r.id, r.name)];
                            for (i, w) in want.iter().enumerate() {
                                let got = lines.get(i).copied().unwrap_or("<no answer>");
                                ensure!(got.split(' ').all(|route| route == w) && !got.is_empty(), format!("C15:fresh-process:{}", if i == 0 { "first-lookup" } else if i == 1 { "unlisted" } else { "after-a-miss" }), "fresh process, lookups {:?}: lookup {} answered `{}` (one entry per accessor), expected `{}` from each", args, i + 1, got, w);
                            }
                        }
                        Ok(())
                    })
                })
                .collect();
            hs.into_iter().map(|h| h.join().unwrap_or_else(|_| fail("harness:probe-thread", "probe thread panicked"))).collect()
        });
        for r in results {
            r?;
        }
        obs.evals_add(3 * tb.file.len() as u64);
        obs.nontrivial(tb.file.len() as u64);
        obs.sample(json!({"fresh_processes": tb.file.len(), "lookups_per_process": 3, "accessors": ["cipher_suites", "get_ciphers", "get_cipher", "get_ciphersuite", "from_id"]}));
        Ok(())
    });
}

/// hello versions for the joint sweep: TLS, the TLS 1.3 drafts' range ends, DTLS (1.0, 1.2, 1.3, the pre-standard 0x0100), TLCP (0x0101), extremes
const JOINT_VERSIONS: [u16; 16] = [0x0300, 0x0301, 0x0302, 0x0303, 0x0304, 0x7f12, 0x7f1c, 0xfeff, 0xfefd, 0xfefc, 0x0100, 0x0101, 0x0102, 0x0002, 0x0000, 0xffff];

/// parameter tape: [version index, id high byte]
fn version_cipher_joint(t: &mut Tape, obs: &mut Obs) -> R {
    let version = JOINT_VERSIONS[t.u8() as usize % JOINT_VERSIONS.len()];
    let hi = t.u8();
    let tb = super::c12::tabs()?;
    let ids: Vec<u16> = (0..=255u16).map(|lo| (hi as u16) << 8 | lo).collect();
    let random = [0x33u8; 32];
    let want: Vec<Option<&str>> = ids.iter().map(|id| tb.file.iter().find(|r| r.id == *id).map(|r| r.name.as_str())).collect();
    let got = guard("hello accessors", || {
        let ch = TlsClientHelloContents::new(version, &random, None, ids.iter().map(|c| TlsCipherSuiteID(*c)).collect(), vec![TlsCompressionID(0)], None);
        let d = DTLSClientHello { version: TlsVersion(version), random: &random, session_id: None, cookie: &[], ciphers: ids.iter().map(|c| TlsCipherSuiteID(*c)).collect(), comp: vec![TlsCompressionID(0)], ext: None };
        let names = |v: Vec<Option<&TlsCipherSuite>>| v.into_iter().map(|s| s.map(|c| c.name)).collect::<Vec<_>>();
        let sh: Vec<Option<&str>> = ids.iter().map(|id| TlsServerHelloContents::new(version, &random, None, *id, 0, None).get_cipher().map(|c| c.name)).collect();
        (names(ClientHello::cipher_suites(&ch)), names(ch.get_ciphers()), names(ClientHello::cipher_suites(&d)), sh)
    })?;
    obs.evals_add(4 * 256);
    for (route, v) in [("TLS cipher_suites()", &got.0), ("get_ciphers()", &got.1), ("DTLS cipher_suites()", &got.2), ("ServerHello get_cipher()", &got.3)] {
        for (k, id) in ids.iter().enumerate() {
            ensure!(v.get(k).copied().flatten() == want[k], format!("C15:version-cipher-joint:{}", route), "{} in a hello of version {:#06x}: id {:#06x} maps to {:?}, the registry says {:?}", route, version, id, v.get(k), want[k]);
        }
    }
    obs.nontrivial((version as u64) << 8 | hi as u64);
    Ok(())
}

/// parameter tape: [row index high, row index low, neighbour kind]
fn neighbour_context(t: &mut Tape, obs: &mut Obs) -> R {
    let tb = super::c12::tabs()?;
    let k = (t.u8() as usize) << 8 | t.u8() as usize;
    let kind = t.u8();
    let r = match tb.file.get(k) { Some(r) => r, None => return Ok(()) };
    let listed = |v: u16| tb.file.iter().any(|x| x.id == v);
    let fill: Vec<u16> = match kind {
        0 => (r.id as u32 + 1..=0xffff).map(|v| v as u16).filter(|v| !listed(*v)).take(24).chain([0xdadau16, 0xeaea, 0xfafa, 0xff01, 0xffff].into_iter().filter(|v| *v > r.id && !listed(*v))).collect(),
        1 => (0..r.id).rev().filter(|v| !listed(*v)).take(24).chain([0x0a0au16, 0x0000, 0x1a1a].into_iter().filter(|v| *v < r.id && !listed(*v))).collect(),
        2 => tb.file.iter().map(|x| x.id).filter(|v| *v != r.id).skip(k % 7).step_by(11).take(24).collect(),
        _ => vec![r.id],
    };
    if fill.is_empty() {
        return Ok(());
    }
    let random = [0x44u8; 32];
    for len in [16usize, 17, 32] {
        for pos in 0..len {
            let ids: Vec<u16> = (0..len).map(|i| if i == pos { r.id } else { fill[(i * 5 + pos) % fill.len()] }).collect();
            let want: Vec<Option<&str>> = ids.iter().map(|id| tb.file.iter().find(|x| x.id == *id).map(|x| x.name.as_str())).collect();
            let got = guard("hello accessors", || {
                let ch = TlsClientHelloContents::new(0x0303, &random, None, ids.iter().map(|c| TlsCipherSuiteID(*c)).collect(), vec![TlsCompressionID(0)], None);
                let d = DTLSClientHello { version: TlsVersion(0xfefd), random: &random, session_id: None, cookie: &[], ciphers: ids.iter().map(|c| TlsCipherSuiteID(*c)).collect(), comp: vec![TlsCompressionID(0)], ext: None };
                let names = |v: Vec<Option<&TlsCipherSuite>>| v.into_iter().map(|s| s.map(|c| c.name)).collect::<Vec<_>>();
                [names(ClientHello::cipher_suites(&ch)), names(ch.get_ciphers()), names(ClientHello::cipher_suites(&d))]
            })?;
            obs.evals_add(3);
            for (route, v) in ["TLS cipher_suites()", "get_ciphers()", "DTLS cipher_suites()"].iter().zip(got.iter()) {
                ensure!(*v == want, format!("C15:neighbour-context:{}", route), "{} on a list of {} ids with {:#06x} at position {} among {}: got {:?}, the registry says {:?}", route, len, r.id, pos, ["unlisted ids above it", "unlisted ids below it", "other listed ids", "copies of itself"][kind as usize % 4], trunc(&format!("{:?}", v)), trunc(&format!("{:?}", want)));
            }
        }
    }
    obs.nontrivial((k as u64) << 8 | kind as u64);
    if k % 97 == 0 { obs.sample(json!({"id": format!("{:#06x}", r.id), "neighbours": kind, "list_lengths": [16, 17, 32]})); }
    Ok(())
}

fn same(a: &[u8], b: &[u8]) -> bool {
    a.len() == b.len() && (a.is_empty() || a.as_ptr() == b.as_ptr())
}
fn osame(a: Option<&[u8]>, b: Option<&[u8]>) -> bool {
    match (a, b) {
        (None, None) => true,
        (Some(x), Some(y)) => same(x, y),
        _ => false,
    }
}

/// expected registry lookups for a cipher list: Some(row of the registry text file) iff listed
fn expected_suites(ids: &[u16]) -> Result<Vec<Option<&'static vmodel::ciphers::Row>>, Fail> {
    static MAP: std::sync::OnceLock<std::collections::HashMap<u16, &'static vmodel::ciphers::Row>> = std::sync::OnceLock::new();
    let tb = super::c12::tabs()?;
    let map = MAP.get_or_init(|| tb.file.iter().map(|r| (r.id, r)).collect());
    Ok(ids.iter().map(|id| map.get(id).copied()).collect())
}

fn got_suites(v: &[Option<&TlsCipherSuite>], ids: &[u16], what: &str) -> R {
    let want = expected_suites(ids)?;
    ensure!(v.len() == ids.len(), format!("C15:{}:length", what), "{} returned {} entries for {} advertised ids", what, v.len(), ids.len());
    for (i, (g, w)) in v.iter().zip(want.iter()).enumerate() {
        match (g, w) {
            (None, None) => {}
            (Some(s), Some(r)) => {
                // "its registry entry": the whole entry (all ten columns of the registry row for that id), not only id and name.
                // The registry is static: an entry at an address whose contents were already compared in full is not compared again.
                thread_local! { static SEEN: std::cell::RefCell<Vec<usize>> = std::cell::RefCell::new(vec![0usize; 65536]); }
                let addr = *s as *const TlsCipherSuite as usize;
                if SEEN.with(|v| v.borrow()[r.id as usize]) != addr {
                    if let Some((col, d)) = super::c12::suite_differs(s, r) {
                        return fail(format!("C15:{}:wrong-entry:{}", what, col), format!("{}: position {} (id {:#06x}) maps to an entry that is not the registry entry of that id: {}", what, i, ids[i], d));
                    }
                    SEEN.with(|v| v.borrow_mut()[r.id as usize] = addr);
                }
            }
            (Some(s), None) => return fail(format!("C15:{}:phantom", what), format!("{}: unlisted id {:#06x} at position {} maps to {}", what, ids[i], i, s.name)),
            (None, Some(r)) => return fail(format!("C15:{}:missing", what), format!("{}: id {:#06x} ({}) at position {} maps to None", what, ids[i], r.name, i)),
        }
    }
    Ok(())
}

/// checks shared by TLS and DTLS hellos, through the trait object
fn check_trait<'a>(h: &dyn ClientHello<'a>, version: u16, random: &[u8], sid: Option<&[u8]>, ciphers: &[u16], comp: &[u8], ext: Option<&[u8]>, what: &str) -> R {
    ensure!(h.version().0 == version, format!("C15:{}:version", what), "version() = {:#06x}, field is {:#06x}", h.version().0, version);
    ensure!(same(h.random(), random), format!("C15:{}:random", what), "random() does not return the structure's random field (len {} vs {})", h.random().len(), random.len());
    ensure!(osame(h.session_id(), sid), format!("C15:{}:session_id", what), "session_id() differs from the field");
    ensure!(h.ciphers().iter().map(|c| c.0).collect::<Vec<_>>() == ciphers, format!("C15:{}:ciphers", what), "ciphers() differs from the field");
    ensure!(h.comp().iter().map(|c| c.0).collect::<Vec<_>>() == comp, format!("C15:{}:comp", what), "comp() differs from the field");
    ensure!(osame(h.ext(), ext), format!("C15:{}:ext", what), "ext() differs from the field");
    let rt = h.rand_time();
    let rb = h.rand_bytes();
    if random.len() >= 4 {
        let want = u32::from_be_bytes([random[0], random[1], random[2], random[3]]);
        ensure!(rt == want, format!("C15:{}:rand_time", what), "rand_time() = {:#010x}, the first four random bytes are {:02x}{:02x}{:02x}{:02x}", rt, random[0], random[1], random[2], random[3]);
        ensure!(same(rb, &random[4..]), format!("C15:{}:rand_bytes", what), "rand_bytes() returns {} bytes, expected the {} bytes after the first four", rb.len(), random.len() - 4);
    }
    got_suites(&h.cipher_suites(), ciphers, &format!("{}:cipher_suites", what))
}

/// cipher list mixing registry ids and unlisted ones
fn mixed_ciphers(t: &mut Tape) -> Vec<u16> {
    mixed_ciphers_n(t, 32767)
}

/// up to `max` ids: mostly short lists, sometimes at the thresholds (255/256, 32766/32767, and for constructed values 65535/65536 and beyond)
fn mixed_ciphers_n(t: &mut Tape, max: usize) -> Vec<u16> {
    let n = if t.chance(254) { t.small(40) } else { t.pick(&[255usize, 256, 4096, 32766, 32767, 65535, 65536, 65537, 70000]).min(max) };
    if n > 40 {
        let tb = super::c12::tabs().ok();
        let k = tb.map(|x| x.file.len()).unwrap_or(1);
        // a long list: registry ids and unlisted ids interleaved, with listed ids at both ends
        return (0..n).map(|i| match (i % 3, &tb) { (0, Some(tb)) => tb.file[(i / 3) % k].id, (1, Some(tb)) if i + 2 >= n => tb.file[i % k].id, _ => (i as u16).wrapping_mul(7) }).collect();
    }
    let tb = super::c12::tabs().ok();
    (0..n)
        .map(|_| match (t.below(3), &tb) {
            (0, Some(tb)) | (1, Some(tb)) => tb.file[t.below(tb.file.len())].id,
            _ => t.u16b(),
        })
        .collect()
}

fn random32(t: &mut Tape) -> Vec<u8> {
    let mut r = t.bytes(32);
    let w = t.u32b();
    r[..4].copy_from_slice(&w.to_be_bytes());
    r
}

fn tls_parsed(t: &mut Tape, obs: &mut Obs) -> R {
    let mut h = gen_hs_kind(t, 1, 300);
    if let MHs::ClientHello { random, ciphers, .. } = &mut h {
        *random = random32(t);
        *ciphers = mixed_ciphers(t);
    }
    let enc = h.to_bytes();
    let (version, random, sid, ciphers, comp, ext) = match &h {
        MHs::ClientHello { version, random, sid, ciphers, comp, ext } => (*version, random.clone(), sid.clone(), ciphers.clone(), comp.clone(), ext.clone()),
        _ => unreachable!(),
    };
    if random[..4] != [0, 0, 0, 0] && !ciphers.is_empty() {
        obs.nontrivial(fnv64(&enc));
    }
    obs.sample(json!({"random_word": format!("{:02x}{:02x}{:02x}{:02x}", random[0], random[1], random[2], random[3]), "ciphers": ciphers.len(), "hex": hex_short(&enc)}));
    guard("ClientHello accessors", || -> R {
        let (_, msg) = match parse_tls_message_handshake(&enc) {
            Ok(x) => x,
            Err(e) => return fail("C15:tls:parse", format!("encoding rejected: {:?}", e.map(|x| x.code))),
        };
        let ch = match &msg {
            TlsMessage::Handshake(TlsMessageHandshake::ClientHello(c)) => c,
            o => return fail("C15:tls:parse", format!("not a ClientHello: {:?}", o)),
        };
        // the fields themselves are C04's business; here: accessors == fields
        check_trait(ch, ch.version.0, ch.random, ch.session_id, &ch.ciphers.iter().map(|c| c.0).collect::<Vec<_>>(), &ch.comp.iter().map(|c| c.0).collect::<Vec<_>>(), ch.ext, "tls")?;
        ensure!(ch.get_version().0 == ch.version.0, "C15:tls:get_version", "get_version() differs from the field");
        got_suites(&ch.get_ciphers(), &ciphers, "tls:get_ciphers")?;
        // and they carry what was encoded
        ensure!(ch.version.0 == version && ch.random == random.as_slice() && ch.session_id.map(|s| s.to_vec()) == sid && ch.comp.iter().map(|c| c.0).collect::<Vec<_>>() == comp && ch.ext.map(|s| s.to_vec()) == ext, "C15:tls:fields", "parsed fields differ from the encoded hello");
        let want = u32::from_be_bytes([random[0], random[1], random[2], random[3]]);
        ensure!(ClientHello::rand_time(ch) == want, "C15:tls:rand_time", "rand_time() = {:#010x}, encoded leading word {:#010x}", ClientHello::rand_time(ch), want);
        ensure!(ClientHello::rand_bytes(ch) == &random[4..], "C15:tls:rand_bytes", "rand_bytes() is not the last 28 bytes of the random");
        Ok(())
    })?
}

fn dtls_parsed(t: &mut Tape, obs: &mut Obs) -> R {
    let random = random32(t);
    let ciphers = mixed_ciphers(t);
    let sid = if t.bool() {
        let n = 1 + t.below(32);
        Some(t.bytes(n))
    } else {
        None
    };
    let cookie = t.small_blob(255);
    let comp = t.small_blob(10);
    let ext = if t.bool() { Some(t.small_blob(60)) } else { None };
    let version = t.pick(&[0xfefdu16, 0xfeff, 0x0303]);
    let body = MDtlsBody::ClientHello { version, random: random.clone(), sid: sid.clone(), cookie: cookie.clone(), ciphers: ciphers.clone(), comp: comp.clone(), ext: ext.clone() };
    let mut be = Enc::new();
    body.encode(&mut be);
    let l = be.buf.len() as u32;
    let hs = MDtlsHs { msg_type: 1, length: l, message_seq: t.u16(), fragment_offset: 0, fragment_length: l, body };
    let mut e = Enc::new();
    hs.encode(&mut e);
    let enc = e.buf;
    if random[..4] != [0, 0, 0, 0] && !ciphers.is_empty() {
        obs.nontrivial(fnv64(&enc));
    }
    obs.sample(json!({"cookie": cookie.len(), "ciphers": ciphers.len(), "hex": hex_short(&enc)}));
    guard("DTLS ClientHello accessors", || -> R {
        let (_, msg) = match parse_dtls_message_handshake(&enc) {
            Ok(x) => x,
            Err(e) => return fail("C15:dtls:parse", format!("encoding rejected: {:?}", e.map(|x| x.code))),
        };
        let ch = match &msg {
            DTLSMessage::Handshake(DTLSMessageHandshake { body: DTLSMessageHandshakeBody::ClientHello(c), .. }) => c,
            o => return fail("C15:dtls:parse", format!("not a ClientHello: {:?}", o)),
        };
        check_trait(ch, ch.version.0, ch.random, ch.session_id, &ch.ciphers.iter().map(|c| c.0).collect::<Vec<_>>(), &ch.comp.iter().map(|c| c.0).collect::<Vec<_>>(), ch.ext, "dtls")?;
        ensure!(ch.version.0 == version && ch.random == random.as_slice() && ch.cookie == cookie.as_slice() && ch.session_id.map(|s| s.to_vec()) == sid && ch.ext.map(|s| s.to_vec()) == ext, "C15:dtls:fields", "parsed fields differ from the encoded hello");
        let want = u32::from_be_bytes([random[0], random[1], random[2], random[3]]);
        ensure!(ch.rand_time() == want, "C15:dtls:rand_time", "rand_time() = {:#010x}, encoded leading word {:#010x}", ch.rand_time(), want);
        ensure!(ch.rand_bytes() == &random[4..], "C15:dtls:rand_bytes", "rand_bytes() is not the last 28 bytes of the random");
        Ok(())
    })?
}

fn constructed(t: &mut Tape, obs: &mut Obs) -> R {
    let v = t.u16b();
    let rl = match t.below(4) {
        0 => 32,
        1 => t.below(5),
        _ => t.below(65),
    };
    let mut random = t.bytes(rl);
    if rl >= 4 {
        let w = t.u32b();
        random[..4].copy_from_slice(&w.to_be_bytes());
    }
    let sid = if t.bool() { Some(t.small_blob(64)) } else { None };
    let ciphers = mixed_ciphers_n(t, 70000);
    let comp = t.small_blob(20);
    let ext = if t.bool() { Some(t.small_blob(64)) } else { None };
    obs.nontrivial(fnv64(&random) ^ fnv64(&comp) ^ ((v as u64) << 32) ^ ciphers.len() as u64);
    obs.class(&format!("random_len={}", if rl == 32 { "32".to_string() } else if rl < 4 { "<4".to_string() } else { "other".to_string() }));
    obs.sample(json!({"version": v, "random_len": rl, "sid": sid.as_ref().map(|s| s.len()), "ciphers": ciphers.len()}));
    guard("constructed ClientHello", || -> R {
        let ch = TlsClientHelloContents::new(v, &random, sid.as_deref(), ciphers.iter().map(|c| TlsCipherSuiteID(*c)).collect(), comp.iter().map(|c| TlsCompressionID(*c)).collect(), ext.as_deref());
        ensure!(ch.version.0 == v && same(ch.random, &random) && osame(ch.session_id, sid.as_deref()) && osame(ch.ext, ext.as_deref()), "C15:new:stored", "TlsClientHelloContents::new() did not store its arguments unchanged");
        ensure!(ch.ciphers.iter().map(|c| c.0).collect::<Vec<_>>() == ciphers && ch.comp.iter().map(|c| c.0).collect::<Vec<_>>() == comp, "C15:new:stored-lists", "new() changed the lists");
        ensure!(ch.get_version().0 == v, "C15:new:get_version", "get_version() = {:#06x}, constructed with {:#06x}", ch.get_version().0, v);
        check_trait(&ch, v, &random, sid.as_deref(), &ciphers, &comp, ext.as_deref(), "constructed")?;
        got_suites(&ch.get_ciphers(), &ciphers, "constructed:get_ciphers")?;
        // the same accessors by method syntax on the concrete type, through the trait by its full path and through a trait object: one
        // value has one rand_time() / rand_bytes() / ..., whichever way the call is dispatched (for every random length)
        {
            let via_dyn: &dyn ClientHello = &ch;
            let m = (ch.rand_time(), ch.rand_bytes(), ch.version().0, ch.random(), ch.session_id(), ch.ext(), ch.ciphers().len(), ch.comp().len(), ch.cipher_suites().len());
            let f = (ClientHello::rand_time(&ch), ClientHello::rand_bytes(&ch), ClientHello::version(&ch).0, ClientHello::random(&ch), ClientHello::session_id(&ch), ClientHello::ext(&ch), ClientHello::ciphers(&ch).len(), ClientHello::comp(&ch).len(), ClientHello::cipher_suites(&ch).len());
            let d = (via_dyn.rand_time(), via_dyn.rand_bytes(), via_dyn.version().0, via_dyn.random(), via_dyn.session_id(), via_dyn.ext(), via_dyn.ciphers().len(), via_dyn.comp().len(), via_dyn.cipher_suites().len());
            // ... and through a reference to a reference (closure arguments of iter().filter / find / max_by_key on a slice of hellos
            // have this shape): auto-deref reaches the same impl today; an `impl ClientHello for &T` would be picked here first
            let rr = &&ch;
            let r2 = (rr.rand_time(), rr.rand_bytes(), rr.version().0, rr.random(), rr.session_id(), rr.ext(), rr.ciphers().len(), rr.comp().len(), rr.cipher_suites().len());
            ensure!(r2 == m, "C15:constructed:dispatch-through-reference", "the accessors of one ClientHello answer differently through `&&hello`: version {:#06x} vs {:#06x}, session id {:?} vs {:?}, ext {:?} vs {:?}", r2.2, m.2, r2.4.map(|x| x.len()), m.4.map(|x| x.len()), r2.5.map(|x| x.len()), m.5.map(|x| x.len()));
            let hellos = [&ch];
            let picked = hellos.iter().filter(|h| h.ext().map(|e| e.len()) == ext.as_ref().map(|e| e.len()) && h.session_id().map(|e| e.len()) == sid.as_ref().map(|e| e.len())).count();
            ensure!(picked == 1, "C15:constructed:dispatch-through-reference", "iter().filter(|h| h.ext() .. h.session_id() ..) over a slice holding the hello does not see the hello's own extension block / session id");
            ensure!(m == f && f == d, "C15:constructed:dispatch", "the accessors of one ClientHello (random of {} bytes: {}) answer differently by method syntax, by trait path and through a trait object: {:?} / {:?} / {:?}", random.len(), hex_short(&random), (m.0, m.1.len(), m.2), (f.0, f.1.len(), f.2), (d.0, d.1.len(), d.2));
        }
        // the public fields of a constructed value may be edited, and its vectors may have spare capacity: the accessors follow the
        // contents (len), nothing else
        {
            let spare = [1usize, 5, 64][ciphers.len() % 3];
            let mut cv: Vec<TlsCipherSuiteID> = Vec::with_capacity(ciphers.len() + spare);
            cv.extend(ciphers.iter().map(|c| TlsCipherSuiteID(*c)));
            let mut pv: Vec<TlsCompressionID> = Vec::with_capacity(comp.len() + spare);
            pv.extend(comp.iter().map(|c| TlsCompressionID(*c)));
            let lit = TlsClientHelloContents { version: TlsVersion(v), random: &random, session_id: sid.as_deref(), ciphers: cv, comp: pv, ext: ext.as_deref() };
            check_trait(&lit, v, &random, sid.as_deref(), &ciphers, &comp, ext.as_deref(), "literal-with-spare-capacity")?;
            got_suites(&lit.get_ciphers(), &ciphers, "literal-with-spare-capacity:get_ciphers")?;
            let mut edited = TlsClientHelloContents::new(v, &random, sid.as_deref(), ciphers.iter().map(|c| TlsCipherSuiteID(*c)).collect(), comp.iter().map(|c| TlsCompressionID(*c)).collect(), ext.as_deref());
            let mut want = ciphers.clone();
            edited.ciphers.push(TlsCipherSuiteID(0x1301));
            want.push(0x1301);
            if want.len() > 2 {
                edited.ciphers.remove(0);
                want.remove(0);
                edited.ciphers.truncate(want.len() - 1);
                want.truncate(want.len() - 1);
            }
            check_trait(&edited, v, &random, sid.as_deref(), &want, &comp, ext.as_deref(), "edited-after-new")?;
            got_suites(&edited.get_ciphers(), &want, "edited-after-new:get_ciphers")?;
        }
        // DTLS hello built from the same slices (a distinct cookie must never leak into random())
        let cookie = [0xc0u8, 0x0c, 0x1e, 0x55, 0xaa];
        let d = DTLSClientHello { version: TlsVersion(v), random: &random, session_id: sid.as_deref(), cookie: &cookie, ciphers: ciphers.iter().map(|c| TlsCipherSuiteID(*c)).collect(), comp: comp.iter().map(|c| TlsCompressionID(*c)).collect(), ext: ext.as_deref() };
        check_trait(&d, v, &random, sid.as_deref(), &ciphers, &comp, ext.as_deref(), "constructed-dtls")
    })?
}

fn server(t: &mut Tape, obs: &mut Obs) -> R {
    let tb = super::c12::tabs()?;
    // half of the cases: arbitrary argument values; the other half: the fields of a generated ServerHello (structured extension
    // blocks incl. the TLS 1.3 shape, RFC-meaningful randoms, real cipher ids), so that an accessor that looks into another field shows
    let structured = if t.bool() { Some(gen_hs_kind(t, 2, 160)) } else { None };
    let (v, random, sid, c, co, ext) = match &structured {
        Some(MHs::ServerHello { version, random, sid, cipher, comp, ext }) => (*version, random.clone(), sid.clone(), *cipher, *comp, ext.clone()),
        _ => {
            let v = if t.bool() { gen_version(t) } else { t.u16b() };
            let random = t.small_blob(64);
            let sid = if t.bool() { Some(t.small_blob(40)) } else { None };
            let c = if t.bool() { tb.file[t.below(tb.file.len())].id } else { t.u16b() };
            let co = t.u8();
            let ext = match t.below(3) {
                0 => None,
                1 => Some(t.small_blob(40)),
                _ => Some(vec![0xff, 0x01, 0x00, 0x01, 0x00]),
            };
            (v, random, sid, c, co, ext)
        }
    };
    obs.nontrivial((v as u64) << 32 | (c as u64) << 8 | co as u64);
    let listed = tb.file.iter().find(|r| r.id == c);
    obs.class(if listed.is_some() { "listed-cipher" } else { "unlisted-cipher" });
    obs.sample(json!({"version": v, "cipher": format!("{:04x}", c), "listed": listed.map(|r| r.name.clone())}));
    guard("ServerHello accessors", || -> R {
        let sh = TlsServerHelloContents::new(v, &random, sid.as_deref(), c, co, ext.as_deref());
        ensure!(sh.version.0 == v && same(sh.random, &random) && osame(sh.session_id, sid.as_deref()) && sh.cipher.0 == c && sh.compression.0 == co && osame(sh.ext, ext.as_deref()), "C15:server:new", "TlsServerHelloContents::new() did not store its arguments unchanged");
        ensure!(sh.get_version().0 == v, "C15:server:get_version", "get_version() = {:#06x}", sh.get_version().0);
        match (sh.get_cipher(), listed) {
            (None, None) => {}
            (Some(s), Some(r)) => ensure!(s.id.0 == c && s.name == r.name, "C15:server:get_cipher", "get_cipher() for {:#06x} returned {:#06x} {}", c, s.id.0, s.name),
            (g, w) => return fail("C15:server:get_cipher", format!("get_cipher() for {:#06x}: got {:?}, registry says {:?}", c, g.map(|s| s.name), w.map(|r| &r.name))),
        }
        // a parsed ServerHello too
        let m = match &structured {
            Some(m) => m.clone(),
            None => MHs::ServerHello { version: 0x0303, random: vec![7; 32], sid: None, cipher: c, comp: co, ext: None },
        };
        let pv = if let MHs::ServerHello { version, .. } = &m { *version } else { 0x0303 };
        let enc = m.to_bytes();
        let _ = mk::hs(&m);
        if let Ok((_, TlsMessage::Handshake(TlsMessageHandshake::ServerHello(p)))) = parse_tls_message_handshake(&enc) {
            ensure!(p.get_version().0 == pv && p.get_cipher().map(|s| s.id.0) == listed.map(|r| r.id), "C15:server:parsed", "accessors of a parsed ServerHello differ: get_version() = {:#06x}, the version field is {:#06x}", p.get_version().0, pv);
        } else {
            return fail("C15:server:parse", "ServerHello encoding rejected");
        }
        Ok(())
    })?
}

/// child side of `fresh_process`: for each id on the command line (hex), in order, what every accessor says, on one line
pub fn probe_registry(ids: &[String]) {
    let random = [7u8; 32];
    for a in ids {
        let id = u16::from_str_radix(a, 16).unwrap_or(0);
        let name = |s: Option<&TlsCipherSuite>| s.map_or("none".to_string(), |c| c.name.to_string());
        let ch = TlsClientHelloContents::new(0x0303, &random, None, vec![TlsCipherSuiteID(id)], vec![TlsCompressionID(0)], None);
        let a1 = name(ClientHello::cipher_suites(&ch)[0]);
        let a2 = name(ch.get_ciphers()[0]);
        let sh = TlsServerHelloContents::new(0x0303, &random, None, id, 0, None);
        let a3 = name(sh.get_cipher());
        let a4 = name(TlsCipherSuiteID(id).get_ciphersuite());
        let a5 = name(TlsCipherSuite::from_id(id));
        println!("{:04x}={} {:04x}={} {:04x}={} {:04x}={} {:04x}={}", id, a1, id, a2, id, a3, id, a4, id, a5);
    }
}
