//! C03 A record's payload decodes to exactly its messages, in order.

use super::PropDef;
use crate::conv;
use crate::core::*;
use serde_json::json;
use tls_parser::nom::error::ErrorKind;
use tls_parser::nom::Err;
use tls_parser::*;
use vmodel::model::*;
use vmodel::tape::Tape;
use vmodel::wire::{fnv64, hex_short, Enc};

pub const DEF: PropDef = PropDef {
    id: "C03",
    title: "A record's payload decodes to exactly its messages, in order",
    rule: "valid = model records (1..12 ChangeCipherSpec bytes / alerts over all (severity, code) / 1..6 handshake messages of the 17 kinds fitting 16640 bytes / \
           one application-data blob 0..16640 / one heartbeat with padding), any version, followed by none / random / another record: one-step and two-step \
           parsing must both return exactly the model messages; negative = empty payloads, first message cut at a generated point, malformed first message, \
           every unknown content type: never a value; tail = valid messages followed by a definitely invalid tail: the valid prefix is returned and two-step \
           parsing returns the tail (pointer-identical) as remainder; differential = arbitrary and corrupted records: one-step and two-step agree on \
           success, messages and error kind. Non-trivial = >= 2 messages, or a negative / tail case, or a payload over 255 bytes, or (differential) an input \
           whose header is complete; distinct by hash of the input bytes.",
    assumptions: &["the model encoders (harness/vmodel) follow RFC 5246 6.2.1 / 7.1 / 7.2 / 7.4 and RFC 6520 4", "a parsed value is compared after field-by-field conversion to the harness's model types"],
    run,
};

pub const SUBS: &[SubDef] = &[
    SubDef { prop: "C03", name: "valid", oracle: valid },
    SubDef { prop: "C03", name: "negative", oracle: negative },
    SubDef { prop: "C03", name: "tail", oracle: tail },
    SubDef { prop: "C03", name: "differential", oracle: differential },
    SubDef { prop: "C03", name: "differential_raw", oracle: differential_raw },
];

fn run(ctx: &Ctx) {
    ctx.run_tape("valid", valid, ctx.pick(160_000, 400_000), 600);
    ctx.run_tape("negative", negative, ctx.pick(150_000, 300_000), 400);
    ctx.run_tape("tail", tail, ctx.pick(120_000, 300_000), 500);
    ctx.run_tape("differential", differential, ctx.pick(160_000, 400_000), 500);
    ctx.run_tape("differential_raw", differential_raw, ctx.pick(200_000, 400_000), 96);
    // payloads beyond what a record can carry, through the payload parser itself (its data argument is any slice): handshake messages
    // whose 24-bit length is around 64 KiB, 10 MiB and 2^24-1, followed by a second message - exactly those two messages in wire order
    ctx.run_fn("huge_messages", true, "a handshake message of 65535 / 65536 / 10 MiB - 1 / 10 MiB / 10 MiB + 1 / 2^24 - 1 body bytes followed by ServerHelloDone, through parse_tls_record_with_header", |obs| {
        for (k, n) in [0xffffusize, 0x1_0000, 0xa0_0000 - 1, 0xa0_0000, 0xa0_0001, 0xff_ffff].into_iter().enumerate() {
            obs.evals_add(1);
            let first = [MHs::Finished(vec![0x5a; n]), MHs::ServerKeyExchange(vec![0xa5; n]), MHs::CertificateVerify(vec![7; n])][k % 3].clone();
            let second = MHs::ServerDone(vec![]);
            let mut data = first.to_bytes();
            data.extend(second.to_bytes());
            let hdr = TlsRecordHeader { record_type: TlsRecordType::Handshake, version: TlsVersion(0x0303), len: data.len() as u16 };
            let got = guard("parse_tls_record_with_header", || parse_tls_record_with_header(&data, &hdr).map(|(rem, m)| (rem.len(), conv::msgs(&m))).map_err(|e| e.map(|x| x.code)))?;
            match got {
                Ok((rl, m)) => ensure!(rl == 0 && m == vec![MMsg::Hs(first.clone()), MMsg::Hs(second.clone())], "C03:huge-messages:messages", "a {} message of {} body bytes followed by ServerHelloDone decoded to {} message(s), {} bytes left", first.kind_name(), n, m.len(), rl),
                Err(e) => return fail("C03:huge-messages:rejected", format!("a payload holding a {} message of {} body bytes (24-bit length {:#08x}) and a ServerHelloDone was rejected with {:?}", first.kind_name(), n, n, e)),
            }
            obs.nontrivial(n as u64);
        }
        obs.sample(json!({"body_sizes": [0xffff, 0x10000, 0x9fffff, 0xa00000, 0xa00001, 0xffffff]}));
        Ok(())
    });
}

#[derive(Debug, PartialEq, Clone)]
pub enum Out {
    Ok { hdr: (u8, u16, u16), msgs: Vec<MMsg>, consumed: usize, inner_rem: Option<(usize, usize)> },
    Incomplete,
    Error(ErrorKind),
}

fn off(base: &[u8], s: &[u8]) -> usize {
    (s.as_ptr() as usize).wrapping_sub(base.as_ptr() as usize)
}

pub fn one_step(i: &[u8]) -> Result<Out, Fail> {
    guard("parse_tls_plaintext", || match parse_tls_plaintext(i) {
        Ok((rem, p)) => Out::Ok { hdr: (p.hdr.record_type.0, p.hdr.version.0, p.hdr.len), msgs: conv::msgs(&p.msg), consumed: i.len() - rem.len(), inner_rem: None },
        Err(Err::Incomplete(_)) => Out::Incomplete,
        Err(Err::Error(e)) | Err(Err::Failure(e)) => Out::Error(e.code),
    })
}

pub fn two_step(i: &[u8]) -> Result<Out, Fail> {
    guard("parse_tls_raw_record + parse_tls_record_with_header", || match parse_tls_raw_record(i) {
        Ok((rem, raw)) => match parse_tls_record_with_header(raw.data, &raw.hdr) {
            Ok((r2, msgs)) => {
                let inner = if r2.is_empty() { (raw.data.len(), 0) } else { (off(raw.data, r2), r2.len()) };
                Out::Ok { hdr: (raw.hdr.record_type.0, raw.hdr.version.0, raw.hdr.len), msgs: conv::msgs(&msgs), consumed: i.len() - rem.len(), inner_rem: Some(inner) }
            }
            Err(Err::Incomplete(_)) => Out::Incomplete,
            Err(Err::Error(e)) | Err(Err::Failure(e)) => Out::Error(e.code),
        },
        Err(Err::Incomplete(_)) => Out::Incomplete,
        Err(Err::Error(e)) | Err(Err::Failure(e)) => Out::Error(e.code),
    })
}

fn strip(o: &Out) -> Out {
    match o {
        Out::Ok { hdr, msgs, consumed, .. } => Out::Ok { hdr: *hdr, msgs: msgs.clone(), consumed: *consumed, inner_rem: None },
        x => x.clone(),
    }
}

fn gen_tail(t: &mut Tape) -> Vec<u8> {
    match t.weighted(&[60, 60, 40, 3]) {
        0 => vec![],
        1 => t.small_blob(40),
        2 => gen_record(t).to_bytes(),
        _ => {
            // the record at the head of a long buffer of further records: 64 KiB and more follow it, with lengths on both sides of the
            // multiples of 2^16 (a stream reader hands the parser everything it has)
            let k = t.pick(&[65536usize, 65536, 131072, 262144, 1 << 20]);
            let n = k - t.below(600).min(k - 1) + t.below(8);
            let unit = [0x17u8, 3, 3, 0, 3, 0xaa, 0xbb, 0xcc];
            (0..n).map(|i| unit[i % 8]).collect()
        }
    }
}

fn kind_label(c: u8) -> &'static str {
    match c {
        0x14 => "ccs",
        0x15 => "alert",
        0x16 => "handshake",
        0x17 => "appdata",
        0x18 => "heartbeat",
        _ => "unknown",
    }
}

fn valid(t: &mut Tape, obs: &mut Obs) -> R {
    let rec = gen_record(t);
    let mut buf = rec.to_bytes();
    let rec_len = buf.len();
    let tl = gen_tail(t);
    buf.extend_from_slice(&tl);
    let payload_len = rec_len - 5;
    if rec.msgs.len() >= 2 || payload_len > 255 {
        obs.nontrivial(fnv64(&buf));
    }
    let label = format!("{}:{}", kind_label(rec.ctype), if rec.msgs.len() > 1 { "multi" } else { "single" });
    obs.sample_class(&label, || json!({"case": label, "messages": rec.msgs.len(), "record_bytes": rec_len, "trailing": tl.len(), "hex": hex_short(&buf)}));
    let sigk = kind_label(rec.ctype);
    let want_hdr = (rec.ctype, rec.version, payload_len as u16);
    match one_step(&buf)? {
        Out::Ok { hdr, msgs, consumed, .. } => {
            ensure_eq!(hdr, want_hdr, format!("C03:valid:{}:one-step:header", sigk), "one-step header");
            ensure!(msgs == rec.msgs, format!("C03:valid:{}:one-step:messages", sigk), "one-step parsing returned {} message(s) {} for a record holding {} message(s) {}", msgs.len(), trunc(&format!("{:?}", msgs)), rec.msgs.len(), trunc(&format!("{:?}", rec.msgs)));
            ensure_eq!(consumed, rec_len, format!("C03:valid:{}:one-step:consumed", sigk), "one-step consumed bytes");
        }
        o => return fail(format!("C03:valid:{}:one-step:rejected:{:?}", sigk, o), format!("one-step parsing rejected a well-formed {} record ({} message(s), payload {} bytes) with {:?}: {}", sigk, rec.msgs.len(), payload_len, o, hex_short(&buf))),
    }
    match two_step(&buf)? {
        Out::Ok { hdr, msgs, consumed, inner_rem } => {
            ensure_eq!(hdr, want_hdr, format!("C03:valid:{}:two-step:header", sigk), "two-step header");
            ensure!(msgs == rec.msgs, format!("C03:valid:{}:two-step:messages", sigk), "two-step parsing returned {} for {}", trunc(&format!("{:?}", msgs)), trunc(&format!("{:?}", rec.msgs)));
            ensure_eq!(consumed, rec_len, format!("C03:valid:{}:two-step:consumed", sigk), "two-step consumed bytes");
            // whole payload decoded; a heartbeat's padding is what remains
            let want_rem = (payload_len - rec.padding.len(), rec.padding.len());
            ensure_eq!(inner_rem, Some(want_rem), format!("C03:valid:{}:two-step:remainder", sigk), "two-step inner remainder (offset, len)");
        }
        o => return fail(format!("C03:valid:{}:two-step:rejected:{:?}", sigk, o), format!("two-step parsing rejected a well-formed {} record with {:?}", sigk, o)),
    }
    Ok(())
}

/// must be rejected with an error by one-step and two-step parsing, never a value
fn expect_rejected(buf: &[u8], what: &str) -> R {
    for (name, o) in [("one-step", one_step(buf)?), ("two-step", two_step(buf)?)] {
        match o {
            Out::Error(_) => {}
            Out::Ok { msgs, .. } => return fail(format!("C03:negative:{}:{}:accepted", what, name), format!("{}: {} parsing returned a value ({}) for {}", what, name, trunc(&format!("{:?}", msgs)), hex_short(buf))),
            Out::Incomplete => return fail(format!("C03:negative:{}:{}:incomplete", what, name), format!("{}: {} parsing answered Incomplete for a complete record {}", what, name, hex_short(buf))),
        }
    }
    Ok(())
}

fn record(ctype: u8, version: u16, payload: &[u8]) -> Vec<u8> {
    let mut e = Enc::new();
    e.u8(ctype);
    e.u16(version);
    e.vec(2, "rec.len", payload);
    e.buf
}

fn negative(t: &mut Tape, obs: &mut Obs) -> R {
    let version = gen_version(t);
    let (what, mut buf): (String, Vec<u8>) = match t.below(7) {
        0 => {
            let c = t.pick(&[0x14u8, 0x15, 0x16]);
            (format!("empty-payload:{}", kind_label(c)), record(c, version, &[]))
        }
        1 => {
            // first message cut short: the record ends inside the first message
            let k = t.pick(&[1usize, 2, 2, 2, 4]);
            let rec = gen_record_of(t, k);
            let first = {
                let mut e = Enc::new();
                rec.msgs[0].encode(&mut e);
                e.buf
            };
            let min = if rec.ctype == 0x18 { 0 } else { 1 };
            if first.len() <= min {
                return Ok(());
            }
            // handshake messages with an empty body cut inside the header; others anywhere strictly inside
            let cut = min + t.below(first.len() - min);
            if rec.ctype == 0x16 {
                // cutting inside an optional trailing block can leave a shorter valid message only if the declared length is also changed; it is not
            }
            (format!("cut-short:{}", kind_label(rec.ctype)), record(rec.ctype, version, &first[..cut]))
        }
        2 => {
            let b = match t.below(3) {
                0 => 0u8,
                1 => 0x14,
                _ => {
                    let x = t.u8();
                    if x == 1 { 2 } else { x }
                }
            };
            let mut p = vec![b];
            p.extend(t.small_blob(4));
            ("malformed-first:ccs".to_string(), record(0x14, version, &p))
        }
        3 => {
            // handshake with an unassigned / unsupported type code, body present
            let mut ty = t.u8();
            if [0u8, 1, 2, 4, 5, 6, 11, 12, 13, 14, 15, 16, 20, 22, 24, 67].contains(&ty) {
                ty = 0xfe;
            }
            let body = t.small_blob(40);
            let mut e = Enc::new();
            e.u8(ty);
            e.vec(3, "hs.len", &body);
            ("malformed-first:handshake-type".to_string(), record(0x16, version, &e.buf))
        }
        4 => {
            // handshake header declaring more than the record holds
            let body = t.small_blob(30);
            let mut e = Enc::new();
            e.u8(t.pick(&[1u8, 2, 11, 12, 14, 16, 20]));
            // more than the record holds: by a little, by a lot, or only through the high byte of the 24-bit length
            let declared = match t.below(3) {
                0 => body.len() as u32 + 1 + t.below(70000) as u32,
                1 => ((1 + t.below(255)) as u32) << 16 | t.below(body.len() + 1) as u32,
                _ => t.pick(&[0x01_0000u32, 0x01_0001, 0xff_0000, 0x80_0000, 0xff_ffff]),
            };
            e.u24(declared);
            e.bytes(&body);
            ("cut-short:handshake-declared-length".to_string(), record(0x16, version, &e.buf))
        }
        5 => {
            // a single handshake message whose header length is consistent with the record (type + u24 length + exactly that many bytes, filling
            // the record) but whose body is too short for its type: malformed first message, must be an error (not Incomplete: the record is
            // complete) by both routes. Only lengths that no decoder of the type can accept are used.
            let (ty, max) = t.pick(&[(1u8, 34usize), (2, 34), (4, 3), (11, 2), (22, 3), (24, 0)]);
            let n = t.below(max + 1);
            let body: Vec<u8> = if t.bool() { (0..n).map(|_| t.u8()).collect() } else { vec![if t.bool() { 0 } else { 3 }; n] };
            let mut e = Enc::new();
            e.u8(ty);
            e.vec(3, "hs.len", &body);
            (format!("malformed-first:short-body:{}", ty), record(0x16, version, &e.buf))
        }
        _ => {
            let mut c = t.u8();
            if (0x14..=0x18).contains(&c) {
                c = c.wrapping_add(0x40);
            }
            let p = if t.bool() { gen_record(t).payload_bytes() } else { t.small_blob(60) };
            ("unknown-content-type".to_string(), record(c, version, &p))
        }
    };
    buf.extend(gen_tail(t));
    obs.nontrivial(fnv64(&buf));
    obs.sample_class(&what, || json!({"case": what, "hex": hex_short(&buf)}));
    expect_rejected(&buf, &what)
}

fn tail(t: &mut Tape, obs: &mut Obs) -> R {
    let kind = t.pick(&[0usize, 1, 2, 2]);
    let rec = gen_record_of(t, kind);
    let good = rec.payload_bytes();
    let bad: Vec<u8> = match kind {
        0 => {
            let mut b = t.u8();
            if b == 1 {
                b = 0;
            }
            let mut v = vec![b];
            v.extend(t.small_blob(3));
            v
        }
        1 => vec![t.u8()],
        _ => match t.below(5) {
            3 | 4 => {
                // a completely framed handshake message whose body is structurally invalid (the rejection rules of C04)
                match super::c04::gen_invalid(t) {
                    Some((_, m)) if m.len() < 4000 => m,
                    _ => vec![0xfe, 0, 0, 0],
                }
            }
            0 => {
                let n = 1 + t.below(3);
                t.bytes(n)
            }
            1 => {
                let body = t.small_blob(20);
                let mut e = Enc::new();
                e.u8(t.pick(&[1u8, 2, 11, 20]));
                e.u24(if t.bool() { body.len() as u32 + 1 + t.below(1000) as u32 } else { ((1 + t.below(255)) as u32) << 16 | t.below(body.len() + 1) as u32 });
                e.bytes(&body);
                e.buf
            }
            _ => {
                let body = t.small_blob(20);
                let mut e = Enc::new();
                e.u8(t.pick(&[0xfeu8, 7, 9, 10, 17, 19, 21, 23, 25, 66, 68, 255]));
                e.vec(3, "hs.len", &body);
                e.buf
            }
        },
    };
    if good.len() + bad.len() > RECORD_CAP {
        return Ok(());
    }
    let mut payload = good.clone();
    payload.extend_from_slice(&bad);
    let mut buf = record(rec.ctype, rec.version, &payload);
    let rec_len = buf.len();
    buf.extend(gen_tail(t));
    obs.nontrivial(fnv64(&buf));
    let label = format!("tail:{}", kind_label(rec.ctype));
    obs.sample_class(&label, || json!({"case": label, "valid_messages": rec.msgs.len(), "valid_bytes": good.len(), "tail_bytes": bad.len(), "hex": hex_short(&buf)}));
    let sigk = kind_label(rec.ctype);
    match one_step(&buf)? {
        Out::Ok { msgs, consumed, .. } => {
            ensure!(msgs == rec.msgs, format!("C03:tail:{}:one-step:messages", sigk), "decoding must stop at the first malformed message: got {} message(s) {}, the valid prefix has {}", msgs.len(), trunc(&format!("{:?}", msgs)), rec.msgs.len());
            ensure_eq!(consumed, rec_len, format!("C03:tail:{}:one-step:consumed", sigk), "consumed");
        }
        o => return fail(format!("C03:tail:{}:one-step:{:?}", sigk, o), format!("a record with {} valid message(s) followed by a malformed one must return the valid prefix, got {:?}", rec.msgs.len(), o)),
    }
    match two_step(&buf)? {
        Out::Ok { msgs, inner_rem, .. } => {
            ensure!(msgs == rec.msgs, format!("C03:tail:{}:two-step:messages", sigk), "two-step: got {} message(s), the valid prefix has {}", msgs.len(), rec.msgs.len());
            ensure_eq!(inner_rem, Some((good.len(), bad.len())), format!("C03:tail:{}:two-step:remainder", sigk), "two-step remainder must be the undecoded tail (offset, len)");
        }
        o => return fail(format!("C03:tail:{}:two-step:{:?}", sigk, o), format!("two-step parsing must return the valid prefix, got {:?}", o)),
    }
    Ok(())
}

/// the tape itself is the record bytes (first byte folded onto the five content types most of the time)
fn differential_raw(t: &mut Tape, obs: &mut Obs) -> R {
    let mut buf = Vec::new();
    while !t.exhausted() {
        buf.push(t.u8());
    }
    if let Some(b0) = buf.first_mut() {
        if *b0 & 0x80 == 0 {
            *b0 = 0x14 + (*b0 % 5);
        }
    }
    if buf.len() >= 5 {
        obs.nontrivial(fnv64(&buf));
    }
    let a = one_step(&buf)?;
    let b = two_step(&buf)?;
    obs.class(match &a {
        Out::Ok { .. } => "ok",
        Out::Incomplete => "incomplete",
        Out::Error(_) => "error",
    });
    if matches!(a, Out::Ok { .. }) {
        obs.sample(json!({"case": "raw", "hex": hex_short(&buf)}));
    }
    ensure!(strip(&a) == strip(&b), "C03:differential:one-step-vs-two-step", "one-step and two-step parsing disagree on {}: one-step {} two-step {}", hex_short(&buf), trunc(&format!("{:?}", a)), trunc(&format!("{:?}", b)));
    Ok(())
}

fn differential(t: &mut Tape, obs: &mut Obs) -> R {
    let mut buf: Vec<u8>;
    let label;
    match t.weighted(&[4, 3, 3]) {
        0 => {
            // a valid record with 1..3 length fields corrupted
            let rec = gen_record(t);
            let mut e = Enc::new();
            rec.encode(&mut e);
            buf = e.buf;
            let n = 1 + t.below(3);
            for _ in 0..n {
                if e.lens.is_empty() {
                    break;
                }
                let lf = &e.lens[t.below(e.lens.len())];
                let max = (1u64 << (8 * lf.width)) - 1;
                let v = match t.below(6) {
                    0 => 0,
                    1 => 1,
                    2 => (lf.value as u64).saturating_sub(1),
                    3 => (lf.value as u64 + 1).min(max),
                    4 => max,
                    _ => t.u32() as u64 & max,
                };
                vmodel::wire::set_be(&mut buf[lf.off..lf.off + lf.width], v);
            }
            label = format!("corrupt-len:{}", kind_label(rec.ctype));
        }
        1 => {
            let c = if t.chance(200) { t.pick(&[0x14u8, 0x15, 0x16, 0x17, 0x18]) } else { t.u8() };
            let p = t.small_blob(80);
            buf = record(c, gen_version(t), &p);
            label = format!("random-payload:{}", kind_label(c));
        }
        _ => {
            let rec = gen_record(t);
            buf = rec.to_bytes();
            if !buf.is_empty() {
                match t.below(3) {
                    0 => {
                        let c = t.below(buf.len());
                        buf.truncate(c);
                    }
                    1 => {
                        let i = t.below(buf.len());
                        buf[i] ^= 1 << t.below(8);
                    }
                    _ => {
                        let i = t.below(buf.len());
                        buf[i] = t.u8();
                    }
                }
            }
            label = format!("mutated:{}", kind_label(rec.ctype));
        }
    }
    buf.extend(gen_tail(t));
    if buf.len() >= 5 {
        obs.nontrivial(fnv64(&buf));
    }
    let a = one_step(&buf)?;
    let b = two_step(&buf)?;
    let cls = match &a {
        Out::Ok { .. } => "ok",
        Out::Incomplete => "incomplete",
        Out::Error(_) => "error",
    };
    obs.sample_class(&format!("{}:{}", label, cls), || json!({"case": label, "outcome": cls, "hex": hex_short(&buf)}));
    ensure!(strip(&a) == strip(&b), "C03:differential:one-step-vs-two-step", "one-step and two-step parsing disagree on {}: one-step {} two-step {}", hex_short(&buf), trunc(&format!("{:?}", a)), trunc(&format!("{:?}", b)));
    Ok(())
}
