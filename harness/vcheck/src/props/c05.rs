//! C05 Extensions decode by IANA type; GREASE and unknown types are preserved.

use super::PropDef;
use crate::conv;
use crate::core::*;
use serde_json::json;
use tls_parser::*;
use vmodel::model::*;
use vmodel::tape::Tape;
use vmodel::wire::{fnv64, hex_short, set_be, Enc};

pub const DEF: PropDef = PropDef {
    id: "C05",
    title: "Extensions decode by IANA type; GREASE and unknown types are preserved",
    rule: "single/lists = model extensions (26 known types with well-formed generated contents, the 16 RFC 8701 GREASE values, unknown types incl. 0x?a?a look-alikes \
           and neighbours of known types) alone with trailing bytes and in lists of 0..12, through the three dispatchers and list parsers, with the variant->type \
           tag conversion; classify = complete enumeration of all 65536 type codes x 3 bodies (empty, 5 bytes, a valid body when the type is known) x 3 dispatchers \
           and x 16 single-purpose parsers (each must accept exactly its own IANA type and then agree with the generic parser); empty_only = the four \
           must-be-empty extensions with 1..n bytes of data; overlong = an extension length exceeding the block, alone and at every position of a list; \
           tag_arbitrary = arbitrary / corrupted bytes: a single-purpose parser that accepts implies the generic parser returns the same value and remainder. \
           Non-trivial = a known type with non-empty content, a list of >= 2, a corruption, or (classify) a type that is known or GREASE; distinct by hash of the bytes / by type.",
    assumptions: &[
        "dispatcher agreement: a dispatcher must equal the generic parser on every type it recognises; the set each recognises on the pinned tree may grow but not shrink; any other type must come back as Unknown(type, data)",
        "a length field exceeding the enclosing block = the extension's own u16 length (the only length the statement defines)",
        "model encoders follow RFC 6066 / 8422 / 8446 4.2 / 6520 / 7301 / 6962 / 7685 / 7366 / 7627 / 8449 / 5077 / 5746, NPN and ESNI drafts",
    ],
    run,
};

pub const SUBS: &[SubDef] = &[
    SubDef { prop: "C05", name: "single", oracle: single },
    SubDef { prop: "C05", name: "lists", oracle: lists },
    SubDef { prop: "C05", name: "classify", oracle: classify },
    SubDef { prop: "C05", name: "empty_only", oracle: empty_only },
    SubDef { prop: "C05", name: "overlong", oracle: overlong },
    SubDef { prop: "C05", name: "tag_arbitrary", oracle: tag_arbitrary },
    SubDef { prop: "C05", name: "inner_overlong", oracle: inner_overlong },
    SubDef { prop: "C05", name: "empty_only_in_list", oracle: empty_only_in_list },
    SubDef { prop: "C05", name: "equality", oracle: equality },
];

fn run(ctx: &Ctx) {
    ctx.run_tape("single", single, ctx.pick(150_000, 800_000), 400);
    ctx.run_tape("lists", lists, ctx.pick(100_000, 600_000), 900);
    ctx.run_enum("classify", classify, true, "all 65536 extension types x 3 bodies x (3 dispatchers + 16 single-purpose parsers)", (0..=65535u32).map(|v| vec![(v >> 8) as u8, v as u8]));
    ctx.run_tape("empty_only", empty_only, ctx.pick(30_000, 100_000), 64);
    ctx.run_tape("overlong", overlong, ctx.pick(60_000, 300_000), 700);
    ctx.run_tape("tag_arbitrary", tag_arbitrary, ctx.pick(100_000, 500_000), 300);
    ctx.run_tape("inner_overlong", inner_overlong, ctx.pick(80_000, 400_000), 300);
    ctx.run_tape("empty_only_in_list", empty_only_in_list, ctx.pick(40_000, 200_000), 400);
    ctx.run_tape("equality", equality, ctx.pick(60_000, 300_000), 500);
}

type P = fn(&[u8]) -> IResult<&[u8], TlsExtension>;
type PL = fn(&[u8]) -> IResult<&[u8], Vec<TlsExtension>>;

const DISPATCHERS: [(&str, P); 3] = [("generic", parse_tls_extension), ("client", parse_tls_client_hello_extension), ("server", parse_tls_server_hello_extension)];
const LIST_PARSERS: [(&str, PL); 3] = [("generic", parse_tls_extensions), ("client", parse_tls_client_hello_extensions), ("server", parse_tls_server_hello_extensions)];

/// types each dispatcher recognises on the pinned tree (may grow, must not shrink)
const CLIENT_SET: [u16; 25] = [0, 1, 5, 10, 11, 13, 15, 16, 18, 21, 22, 23, 28, 35, 41, 42, 43, 44, 45, 48, 49, 51, 13172, 0xff01, 0xffce];
const SERVER_SET: [u16; 19] = [0, 1, 5, 11, 13, 15, 16, 18, 22, 23, 28, 35, 41, 42, 43, 44, 51, 13172, 0xff01];

fn recognised(disp: &str, ty: u16) -> bool {
    match disp {
        "generic" => KNOWN_EXT_TYPES.contains(&ty),
        "client" => CLIENT_SET.contains(&ty),
        _ => SERVER_SET.contains(&ty),
    }
}

const TAG_PARSERS: [(&str, u16, P); 16] = [
    ("parse_tls_extension_sni", 0, parse_tls_extension_sni),
    ("parse_tls_extension_max_fragment_length", 1, parse_tls_extension_max_fragment_length),
    ("parse_tls_extension_status_request", 5, parse_tls_extension_status_request),
    ("parse_tls_extension_elliptic_curves", 10, parse_tls_extension_elliptic_curves),
    ("parse_tls_extension_ec_point_formats", 11, parse_tls_extension_ec_point_formats),
    ("parse_tls_extension_signature_algorithms", 13, parse_tls_extension_signature_algorithms),
    ("parse_tls_extension_heartbeat", 15, parse_tls_extension_heartbeat),
    ("parse_tls_extension_encrypt_then_mac", 22, parse_tls_extension_encrypt_then_mac),
    ("parse_tls_extension_extended_master_secret", 23, parse_tls_extension_extended_master_secret),
    ("parse_tls_extension_session_ticket", 35, parse_tls_extension_session_ticket),
    ("parse_tls_extension_pre_shared_key", 41, parse_tls_extension_pre_shared_key),
    ("parse_tls_extension_early_data", 42, parse_tls_extension_early_data),
    ("parse_tls_extension_supported_versions", 43, parse_tls_extension_supported_versions),
    ("parse_tls_extension_cookie", 44, parse_tls_extension_cookie),
    ("parse_tls_extension_psk_key_exchange_modes", 45, parse_tls_extension_psk_key_exchange_modes),
    ("parse_tls_extension_key_share", 51, parse_tls_extension_key_share),
];

/// (offset of remainder, remainder len, value, type tag derived from the value)
type Got = Result<(usize, usize, MExt, u16), String>;

fn call(p: P, buf: &[u8]) -> Result<Got, Fail> {
    guard("extension parser", || match p(buf) {
        Ok((rem, e)) => {
            let tag = TlsExtensionType::from(&e).0;
            Ok(((rem.as_ptr() as usize).wrapping_sub(buf.as_ptr() as usize), rem.len(), conv::ext(&e), tag))
        }
        Err(e) => Err(format!("{:?}", e.map(|x| x.code))),
    })
}

/// the variant a dispatcher must return for this model extension
fn expected_for(disp: &str, m: &MExt) -> MExt {
    let ty = m.wire_type();
    if matches!(m, MExt::Grease(..)) || recognised(disp, ty) {
        m.canon()
    } else {
        let mut e = Enc::new();
        m.encode_content(&mut e);
        MExt::Unknown(ty, e.buf)
    }
}

fn check_single(m: &MExt, tail: &[u8], obs: &mut Obs) -> R {
    let enc = m.to_bytes();
    let mut buf = enc.clone();
    buf.extend_from_slice(tail);
    let ty = m.wire_type();
    for (dn, p) in DISPATCHERS {
        let got = call(p, &buf)?;
        match got {
            Ok((off, rl, v, tag)) => {
                let want = expected_for(dn, m);
                // a dispatcher outside its pinned set may have learnt the type: the generic value is then also acceptable
                let ok = v == want || (v == m.canon() && KNOWN_EXT_TYPES.contains(&ty));
                ensure!(ok, format!("C05:single:{}:value:type={}", dn, ty), "{} dispatcher: extension type {} ({}) decoded to {}, expected {} (wire {})", dn, ty, m.name(), trunc(&format!("{:?}", v)), trunc(&format!("{:?}", want)), hex_short(&buf));
                ensure!(rl == tail.len() && (rl == 0 || off == enc.len()), format!("C05:single:{}:remainder", dn), "{} dispatcher: remainder must be the {} trailing bytes, got {} bytes at offset {}", dn, tail.len(), rl, off);
                let want_tag = if matches!(v, MExt::Grease(..)) { 0xfafa } else { ty };
                ensure!(tag == want_tag, format!("C05:single:type-tag:type={}", ty), "TlsExtensionType::from(&{}) = {}, the wire type is {} (expected tag {})", trunc(&format!("{:?}", v)), tag, ty, want_tag);
            }
            Err(e) => return fail(format!("C05:single:{}:rejected:type={}", dn, ty), format!("{} dispatcher rejected a well-formed extension of type {} ({}) with {}: {}", dn, ty, m.name(), e, hex_short(&buf))),
        }
    }
    // the single-purpose parser of this type, if any
    for (pn, pty, p) in TAG_PARSERS {
        if pty == ty {
            match call(p, &buf)? {
                Ok((off, rl, v, _)) => {
                    ensure!(v == m.canon(), format!("C05:single:{}:value", pn), "{}: decoded {} expected {}", pn, trunc(&format!("{:?}", v)), trunc(&format!("{:?}", m.canon())));
                    ensure!(rl == tail.len() && (rl == 0 || off == enc.len()), format!("C05:single:{}:remainder", pn), "{}: remainder {} bytes at {}, expected {} trailing bytes", pn, rl, off, tail.len());
                }
                Err(e) => return fail(format!("C05:single:{}:rejected", pn), format!("{} rejected its own extension type {} with {}: {}", pn, ty, e, hex_short(&buf))),
            }
        }
    }
    // the parser every "other type" goes to, called by itself on any (type, length, data): Unknown(type, data) byte-for-byte - the
    // data is exactly the declared bytes, whatever follows in the buffer
    if enc.len() >= 4 {
        let body = &enc[4..];
        match call(parse_tls_extension_unknown, &buf)? {
            Ok((off, rl, v, _)) => {
                ensure!(v == MExt::Unknown(ty, body.to_vec()), "C05:single:parse_tls_extension_unknown:value", "parse_tls_extension_unknown on a type {} extension of {} data bytes followed by {} more bytes: decoded {}, expected Unknown({}, the {} data bytes)", ty, body.len(), tail.len(), trunc(&format!("{:?}", v)), ty, body.len());
                ensure!(rl == tail.len() && (rl == 0 || off == enc.len()), "C05:single:parse_tls_extension_unknown:remainder", "parse_tls_extension_unknown: remainder {} bytes at {}, expected the {} trailing bytes", rl, off, tail.len());
            }
            Err(e) => return fail("C05:single:parse_tls_extension_unknown:rejected", format!("parse_tls_extension_unknown rejected a complete extension of type {} with {}: {}", ty, e, hex_short(&buf))),
        }
    }
    if m.has_content() && !matches!(m, MExt::Unknown(..)) {
        obs.nontrivial(fnv64(&buf));
    }
    Ok(())
}

fn single(t: &mut Tape, obs: &mut Obs) -> R {
    let budget = if t.chance(30) { 60000 } else { 400 };
    let m = gen_ext(t, budget);
    let tail = match t.weighted(&[40, 60, 60, 3]) {
        0 => vec![],
        1 => t.small_blob(30),
        2 => gen_ext(t, 100).to_bytes(),
        _ => {
            // 64 KiB and more behind the extension (the parsers are also called on buffers that hold much more than one block),
            // lengths on both sides of the multiples of 2^16
            let k = t.pick(&[65536usize, 65536, 131072, 1 << 20]);
            let n = k - t.below(700).min(k - 1) + t.below(8);
            let unit = [0x40u8, 0x01, 0, 2, 0xaa, 0xbb];
            (0..n).map(|i| unit[i % 6]).collect()
        }
    };
    let label = m.name();
    obs.sample_class(&label, || json!({"extension": trunc(&format!("{:?}", m)), "wire": hex_short(&m.to_bytes()), "trailing": tail.len()}));
    check_single(&m, &tail, obs)
}

fn lists(t: &mut Tape, obs: &mut Obs) -> R {
    let l: Vec<MExt> = if t.chance(4) {
        // blocks beyond 64 KiB (the list parsers take any slice): a few large extensions, or thousands of small ones
        if t.bool() {
            let n = 2 + t.below(4);
            (0..n).map(|k| MExt::Unknown(0x4100 + k as u16, vec![k as u8; t.pick(&[0x9000usize, 0x7fff, 0x8000, 0xffff, 40000])])).collect()
        } else {
            let n = t.pick(&[3000usize, 8000, 20000]);
            (0..n).map(|k| MExt::Unknown(0x4000 + (k % 200) as u16, vec![k as u8; 30 + k % 7])).collect()
        }
    } else if t.chance(12) {
        // long blocks of minimal extensions: 255 / 256 / 257 ... up to what a 64 KiB block can hold
        let n = t.pick(&[255usize, 256, 257, 258, 300, 1000, 4000, 13000]);
        (0..n).map(|k| match t.below(4) {
            0 => MExt::Unknown(0x4000 + (k % 200) as u16, vec![]),
            1 => MExt::ExtendedMasterSecret,
            2 => MExt::Unknown(0x4000 + (k % 200) as u16, vec![k as u8]),
            _ => MExt::Grease(0x2a2a, vec![]),
        }).collect()
    } else {
        gen_ext_list(t, 12, 60000)
    };
    let e = encode_ext_list(&l);
    let buf = e.buf;
    if l.len() >= 2 {
        obs.nontrivial(fnv64(&buf));
    }
    obs.class(&format!("len={}", if l.len() > 12 { ">=255".to_string() } else { l.len().min(9).to_string() }));
    obs.sample(json!({"extensions": l.iter().take(14).map(|x| x.name()).collect::<Vec<_>>(), "count": l.len(), "bytes": buf.len(), "hex": hex_short(&buf)}));
    for (dn, p) in LIST_PARSERS {
        let r = guard("extension list parser", || match p(&buf) {
            Ok((rem, v)) => Ok((rem.len(), conv::exts(&v), v.iter().map(|x| TlsExtensionType::from(x).0).collect::<Vec<u16>>())),
            Err(e) => Err(format!("{:?}", e.map(|x| x.code))),
        })?;
        match r {
            Ok((rl, v, tags)) => {
                ensure!(v.len() == l.len(), format!("C05:lists:{}:count", dn), "{} list parser returned {} element(s) for a block of {} extension(s): {}", dn, v.len(), l.len(), hex_short(&buf));
                ensure!(rl == 0, format!("C05:lists:{}:not-consumed", dn), "{} list parser left {} bytes of the block", dn, rl);
                for (i, m) in l.iter().enumerate() {
                    let want = expected_for(dn, m);
                    let ok = v[i] == want || (v[i] == m.canon() && KNOWN_EXT_TYPES.contains(&m.wire_type()));
                    ensure!(ok, format!("C05:lists:{}:element:type={}", dn, m.wire_type()), "{} list parser: element {} is {}, expected {}", dn, i, trunc(&format!("{:?}", v[i])), trunc(&format!("{:?}", want)));
                    let want_tag = if matches!(v[i], MExt::Grease(..)) { 0xfafa } else { m.wire_type() };
                    ensure!(tags[i] == want_tag, format!("C05:lists:type-tag:type={}", m.wire_type()), "element {}: type tag {} expected {}", i, tags[i], want_tag);
                }
            }
            Err(e) => return fail(format!("C05:lists:{}:rejected", dn), format!("{} list parser rejected a well-formed block with {}", dn, e)),
        }
    }
    Ok(())
}

pub fn valid_body_for(ty: u16) -> Option<(MExt, Vec<u8>)> {
    let idx = KNOWN_EXT_TYPES.iter().position(|x| *x == ty)?;
    let seed = [(ty >> 8) as u8, ty as u8, 0x31, 0x85, 0x21, 0x90, 3, 0x44, 7, 200, 0x10, 0x20, 0x30, 0x40, 2, 2, 9, 9, 9, 9, 1, 2, 3, 4, 5, 6, 7, 8, 9];
    let mut t = Tape::new(&seed);
    let m = gen_ext_known(&mut t, idx, 64);
    let mut e = Enc::new();
    m.encode_content(&mut e);
    Some((m, e.buf))
}

fn ext_bytes(ty: u16, body: &[u8]) -> Vec<u8> {
    let mut e = Enc::new();
    e.u16(ty);
    e.vec(2, "ext.len", body);
    e.buf
}

/// parameter tape: [type_hi, type_lo]
pub const FUTURE_EXT_BODIES: [(&str, &[u8]); 7] = [
    ("ech-outer", &[0x00, 0x00, 0x01, 0x00, 0x01, 0x2a, 0x00, 0x00, 0x00, 0x01, 0x22]),
    ("ech-outer-with-enc", &[0x00, 0x00, 0x01, 0x00, 0x01, 0x07, 0x00, 0x20, 1, 2, 3, 4, 5, 6, 7, 8, 9, 10, 11, 12, 13, 14, 15, 16, 17, 18, 19, 20, 21, 22, 23, 24, 25, 26, 27, 28, 29, 30, 31, 32, 0x00, 0x03, 0xaa, 0xbb, 0xcc]),
    ("ech-inner", &[0x01]),
    ("compress-certificate", &[0x02, 0x00, 0x02]),
    ("connection-id", &[0x04, 0xc1, 0xc2, 0xc3, 0xc4]),
    ("quic-transport-parameters", &[0x01, 0x02, 0x67, 0x10, 0x03, 0x02, 0x45, 0xc0, 0x0f, 0x00]),
    ("application-settings", &[0x00, 0x03, 0x02, 0x68, 0x32]),
];

fn classify(t: &mut Tape, obs: &mut Obs) -> R {
    let ty = t.u16();
    let known = KNOWN_EXT_TYPES.contains(&ty);
    let grease = is_grease(ty);
    if known || grease {
        obs.nontrivial(ty as u64);
    }
    obs.class(if known { "known" } else if grease { "grease" } else { "unknown" });
    let valid = valid_body_for(ty);
    let five = [0u8, 3, 1, 2, 3];
    // ... and bodies shaped like extensions the crate does not decode (encrypted_client_hello outer form, compress_certificate,
    // connection_id, delegated_credential, QUIC transport parameters, application_settings): under an unregistered type they are data
    // like any other, and the type comes back unchanged
    let mut bodies: Vec<(&str, &[u8])> = match &valid {
        Some((_, b)) => vec![("empty", &[][..]), ("five", &five[..]), ("valid", b.as_slice())],
        None => vec![("empty", &[][..]), ("five", &five[..])],
    };
    if !known {
        for (n, b) in FUTURE_EXT_BODIES {
            bodies.push((n, b));
        }
    }
    for (bn, body) in &bodies {
        let mut buf = ext_bytes(ty, body);
        buf.extend_from_slice(&[0xde, 0xad]);
        for (dn, p) in DISPATCHERS {
            obs.evals_add(1);
            let got = call(p, &buf)?;
            if grease {
                let want = MExt::Grease(ty, body.to_vec());
                ensure!(matches!(&got, Ok((_, 2, v, 0xfafa)) if *v == want), format!("C05:classify:{}:grease:type={:#06x}", dn, ty), "{}: GREASE type {:#06x} must decode to Grease(type, data) with tag 0xfafa, got {:?}", dn, ty, got);
            } else if !known {
                let want = MExt::Unknown(ty, body.to_vec());
                ensure!(matches!(&got, Ok((_, 2, v, tg)) if *v == want && *tg == ty), format!("C05:classify:{}:unknown:type={:#06x}", dn, ty), "{}: unregistered type {:#06x} must decode to Unknown(type, data) byte for byte, got {}", dn, ty, trunc(&format!("{:?}", got)));
            } else {
                let (m, _) = valid.as_ref().unwrap();
                let unknown = MExt::Unknown(ty, body.to_vec());
                match &got {
                    Ok((_, rl, v, tg)) => {
                        ensure!(*rl == 2, format!("C05:classify:{}:remainder:type={}", dn, ty), "{}: type {} body {}: remainder {} bytes, expected 2", dn, ty, bn, rl);
                        if *v == unknown {
                            ensure!(!recognised(dn, ty), format!("C05:classify:{}:dropped-row:type={}", dn, ty), "{} dispatcher no longer recognises extension type {} (returned Unknown)", dn, ty);
                        } else {
                            ensure!(v.wire_type() == ty && *tg == ty, format!("C05:classify:{}:wrong-variant:type={}", dn, ty), "{}: type {} decoded to {} whose type is {} (tag {})", dn, ty, trunc(&format!("{:?}", v)), v.wire_type(), tg);
                            if *bn == "valid" {
                                ensure!(*v == m.canon(), format!("C05:classify:{}:value:type={}", dn, ty), "{}: type {}: got {:?} expected {:?}", dn, ty, v, m.canon());
                            }
                        }
                    }
                    Err(e) => ensure!(*bn != "valid", format!("C05:classify:{}:rejected:type={}", dn, ty), "{} dispatcher rejected a valid body of type {} with {}", dn, ty, e),
                }
            }
        }
    }
    // single-purpose parsers: accept exactly their own type, then agree with the generic parser
    for (pn, pty, p) in TAG_PARSERS {
        let (_, body) = valid_body_for(pty).unwrap();
        let mut buf = ext_bytes(ty, &body);
        buf.extend_from_slice(&[0xde, 0xad]);
        obs.evals_add(1);
        let got = call(p, &buf)?;
        if ty == pty {
            let gen = call(parse_tls_extension, &buf)?;
            ensure!(got.is_ok(), format!("C05:tag:{}:rejects-own-type", pn), "{} rejects its own IANA type {}: {:?}", pn, pty, got);
            ensure!(got == gen, format!("C05:tag:{}:disagrees-with-generic", pn), "{} and the generic parser disagree on type {}: {:?} vs {:?}", pn, pty, got, gen);
        } else {
            ensure!(got.is_err(), format!("C05:tag:{}:accepts-foreign-type:type={}", pn, ty), "{} (IANA type {}) accepted an extension of type {}: {}", pn, pty, ty, trunc(&format!("{:?}", got)));
        }
    }
    if obs.wants_sample() && known {
        obs.sample(json!({"type": ty, "valid_body": valid.as_ref().map(|v| hex_short(&v.1)), "model": valid.as_ref().map(|v| trunc(&format!("{:?}", v.0)))}));
    }
    Ok(())
}

fn empty_only(t: &mut Tape, obs: &mut Obs) -> R {
    let ty = t.pick(&[22u16, 23, 49, 13172]);
    let n = 1 + t.small(40);
    let data = t.bytes(n);
    let mut buf = ext_bytes(ty, &data);
    buf.extend(t.small_blob(8));
    obs.nontrivial(fnv64(&buf));
    obs.sample_class(&format!("type={}", ty), || json!({"type": ty, "data_bytes": n, "hex": hex_short(&buf)}));
    for (dn, p) in DISPATCHERS {
        if !recognised(dn, ty) {
            continue;
        }
        let got = call(p, &buf)?;
        ensure!(got.is_err(), format!("C05:empty-only:{}:type={}", dn, ty), "{} dispatcher: extension type {} is defined as empty but was accepted with {} byte(s) of data: {:?}", dn, ty, n, got);
    }
    for (pn, pty, p) in TAG_PARSERS {
        if pty == ty {
            let got = call(p, &buf)?;
            ensure!(got.is_err(), format!("C05:empty-only:{}", pn), "{}: accepted {} byte(s) of data: {:?}", pn, n, got);
        }
    }
    Ok(())
}

/// the same rule inside a block: well-formed extensions, then an empty-only type that carries data, then more well-formed ones.
/// Whatever a list parser does with such a block (stop in front of the offending extension, or refuse the block), it must not
/// return an element for it: everything it returns is the decoded well-formed prefix.
fn empty_only_in_list(t: &mut Tape, obs: &mut Obs) -> R {
    let ty = t.pick(&[22u16, 23, 49, 13172]);
    let prefix = gen_ext_list(t, 4, 300);
    let suffix = gen_ext_list(t, 3, 200);
    let n = 1 + t.small(12);
    let data = t.bytes(n);
    let mut buf = encode_ext_list(&prefix).buf;
    let at = buf.len();
    buf.extend(ext_bytes(ty, &data));
    buf.extend(encode_ext_list(&suffix).buf);
    obs.nontrivial(fnv64(&buf));
    obs.sample_class(&format!("type={}:after={}", ty, prefix.len()), || json!({"type": ty, "data_bytes": n, "well_formed_before": prefix.len(), "well_formed_after": suffix.len(), "hex": hex_short(&buf)}));
    for (dn, p) in LIST_PARSERS {
        if !recognised(dn, ty) {
            continue;
        }
        let r = guard("extension list parser", || p(&buf).map(|(rem, v)| (rem.len(), conv::exts(&v))).map_err(|e| e.map(|x| x.code)))?;
        if let Ok((rl, v)) = r {
            ensure!(v.len() <= prefix.len(), format!("C05:empty-only-in-list:{}:type={}", dn, ty), "{} list parser: extension type {} is defined as empty, carries {} byte(s) of data, and the parser returned {} element(s) for a block with {} well-formed extension(s) in front of it; element {} is {}", dn, ty, n, v.len(), prefix.len(), prefix.len(), trunc(&format!("{:?}", v.get(prefix.len()))));
            for (i, got) in v.iter().enumerate() {
                let want = expected_for(dn, &prefix[i]);
                let ok = *got == want || (*got == prefix[i].canon() && KNOWN_EXT_TYPES.contains(&prefix[i].wire_type()));
                ensure!(ok, format!("C05:empty-only-in-list:{}:prefix-element", dn), "{} list parser: element {} in front of the offending extension is {}, expected {}", dn, i, trunc(&format!("{:?}", got)), trunc(&format!("{:?}", want)));
            }
            ensure!(v.len() < prefix.len() || rl >= buf.len() - at, format!("C05:empty-only-in-list:{}:consumed", dn), "{} list parser consumed bytes of the offending extension: {} bytes left, the extension starts {} bytes before the end", dn, rl, buf.len() - at);
        }
    }
    Ok(())
}

/// "with exact contents ... byte-for-byte" is decided by comparing values, and callers compare decoded values with `==`: two blocks
/// that decode to field-wise different values must not compare equal, and one block decoded twice must compare equal.
fn equality(t: &mut Tape, obs: &mut Obs) -> R {
    let l = gen_ext_list(t, 4, 400);
    if l.is_empty() {
        return Ok(());
    }
    let a = encode_ext_list(&l).buf;
    let mut b = a.clone();
    let pos = t.below(b.len());
    let delta = 1 + t.below(255) as u8;
    b[pos] = b[pos].wrapping_add(delta);
    let a2 = a.clone();
    for (dn, p) in LIST_PARSERS {
        let verdict = guard("extension list parser", || {
            let (ra, rb, ra2) = (p(&a), p(&b), p(&a2));
            match (&ra, &rb, &ra2) {
                (Ok((_, va)), Ok((_, vb)), Ok((_, va2))) => {
                    let c = va.clone();
                    let clone_ok = conv::exts(&c) == conv::exts(va) && c == *va && format!("{:?}", c) == format!("{:?}", va);
                    Some((conv::exts(va) != conv::exts(vb), va == vb, va != vb, va == va2, va != va2, format!("{:?}", va), format!("{:?}", vb), clone_ok))
                }
                _ => None,
            }
        })?;
        if let Some((differ, eq, ne, same_eq, same_ne, da, db, clone_ok)) = verdict {
            obs.evals_add(1);
            ensure!(clone_ok, format!("C05:equality:{}:clone-differs", dn), "{} list parser: the clone of a decoded list differs from the list: {}", dn, trunc(&da));
            ensure!(same_eq && !same_ne, format!("C05:equality:{}:same-bytes-unequal", dn), "{} list parser: one block decoded twice gives values that do not compare equal: {}", dn, trunc(&da));
            if differ {
                obs.nontrivial(fnv64(&b));
                obs.class("decoded-values-differ");
                ensure!(!eq && ne, format!("C05:equality:{}:different-values-compare-equal", dn), "{} list parser: two blocks differing in byte {} decode to different contents but the values compare equal (== {}, != {}): {} vs {}", dn, pos, eq, ne, trunc(&da), trunc(&db));
            }
        }
    }
    obs.sample(json!({"extensions": l.iter().map(|x| x.name()).collect::<Vec<_>>(), "changed_byte": pos}));
    Ok(())
}

fn overlong(t: &mut Tape, obs: &mut Obs) -> R {
    // a list; one element gets a length exceeding what remains of the block
    let mut l = gen_ext_list(t, 8, 2000);
    if l.is_empty() {
        l.push(gen_ext(t, 100));
    }
    let bad = t.below(l.len());
    let mut e = Enc::new();
    let mut offs = Vec::new();
    for x in &l {
        offs.push(e.buf.len());
        x.encode(&mut e);
    }
    let mut buf = e.buf;
    let start = offs[bad];
    let avail = buf.len() - (start + 4);
    if avail >= 65535 {
        return Ok(());
    }
    let v = match t.below(3) {
        0 => avail + 1,
        1 => 65535,
        _ => t.range(avail + 1, 65535),
    };
    set_be(&mut buf[start + 2..start + 4], v as u64);
    obs.nontrivial(fnv64(&buf));
    obs.class(&format!("bad_at={}", bad.min(5)));
    obs.sample(json!({"elements": l.len(), "overlong_at": bad, "declared": v, "available": avail, "hex": hex_short(&buf)}));
    // single parsers on the bad element alone (with the rest of the block behind it)
    for (dn, p) in DISPATCHERS {
        let got = call(p, &buf[start..])?;
        ensure!(got.is_err(), format!("C05:overlong:{}:single-accepted", dn), "{} dispatcher returned a value for an extension whose length {} exceeds the {} available bytes: {}", dn, v, avail, trunc(&format!("{:?}", got)));
    }
    for (pn, pty, p) in TAG_PARSERS {
        if pty == l[bad].wire_type() {
            let got = call(p, &buf[start..])?;
            ensure!(got.is_err(), format!("C05:overlong:{}:accepted", pn), "{} returned a value for an overlong extension: {:?}", pn, got);
        }
    }
    for (dn, p) in LIST_PARSERS {
        let r = guard("extension list parser", || match p(&buf) {
            Ok((rem, v)) => Ok(((rem.as_ptr() as usize).wrapping_sub(buf.as_ptr() as usize), rem.len(), conv::exts(&v))),
            Err(e) => Err(format!("{:?}", e.map(|x| x.code))),
        })?;
        match r {
            Ok((off, rl, v)) => {
                ensure!(v.len() == bad, format!("C05:overlong:{}:list-count", dn), "{} list parser yielded {} element(s); element {} declares more bytes than the block holds, so exactly {} must be yielded", dn, v.len(), bad, bad);
                ensure!(rl == buf.len() - start && off == start, format!("C05:overlong:{}:list-remainder", dn), "{} list parser: remainder must start at the overlong extension (offset {}), got offset {} len {}", dn, start, off, rl);
            }
            // an Err is also "never yields a value"
            Err(_) => {}
        }
    }
    Ok(())
}

/// A top-level length field inside the content (server-name list, group / signature-algorithm list, point-format / PSK-mode /
/// renegotiation vector, ALPN list, OID-filter list, the three ESNI vectors) raised beyond what the extension body holds:
/// the extension's own length is intact, but the inner field exceeds its enclosing block, so no value may be returned.
/// (Entries nested inside those lists are decoded leniently by design - the list stops early - and are not asserted;
/// neither are the optional SCT list and supported_versions, whose inner length the decoder ignores.)
fn inner_overlong(t: &mut Tape, obs: &mut Obs) -> R {
    const TOP: [&str; 8] = ["sni.list", "u16list", "u8vec", "alpn.list", "oid.list", "esni.ks", "esni.rd", "esni.sni"];
    let idx = t.pick(&[0usize, 3, 4, 5, 7, 19, 20, 24, 25, 0, 7]);
    let mut m = gen_ext_known(t, idx, 200);
    if let MExt::Sni(l) = &mut m {
        if l.is_empty() {
            l.push((0, b"example.com".to_vec()));
        }
    }
    let mut e = Enc::new();
    m.encode(&mut e);
    let cands: Vec<_> = e.lens.iter().filter(|f| TOP.contains(&f.label)).cloned().collect();
    if cands.is_empty() {
        return Ok(());
    }
    let f = &cands[t.below(cands.len())];
    let mut buf = e.buf.clone();
    let ext_end = buf.len();
    let remaining = ext_end - (f.off + f.width);
    let max = (1usize << (8 * f.width)) - 1;
    if remaining >= max {
        return Ok(());
    }
    let v = match t.below(3) {
        0 => remaining + 1,
        1 => max,
        _ => t.range(remaining + 1, max),
    };
    set_be(&mut buf[f.off..f.off + f.width], v as u64);
    // bytes after the extension that would satisfy the lying length if the decoder were not confined
    buf.extend(std::iter::repeat(0u8).take(t.below(3) * 40));
    let ty = m.wire_type();
    obs.nontrivial(fnv64(&buf));
    obs.sample_class(&format!("{}:{}", m.name(), f.label), || json!({"extension": m.name(), "field": f.label, "declared": v, "available": remaining, "hex": hex_short(&buf)}));
    for (dn, p) in DISPATCHERS {
        if !recognised(dn, ty) {
            continue;
        }
        let got = call(p, &buf)?;
        ensure!(got.is_err(), format!("C05:inner-overlong:{}:{}", dn, f.label), "{} dispatcher: {} with its {} length raised to {} (only {} bytes remain in the extension) was decoded to {}", dn, m.name(), f.label, v, remaining, trunc(&format!("{:?}", got)));
    }
    for (pn, pty, p) in TAG_PARSERS {
        if pty == ty {
            let got = call(p, &buf)?;
            ensure!(got.is_err(), format!("C05:inner-overlong:{}:{}", pn, f.label), "{}: inner length {} raised to {} with {} bytes available was accepted: {}", pn, f.label, v, remaining, trunc(&format!("{:?}", got)));
        }
    }
    // inside a list: the element must not be yielded
    let r = guard("parse_tls_extensions", || parse_tls_extensions(&buf[..ext_end]).map(|(_, v)| v.len()).map_err(|_| ()))?;
    // the optional SCT list: an inner length exceeding the extension must never yield the list (absent or an error are both acceptable)
    if t.chance(40) {
        let data = t.small_blob(30);
        let mut e = Enc::new();
        e.u16(18);
        e.with_len(2, "ext.len", |e| {
            e.u16(data.len() as u16 + 1 + t.below(500) as u16);
            e.bytes(&data);
        });
        let mut b = e.buf;
        b.extend(std::iter::repeat(0u8).take(600));
        for (dn, p) in DISPATCHERS {
            let got = call(p, &b)?;
            ensure!(!matches!(&got, Ok((_, _, MExt::Sct(Some(_)), _))), format!("C05:inner-overlong:{}:sct.list", dn), "{} dispatcher: an SCT list length exceeding the extension yielded a list: {}", dn, trunc(&format!("{:?}", got)));
        }
        obs.class("Sct:sct.list");
    }
    ensure!(r != Ok(1), "C05:inner-overlong:list", "parse_tls_extensions yielded the malformed {} extension", m.name());
    Ok(())
}

/// arbitrary or corrupted bytes: a single-purpose parser that accepts => the generic parser agrees
fn tag_arbitrary(t: &mut Tape, obs: &mut Obs) -> R {
    let (pn, pty, p) = TAG_PARSERS[t.below(TAG_PARSERS.len())];
    let buf: Vec<u8> = match t.weighted(&[4, 3, 3]) {
        0 => {
            // own type, arbitrary content
            let body = t.small_blob(60);
            let mut b = ext_bytes(pty, &body);
            b.extend(t.small_blob(6));
            b
        }
        1 => {
            // valid extension of that type with a corrupted inner length field
            let idx = KNOWN_EXT_TYPES.iter().position(|x| *x == pty).unwrap();
            let m = gen_ext_known(t, idx, 200);
            let mut e = Enc::new();
            m.encode(&mut e);
            let mut b = e.buf;
            if !e.lens.is_empty() {
                let lf = &e.lens[t.below(e.lens.len())];
                let max = (1u64 << (8 * lf.width)) - 1;
                let v = match t.below(5) {
                    0 => 0,
                    1 => 1,
                    2 => (lf.value as u64).saturating_sub(1),
                    3 => (lf.value as u64 + 1).min(max),
                    _ => max,
                };
                set_be(&mut b[lf.off..lf.off + lf.width], v);
            }
            b.extend(t.small_blob(6));
            b
        }
        _ => t.small_blob(40),
    };
    let got = call(p, &buf)?;
    obs.class(if got.is_ok() { "tag-accepts" } else { "tag-rejects" });
    if got.is_ok() {
        obs.nontrivial(fnv64(&buf));
        obs.sample(json!({"parser": pn, "hex": hex_short(&buf)}));
        let gen = call(parse_tls_extension, &buf)?;
        ensure!(got == gen, format!("C05:tag-arbitrary:{}", pn), "{} accepts {} as {:?} but the generic parser gives {:?}", pn, hex_short(&buf), got, gen);
        let ty = (buf[0] as u16) << 8 | buf[1] as u16;
        ensure!(ty == pty, format!("C05:tag-arbitrary:{}:foreign", pn), "{} accepted type {}", pn, ty);
    }
    Ok(())
}
