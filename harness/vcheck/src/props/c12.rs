//! C12 Cipher-suite registry is exact, self-consistent and invertible.

use super::PropDef;
use crate::core::*;
use serde_json::json;
use std::convert::TryFrom;
use std::sync::OnceLock;
use tls_parser::*;
use vmodel::ciphers::{self, Row};
use vmodel::tape::Tape;

pub const DEF: PropDef = PropDef {
    id: "C12",
    title: "Cipher-suite registry is exact, self-consistent and invertible",
    rule: "complete enumeration: rows = every row of /repo/scripts/tls-ciphersuites.txt (re-parsed by the harness with explicit token tables) x 10 columns \
           against the built-in registry, plus registry size and key/id agreement; golden = every row of the pinned copy /verif/golden/tls-ciphersuites.txt \
           must still be present and unchanged; ids = all 65536 ids x 4 lookup routes; derived = key bytes, MAC length, block size and name-token \
           agreement for every row. names = generated perturbations of registry names (prefixes, suffixes, case changes, one-character edits, \
           neighbours joined, whitespace) through both name routes. Non-trivial = a listed id / a registry row / a perturbed name that differs from a \
           registry name by at most two edit operations; distinct by id, row, or perturbed string.",
    assumptions: &[
        "scripts/tls-ciphersuites.txt in /repo is the specification of the registry contents (as the statement says); the pinned golden copy guards existing assignments",
        "enum variants are compared through their derived Debug names",
        "name-token rules are calibrated on the 352 rows: a token only constrains a parameter when the name carries it (documented exemptions: the two SCSVs, TLS_SHA256_SHA256 / TLS_SHA384_SHA384, AEGIS mode, key size of tokens without a number)",
    ],
    run,
};

pub const SUBS: &[SubDef] = &[
    SubDef { prop: "C12", name: "name_aliases", oracle: name_aliases },
    SubDef { prop: "C12", name: "name_slices", oracle: name_slices },
    SubDef { prop: "C12", name: "rows", oracle: rows },
    SubDef { prop: "C12", name: "golden", oracle: golden },
    SubDef { prop: "C12", name: "ids", oracle: ids },
    SubDef { prop: "C12", name: "derived", oracle: derived },
    SubDef { prop: "C12", name: "names", oracle: names },
];

pub struct Tables {
    pub file: Vec<Row>,
    golden: Vec<Row>,
}

fn repo_dir() -> String {
    std::env::var("VERIF_REPO").unwrap_or_else(|_| "/repo".into())
}

fn tables() -> &'static Result<Tables, String> {
    static T: OnceLock<Result<Tables, String>> = OnceLock::new();
    T.get_or_init(|| {
        let p = format!("{}/scripts/tls-ciphersuites.txt", repo_dir());
        let text = std::fs::read_to_string(&p).map_err(|e| format!("{}: {}", p, e))?;
        let file = ciphers::parse(&text)?;
        let g = format!("{}/golden/tls-ciphersuites.txt", std::env::var("VERIF_DIR").unwrap_or_else(|_| "/verif".into()));
        let gt = std::fs::read_to_string(&g).map_err(|e| format!("{}: {}", g, e))?;
        let golden = ciphers::parse(&gt)?;
        Ok(Tables { file, golden })
    })
}

pub fn tabs() -> Result<&'static Tables, Fail> {
    match tables() {
        Ok(t) => Ok(t),
        Err(e) => fail("C12:registry-file-unreadable", format!("cannot interpret the registry text file: {}", e)),
    }
}

fn run(ctx: &Ctx) {
    let (nfile, ngold) = match tables() {
        Ok(t) => (t.file.len(), t.golden.len()),
        Err(_) => (1, 1),
    };
    ctx.run_fn("registry_size", true, "number of registry entries, key == id for every entry, no duplicate ids or names in the text file", |obs| {
        let t = tabs()?;
        obs.eval();
        ensure!(CIPHERS.len() == t.file.len(), "C12:size", "the registry holds {} suites, the text file lists {}", CIPHERS.len(), t.file.len());
        let mut seen_ids = std::collections::BTreeSet::new();
        let mut seen_names = std::collections::BTreeSet::new();
        for r in &t.file {
            obs.eval();
            ensure!(seen_ids.insert(r.id), format!("C12:dup-id:{:04x}", r.id), "id {:04x} listed twice", r.id);
            ensure!(seen_names.insert(r.name.clone()), format!("C12:dup-name:{}", r.name), "name {} listed twice", r.name);
        }
        for (k, v) in CIPHERS.entries() {
            obs.eval();
            obs.nontrivial(*k as u64);
            ensure!(*k == v.id.0, format!("C12:key-id:{:04x}", k), "registry key {:04x} holds a suite whose id is {:04x}", k, v.id.0);
            ensure!(seen_ids.contains(k), format!("C12:unlisted:{:04x}", k), "registry contains id {:04x} ({}) which the text file does not list", k, v.name);
        }
        obs.sample(json!({"registry_entries": CIPHERS.len(), "file_rows": t.file.len()}));
        Ok(())
    });
    ctx.run_enum("rows", rows, true, "every row of the text file x 10 columns", (0..nfile as u32).map(|i| vec![(i >> 8) as u8, i as u8]));
    ctx.run_enum("golden", golden, true, "every row of the pinned golden copy x 10 columns", (0..ngold as u32).map(|i| vec![(i >> 8) as u8, i as u8]));
    ctx.run_enum("ids", ids, true, "all 65536 ids x 4 lookup routes", (0..=65535u32).map(|i| vec![(i >> 8) as u8, i as u8]));
    ctx.run_enum("derived", derived, true, "derived sizes and name-token agreement for every row", (0..nfile as u32).map(|i| vec![(i >> 8) as u8, i as u8]));
    // "nothing for any other string", by volume: a lookup that compares less than the whole name (a truncated hash, a prefix, a
    // checksum) answers for some unregistered string; with a 32-bit digest one string in 12 million hits one of the 352 names
    let per = ctx.pick(16_000_000, 100_000_000) as u64;
    let seed = ctx.seed;
    ctx.run_fn("names_volume", false, &format!("8 threads x {} generated unregistered names (4 shapes) through both by-name routes", per), move |obs| names_volume(obs, per, seed));
    ctx.run_tape("names", names, ctx.pick(200_000, 400_000), 64);
    // spellings of a suite other than its registered name - the id written as text, other separators, other libraries' names for the same
    // suite - are "any other string": every row, some forty spellings each
    ctx.run_enum("name_aliases", name_aliases, true, "every row x ~40 other spellings (id in hex / decimal text, separators replaced, case, TLS_ prefix dropped or changed, OpenSSL-style names)", (0..nfile as u32).map(|i| vec![(i >> 8) as u8, i as u8]));
    // the by-name routes at their very first use in a process, from several threads at once: a lazily built index that is published
    // before it is complete answers None for a registered name then, and never again
    let procs = ctx.pick(24, 200);
    ctx.run_fn("fresh_concurrent", false, &format!("{} fresh processes, each with 8 threads released together that resolve every registered name through both by-name routes as their first registry use", procs), move |obs| {
        let exe = std::env::current_exe().map_err(|e| Fail { sig: "harness:current-exe".into(), msg: format!("{}", e) })?;
        for k in 0..procs {
            obs.evals_add(1);
            let o = output_with_progress(std::process::Command::new(&exe).args(["probe-names-concurrent", if k % 3 == 0 { "16" } else { "8" }]), 600, true).map_err(|e| Fail { sig: "harness:probe-names".into(), msg: format!("{}", e) })?;
            let text = String::from_utf8_lossy(&o.stdout).trim().to_string();
            ensure!(o.status.success(), "C12:fresh-concurrent:crash", "the probe process ended with {}: {}", o.status, trunc(&String::from_utf8_lossy(&o.stderr)));
            ensure!(text.starts_with("failures=0 "), "C12:fresh-concurrent:lookup-failed", "fresh process {}: concurrent first by-name lookups of registered names did not all resolve: {}", k, trunc(&text));
        }
        obs.nontrivial(procs);
        obs.sample(json!({"fresh_processes": procs, "threads_each": "8 or 16"}));
        Ok(())
    });
    // the statement over a history of edits: the registry of a build made after the list was edited is the edited list
    let edits = ctx.pick(1, 3);
    ctx.run_fn("rebuild_after_edit", false, "scratch copy of the tree under test built with a probe program, then the list is edited (a generated private-use row appended, a row renamed, a row deleted) and the copy is built again in the same target directory: the probe must see the edited list", move |obs| {
        for k in 0..edits {
            rebuild_after_edit(obs, seed ^ (k << 20))?;
        }
        Ok(())
    });
    // queries that borrow the registry's own memory: every prefix, every suffix and sampled inner slices of every registered name as
    // returned by the crate (callers tokenise and truncate the names they got from a suite and look the pieces up)
    ctx.run_enum("name_slices", name_slices, true, "every prefix and suffix (and 8 inner slices) of the &str the registry itself returns for every suite, through both by-name routes", (0..nfile as u32).map(|i| vec![(i >> 8) as u8, i as u8]));
}

/// first column in which a registry entry differs from a row of the text file (also used by C15 for "its registry entry")
pub fn suite_differs(s: &TlsCipherSuite, r: &Row) -> Option<(&'static str, String)> {
    let cols: [(&'static str, String, String); 10] = [
        ("id", format!("{:04x}", s.id.0), format!("{:04x}", r.id)),
        ("name", s.name.to_string(), r.name.clone()),
        ("kx", format!("{:?}", s.kx), r.kx.to_string()),
        ("au", format!("{:?}", s.au), r.au.to_string()),
        ("enc", format!("{:?}", s.enc), r.enc.to_string()),
        ("mode", format!("{:?}", s.enc_mode), r.mode.to_string()),
        ("enc_size", s.enc_size.to_string(), r.enc_size.to_string()),
        ("mac", format!("{:?}", s.mac), r.mac.to_string()),
        ("mac_size", s.mac_size.to_string(), r.mac_size.to_string()),
        ("prf", format!("{:?}", s.prf), r.prf.to_string()),
    ];
    cols.into_iter().find(|(_, a, b)| a != b).map(|(c, a, b)| (c, format!("{} is {}, the text file says {}", c, a, b)))
}

fn compare_row(r: &Row, what: &str) -> R {
    let s = match TlsCipherSuite::from_id(r.id) {
        Some(s) => s,
        None => return fail(format!("C12:{}:missing:{:04x}", what, r.id), format!("suite {:04x} {} is listed but from_id returns None", r.id, r.name)),
    };
    if let Some((col, d)) = suite_differs(s, r) {
        return fail(format!("C12:{}:{:04x}:{}", what, r.id, col), format!("{:04x} {}: {}", r.id, r.name, d));
    }
    Ok(())
}

fn rows(t: &mut Tape, obs: &mut Obs) -> R {
    let i = t.u16() as usize;
    let tb = tabs()?;
    let r = match tb.file.get(i) {
        Some(r) => r,
        None => return Ok(()),
    };
    obs.nontrivial(r.id as u64);
    obs.evals_add(9);
    obs.sample(json!({"row": r.raw.join(":")}));
    compare_row(r, "row")
}

fn golden(t: &mut Tape, obs: &mut Obs) -> R {
    let i = t.u16() as usize;
    let tb = tabs()?;
    let r = match tb.golden.get(i) {
        Some(r) => r,
        None => return Ok(()),
    };
    obs.nontrivial(r.id as u64);
    obs.evals_add(9);
    obs.sample(json!({"golden_row": r.raw.join(":")}));
    compare_row(r, "golden")
}

fn ids(t: &mut Tape, obs: &mut Obs) -> R {
    let id = t.u16();
    let tb = tabs()?;
    let listed = tb.file.iter().find(|r| r.id == id);
    let routes: [(&str, Option<&'static TlsCipherSuite>); 4] = [
        ("from_id", TlsCipherSuite::from_id(id)),
        ("TryFrom<u16>", <&'static TlsCipherSuite>::try_from(id).ok()),
        ("TryFrom<TlsCipherSuiteID>", <&'static TlsCipherSuite>::try_from(TlsCipherSuiteID(id)).ok()),
        ("get_ciphersuite", TlsCipherSuiteID(id).get_ciphersuite()),
    ];
    obs.evals_add(3);
    for (name, r) in routes {
        match (listed, r) {
            (None, None) => {}
            (Some(row), Some(s)) => {
                ensure!(s.id.0 == id, format!("C12:ids:{}:{:04x}:wrong-suite", name, id), "{}({:04x}) returned suite {:04x} {}", name, id, s.id.0, s.name);
                ensure!(s.name == row.name, format!("C12:ids:{}:{:04x}:wrong-name", name, id), "{}({:04x}) returned {} instead of {}", name, id, s.name, row.name);
            }
            (None, Some(s)) => return fail(format!("C12:ids:{}:{:04x}:phantom", name, id), format!("{}({:04x}) returned {} although the id is not listed", name, id, s.name)),
            (Some(row), None) => return fail(format!("C12:ids:{}:{:04x}:missing", name, id), format!("{}({:04x}) returned nothing although {} is listed", name, id, row.name)),
        }
    }
    if let Some(row) = listed {
        obs.nontrivial(id as u64);
        obs.class("listed");
        obs.sample(json!({"id": format!("{:04x}", id), "name": row.name}));
    } else {
        obs.class("unlisted");
    }
    Ok(())
}

fn derived(t: &mut Tape, obs: &mut Obs) -> R {
    let i = t.u16() as usize;
    let tb = tabs()?;
    let r = match tb.file.get(i) {
        Some(r) => r,
        None => return Ok(()),
    };
    let s = match TlsCipherSuite::from_id(r.id) {
        Some(s) => s,
        None => return fail(format!("C12:derived:missing:{:04x}", r.id), format!("{} not in registry", r.name)),
    };
    obs.nontrivial(r.id as u64);
    let sig = |w: &str| format!("C12:derived:{:04x}:{}", r.id, w);
    // sizes, from the crate's own fields (agreement of those fields with the file is `rows`)
    let enc = format!("{:?}", s.enc);
    let mac = format!("{:?}", s.mac);
    ensure_eq!(s.enc_key_size(), (s.enc_size / 8) as usize, sig("enc_key_size"), "{}: key bytes vs key bits {}", s.name, s.enc_size);
    ensure_eq!(s.enc_block_size(), ciphers::block_size(&enc), sig("enc_block_size"), "{}: block size for {}", s.name, enc);
    ensure_eq!(s.mac_length(), ciphers::mac_len(&mac), sig("mac_length"), "{}: MAC length for {}", s.name, mac);
    if mac.starts_with("Hmac") {
        ensure_eq!(s.mac_length(), (s.mac_size / 8) as usize, sig("mac_bits"), "{}: MAC length vs MAC bits {}", s.name, s.mac_size);
        obs.class("hmac");
    } else {
        obs.class("aead-or-null");
    }
    // parameters vs the tokens of the IANA name
    let f = ciphers::name_facts(s.name);
    if let Some((k, a)) = f.kx_au {
        ensure!(format!("{:?}", s.kx) == k && format!("{:?}", s.au) == a, sig("name-kx-au"), "{}: kx/au are {:?}/{:?}, the name states {}/{}", s.name, s.kx, s.au, k, a);
    }
    if let Some(e) = f.enc {
        ensure!(enc == e, sig("name-enc"), "{}: cipher is {}, the name states {}", s.name, enc, e);
    }
    if let Some(b) = f.enc_size {
        ensure!(s.enc_size == b, sig("name-enc-size"), "{}: key bits are {}, the name states {}", s.name, s.enc_size, b);
    }
    let mode = format!("{:?}", s.enc_mode);
    match f.mode {
        Some(m) => ensure!(mode == m, sig("name-mode"), "{}: mode is {}, the name states {}", s.name, mode, m),
        None => ensure!(mode == "Null", sig("name-mode"), "{}: mode is {}, the name states none", s.name, mode),
    }
    if mac != "Aead" {
        if let Some(m) = f.trailing_hash_mac {
            ensure!(mac == m, sig("name-mac"), "{}: MAC is {}, the trailing hash of the name states {}", s.name, mac, m);
        }
    } else if let Some(p) = f.trailing_hash_prf {
        ensure!(format!("{:?}", s.prf) == p, sig("name-prf"), "{}: PRF is {:?}, the trailing hash of the AEAD name states {}", s.name, s.prf, p);
    }
    obs.sample(json!({"name": s.name, "key_bytes": s.enc_key_size(), "block": s.enc_block_size(), "mac_len": s.mac_length(), "name_facts": format!("{:?}", f)}));
    Ok(())
}

fn names_volume(obs: &mut Obs, per_thread: u64, seed: u64) -> R {
    let tb = tabs()?;
    let known: std::collections::HashSet<&str> = tb.file.iter().map(|r| r.name.as_str()).collect();
    let prefixes: Vec<String> = {
        let mut v: Vec<String> = vec!["TLS_".into(), "TLS_RSA_WITH_".into(), "TLS_ECDHE_RSA_WITH_AES_128_GCM_SHA256_".into(), "".into()];
        v.push(tb.file[(seed as usize) % tb.file.len()].name.clone() + "_");
        v
    };
    let results: Vec<Result<u64, (String, String)>> = std::thread::scope(|s| {
        let hs: Vec<_> = (0..8u64)
            .map(|ti| {
                let prefixes = &prefixes;
                let known = &known;
                s.spawn(move || {
                    const AL: &[u8; 36] = b"ABCDEFGHIJKLMNOPQRSTUVWXYZ0123456789";
                    let mut x = (seed ^ 0xC12).wrapping_mul(0x9E37_79B9_7F4A_7C15).wrapping_add(ti.wrapping_mul(0xD1B5_4A32_D192_ED03)) | 1;
                    let mut buf = String::with_capacity(64);
                    for k in 0..per_thread {
                        x ^= x << 13;
                        x ^= x >> 7;
                        x ^= x << 17;
                        let pre = &prefixes[(k % prefixes.len() as u64) as usize];
                        buf.clear();
                        buf.push_str(pre);
                        let mut v = x;
                        for _ in 0..6 + (k % 3) {
                            buf.push(AL[(v % 36) as usize] as char);
                            v /= 36;
                        }
                        let a = TlsCipherSuite::from_name(&buf);
                        let b = if k % 4 == 0 { <&'static TlsCipherSuite>::try_from(buf.as_str()).ok() } else { None };
                        if (a.is_some() || b.is_some()) && !known.contains(buf.as_str()) {
                            let (route, c) = if let Some(c) = a { ("from_name", c) } else { ("TryFrom<&str>", b.unwrap()) };
                            return Err((format!("C12:names:{}:phantom", route), format!("{}({:?}) returned {:04x} {} although no suite has that name", route, buf, c.id.0, c.name)));
                        }
                        if k % 65536 == 0 {
                            crate::alloc::progress();
                        }
                    }
                    Ok(per_thread + per_thread / 4)
                })
            })
            .collect();
        hs.into_iter().map(|h| h.join().unwrap_or_else(|_| Err(("panic:names_volume".to_string(), "a lookup thread panicked".to_string())))).collect()
    });
    for r in results {
        match r {
            Ok(d) => obs.evals_add(d),
            Err((sig, msg)) => return fail(sig, msg),
        }
    }
    obs.nontrivial(per_thread);
    obs.sample(json!({"threads": 8, "unregistered_names_per_thread": per_thread, "shapes": prefixes.iter().map(|p| format!("{}<6-8 of A-Z0-9>", p)).collect::<Vec<_>>()}));
    Ok(())
}

fn scratch_cargo(dir: &std::path::Path, target: &std::path::Path) -> Result<(), Fail> {
    let out = output_with_progress(std::process::Command::new("cargo").args(["build", "-q", "--offline"]).current_dir(dir).env("CARGO_TARGET_DIR", target).env("CARGO_NET_OFFLINE", "true").env_remove("RUSTFLAGS"), 3600, true)
        .map_err(|e| Fail { sig: "harness:cargo".into(), msg: format!("{}", e) })?;
    if !out.status.success() {
        return fail("harness:list-edit-probe-build", format!("the scratch copy does not build: {}", trunc(&String::from_utf8_lossy(&out.stderr))));
    }
    Ok(())
}

fn copy_if_different(from: &std::path::Path, to: &std::path::Path) -> std::io::Result<()> {
    let new = std::fs::read(from)?;
    if std::fs::read(to).map_or(true, |old| old != new) {
        if let Some(p) = to.parent() {
            std::fs::create_dir_all(p)?;
        }
        std::fs::write(to, new)?;
    }
    Ok(())
}

/// build -> edit scripts/tls-ciphersuites.txt -> build again (same target directory) -> ask a probe program linked against the copy
fn rebuild_after_edit(obs: &mut Obs, seed: u64) -> R {
    use std::path::PathBuf;
    let io = |e: std::io::Error| Fail { sig: "harness:list-edit-io".into(), msg: format!("{}", e) };
    let tb = tabs()?;
    let verif = PathBuf::from(std::env::var("VERIF_DIR").unwrap_or_else(|_| "/verif".into()));
    let scratch = verif.join("harness").join("target-c12edit");
    let (src, dst, probe, target) = (PathBuf::from(repo_dir()), scratch.join("repo"), scratch.join("probe"), scratch.join("target"));
    // 1. the scratch copy is made equal to the tree under test (what the build needs: manifest, build script, sources, the list)
    let mut wanted: Vec<PathBuf> = vec!["Cargo.toml".into(), "build.rs".into(), "scripts/tls-ciphersuites.txt".into()];
    for e in std::fs::read_dir(src.join("src")).map_err(io)? {
        let e = e.map_err(io)?;
        if e.path().extension().map_or(false, |x| x == "rs") {
            wanted.push(PathBuf::from("src").join(e.file_name()));
        }
    }
    for w in &wanted {
        copy_if_different(&src.join(w), &dst.join(w)).map_err(io)?;
    }
    if let Ok(rd) = std::fs::read_dir(dst.join("src")) {
        for e in rd.flatten() {
            if !wanted.contains(&PathBuf::from("src").join(e.file_name())) {
                let _ = std::fs::remove_file(e.path());
            }
        }
    }
    std::fs::create_dir_all(probe.join("src")).map_err(io)?;
    let manifest = "[package]\nname = \"listprobe\"\nversion = \"0.1.0\"\nedition = \"2021\"\n\n[workspace]\n\n[dependencies]\ntls-parser = { path = \"../repo\" }\n";
    let main_rs = r#"use tls_parser::*;
fn main() {
    for a in std::env::args().skip(1) {
        if let Some(id) = a.strip_prefix("id:") {
            let id = u16::from_str_radix(id, 16).unwrap();
            match TlsCipherSuite::from_id(id) {
                Some(s) => println!("id:{:04x}={}|{:?}|{:?}|{:?}|{:?}|{}|{:?}|{}|{:?}", id, s.name, s.kx, s.au, s.enc, s.enc_mode, s.enc_size, s.mac, s.mac_size, s.prf),
                None => println!("id:{:04x}=none", id),
            }
        } else if let Some(n) = a.strip_prefix("name:") {
            match TlsCipherSuite::from_name(n) {
                Some(s) => println!("name:{}={:04x}", n, s.id.0),
                None => println!("name:{}=none", n),
            }
        }
    }
    println!("count={}", CIPHERS.len());
}
"#;
    let lock = std::fs::read_to_string(verif.join("harness/cfgdiff/Cargo.lock")).map_err(io)?.replace("name = \"cfgdiff\"", "name = \"listprobe\"");
    for (f, c) in [("Cargo.toml", manifest.to_string()), ("src/main.rs", main_rs.to_string()), ("Cargo.lock", lock)] {
        if std::fs::read_to_string(probe.join(f)).map_or(true, |old| old != c) {
            std::fs::write(probe.join(f), c).map_err(io)?;
        }
    }
    // 2. the edit, drawn from the seed: a new private-use row copied from a donor, a renamed row, a deleted row
    let fillb = vmodel::tape::fill(seed ^ 0xC12E, 64);
    let mut t = Tape::new(&fillb);
    let n = tb.file.len();
    let mut new_id = 0xff00u16 + t.u8() as u16;
    while tb.file.iter().any(|r| r.id == new_id) || new_id == 0xffff {
        new_id = 0xff00 + (new_id.wrapping_add(1) & 0xff);
    }
    let donor = &tb.file[t.below(n)];
    let mut renamed = &tb.file[t.below(n)];
    let mut deleted = &tb.file[t.below(n)];
    while renamed.id == donor.id {
        renamed = &tb.file[t.below(n)];
    }
    while deleted.id == donor.id || deleted.id == renamed.id {
        deleted = &tb.file[t.below(n)];
    }
    // (longer than every name in the list, so that nothing sized for today's longest name is long enough)
    let longest = tb.file.iter().map(|r| r.name.len()).max().unwrap_or(0);
    let mut new_name = format!("TLS_VERIF{:04X}_{}", t.u16(), donor.name.trim_start_matches("TLS_"));
    while new_name.len() <= longest {
        new_name.push_str("_X");
    }
    let ren_name = format!("{}_V{}", renamed.name, t.below(100));
    let list_path = dst.join("scripts/tls-ciphersuites.txt");
    let original = std::fs::read_to_string(src.join("scripts/tls-ciphersuites.txt")).map_err(io)?;
    let mut edited = String::new();
    let mut donor_line = String::new();
    for line in original.lines() {
        let id = line.split(':').next().unwrap_or("");
        if id.eq_ignore_ascii_case(&format!("{:04x}", deleted.id)) {
            continue;
        }
        if id.eq_ignore_ascii_case(&format!("{:04x}", donor.id)) {
            donor_line = line.to_string();
        }
        if id.eq_ignore_ascii_case(&format!("{:04x}", renamed.id)) {
            let mut cols: Vec<&str> = line.split(':').collect();
            cols[1] = &ren_name;
            edited.push_str(&cols.join(":"));
        } else {
            edited.push_str(line);
        }
        edited.push('\n');
    }
    let mut cols: Vec<String> = donor_line.split(':').map(|x| x.to_string()).collect();
    if cols.len() < 2 {
        return fail("harness:list-edit-donor", "donor row not found in the list");
    }
    cols[0] = format!("{:04x}", new_id);
    cols[1] = new_name.clone();
    edited.push_str(&cols.join(":"));
    edited.push('\n');
    // two more rows in the other shapes the generator accepts (it reads the first ten columns): the ten registry columns alone, and a
    // row whose reference column is a URL (the colons in it make more than fifteen fields)
    let mut extra: Vec<(u16, String)> = Vec::new();
    for (k, shape) in ["ten-columns", "url-reference"].iter().enumerate() {
        let mut id = new_id;
        loop {
            id = 0xff00 + (id.wrapping_add(1 + k as u16) & 0xff);
            if id != 0xffff && id != new_id && !tb.file.iter().any(|r| r.id == id) && !extra.iter().any(|e| e.0 == id) {
                break;
            }
        }
        let name = format!("TLS_VERIF_{}_{}", shape.replace('-', "_").to_uppercase(), donor.name.trim_start_matches("TLS_"));
        let mut c: Vec<String> = cols.iter().take(10).cloned().collect();
        c[0] = format!("{:04x}", id);
        c[1] = name.clone();
        if *shape == "url-reference" {
            c.extend(["https://datatracker.ietf.org/doc/draft-example/".to_string(), "0".to_string(), "0303".to_string(), "ffff".to_string()]);
        }
        edited.push_str(&c.join(":"));
        edited.push('\n');
        extra.push((id, name));
    }
    let mut args: Vec<String> = vec![
        format!("id:{:04x}", new_id), format!("id:{:04x}", donor.id), format!("id:{:04x}", renamed.id), format!("id:{:04x}", deleted.id),
        format!("name:{}", new_name), format!("name:{}", ren_name), format!("name:{}", renamed.name), format!("name:{}", deleted.name),
    ];
    for (id, name) in &extra {
        args.push(format!("id:{:04x}", id));
        args.push(format!("name:{}", name));
    }
    let run_probe = || -> Result<Vec<String>, Fail> {
        let o = std::process::Command::new(target.join("debug/listprobe")).args(&args).output().map_err(|e| Fail { sig: "harness:list-edit-probe-run".into(), msg: format!("{}", e) })?;
        if !o.status.success() {
            return fail("harness:list-edit-probe-run", format!("probe failed: {}", trunc(&String::from_utf8_lossy(&o.stderr))));
        }
        Ok(String::from_utf8_lossy(&o.stdout).lines().map(|l| l.to_string()).collect())
    };
    let val = |lines: &[String], key: &str| -> String { lines.iter().find_map(|l| l.strip_prefix(&format!("{}=", key)).map(|v| v.to_string())).unwrap_or_else(|| "<no answer>".into()) };
    // 3. first build: the unedited list
    scratch_cargo(&probe, &target)?;
    let before = run_probe()?;
    obs.evals_add(9);
    ensure!(val(&before, "count") == n.to_string(), "C12:rebuild:before:count", "scratch build of the unedited tree: the registry holds {} suites, the list has {}", val(&before, "count"), n);
    ensure!(val(&before, &format!("id:{:04x}", new_id)) == "none" && val(&before, &format!("name:{}", new_name)) == "none", "C12:rebuild:before:phantom", "the unedited registry already knows {:04x} / {}", new_id, new_name);
    let donor_params = val(&before, &format!("id:{:04x}", donor.id));
    // 4. edit, build again in the same target directory, ask again
    std::fs::write(&list_path, &edited).map_err(io)?;
    let built = scratch_cargo(&probe, &target);
    let after = built.and_then(|_| run_probe());
    // leave the scratch copy as the tree under test has it, whatever happened
    let _ = std::fs::write(&list_path, &original);
    let after = after?;
    obs.evals_add(9);
    let what = format!("after appending {:04x}:{} (copy of {:04x}), renaming {:04x} to {} and deleting {:04x} in scripts/tls-ciphersuites.txt and building again", new_id, new_name, donor.id, renamed.id, ren_name, deleted.id);
    ensure!(val(&after, "count") == (n + 2).to_string(), "C12:rebuild:count", "{} (plus two rows in other shapes): the registry holds {} suites, the edited list has {}", what, val(&after, "count"), n + 2);
    for (id, name) in &extra {
        let got = val(&after, &format!("id:{:04x}", id));
        let want = donor_params.replacen(&donor.name, name, 1);
        ensure!(got == want, "C12:rebuild:appended-row-shape", "{}: the row {:04x}:{} (ten columns only / URL in the reference column) gives {}, expected {}", what, id, name, got, want);
        ensure!(val(&after, &format!("name:{}", name)) == format!("{:04x}", id), "C12:rebuild:appended-name", "{}: lookup of {} gives {}", what, name, val(&after, &format!("name:{}", name)));
    }
    let got_new = val(&after, &format!("id:{:04x}", new_id));
    let want_new = donor_params.replacen(&donor.name, &new_name, 1);
    ensure!(got_new == want_new, "C12:rebuild:appended-row", "{}: lookup of the new id gives {}, expected {}", what, got_new, want_new);
    ensure!(val(&after, &format!("name:{}", new_name)) == format!("{:04x}", new_id), "C12:rebuild:appended-name", "{}: lookup of the new name gives {}", what, val(&after, &format!("name:{}", new_name)));
    ensure!(val(&after, &format!("name:{}", ren_name)) == format!("{:04x}", renamed.id) && val(&after, &format!("name:{}", renamed.name)) == "none", "C12:rebuild:renamed-row", "{}: the new name resolves to {}, the old name to {}", what, val(&after, &format!("name:{}", ren_name)), val(&after, &format!("name:{}", renamed.name)));
    ensure!(val(&after, &format!("id:{:04x}", deleted.id)) == "none" && val(&after, &format!("name:{}", deleted.name)) == "none", "C12:rebuild:deleted-row", "{}: the deleted suite is still found: {}", what, val(&after, &format!("id:{:04x}", deleted.id)));
    obs.nontrivial(seed);
    obs.sample(json!({"appended": format!("{:04x}:{}", new_id, new_name), "copied_from": donor.name, "renamed": format!("{} -> {}", renamed.name, ren_name), "deleted": deleted.name, "registry_after": val(&after, "count")}));
    Ok(())
}

fn name_aliases(t: &mut Tape, obs: &mut Obs) -> R {
    let i = t.u16() as usize;
    let tb = tabs()?;
    let r = match tb.file.get(i) {
        Some(r) => r,
        None => return Ok(()),
    };
    let n = &r.name;
    let bare = n.trim_start_matches("TLS_");
    let mut q: Vec<String> = vec![
        format!("0x{:04x}", r.id), format!("0x{:04X}", r.id), format!("0X{:04x}", r.id), format!("0x{:x}", r.id), format!("{:04x}", r.id), format!("{:04X}", r.id), format!("{}", r.id), format!("#{:04x}", r.id),
        format!("0x{:02x},0x{:02x}", r.id >> 8, r.id & 0xff), format!("0x{:02X},0x{:02X}", r.id >> 8, r.id & 0xff), format!("{{0x{:02X},0x{:02X}}}", r.id >> 8, r.id & 0xff), format!("{:02x}:{:02x}", r.id >> 8, r.id & 0xff), format!("{:02x} {:02x}", r.id >> 8, r.id & 0xff),
        n.replace('_', "-"), n.replace('_', " "), n.replace('_', "."), n.replace('_', ":"), n.replace('_', ""), n.replace('_', "__"), n.replacen('_', "-", 1),
        n.to_lowercase(), n.to_lowercase().replace('_', "-"), bare.to_string(), bare.replace('_', "-"), bare.to_lowercase(), format!("SSL_{}", bare), format!("TLS1_{}", bare), format!("TLS1_CK_{}", bare), format!("TLS1_TXT_{}", bare), format!("MBEDTLS_{}", n), format!("GNUTLS_{}", bare),
        bare.replace("_WITH_", "-").replace('_', "-"), bare.replace("_WITH_", "_"), format!("{}\0", n), format!("{}\n", n), format!(" {}", n), format!("{};", n), format!("\"{}\"", n), format!("{}={:04x}", n, r.id), format!("{:04x}:{}", r.id, n),
    ];
    q.dedup();
    for s in &q {
        let want = tb.file.iter().find(|x| &x.name == s);
        obs.evals_add(2);
        let routes: [(&str, Option<&TlsCipherSuite>); 2] = [("from_name", guard("TlsCipherSuite::from_name", || TlsCipherSuite::from_name(s))?), ("TryFrom<&str>", guard("TryFrom<&str> for &TlsCipherSuite", || <&TlsCipherSuite>::try_from(s.as_str()).ok())?)];
        for (rn, got) in routes {
            match (want, got) {
                (None, None) => {}
                (Some(w), Some(g)) => ensure!(g.id.0 == w.id, format!("C12:name-aliases:{}:wrong", rn), "{}({:?}) returned {:04x}, expected {:04x}", rn, s, g.id.0, w.id),
                (None, Some(g)) => return fail(format!("C12:name-aliases:{}:phantom", rn), format!("{}({:?}) returned {:04x} {} although no suite has that name (it is another spelling of {:04x} {})", rn, s, g.id.0, g.name, r.id, n)),
                (Some(w), None) => return fail(format!("C12:name-aliases:{}:missing", rn), format!("{}({:?}) returned nothing, expected {:04x}", rn, s, w.id)),
            }
        }
    }
    obs.nontrivial(r.id as u64);
    if obs.wants_sample() {
        obs.sample(json!({"name": n, "spellings": q.iter().take(12).collect::<Vec<_>>()}));
    }
    Ok(())
}

fn name_slices(t: &mut Tape, obs: &mut Obs) -> R {
    let i = t.u16() as usize;
    let tb = tabs()?;
    let r = match tb.file.get(i) {
        Some(r) => r,
        None => return Ok(()),
    };
    let suite = match guard("TlsCipherSuite::from_id", || TlsCipherSuite::from_id(r.id))? {
        Some(s) => s,
        None => return fail(format!("C12:name-slices:missing:{:04x}", r.id), format!("{} not in registry", r.name)),
    };
    let name: &str = suite.name;
    let n = name.len();
    let mut ranges: Vec<(usize, usize)> = (0..=n).map(|k| (0, k)).chain((0..=n).map(|k| (k, n))).collect();
    for k in 0..8usize {
        let a = (r.id as usize * 7 + k * 13) % (n + 1);
        let b = a + (r.id as usize + k * 5) % (n - a + 1);
        ranges.push((a, b));
    }
    for (a, b) in ranges {
        if !name.is_char_boundary(a) || !name.is_char_boundary(b) {
            continue;
        }
        let q: &str = &name[a..b];
        let want = tb.file.iter().find(|x| x.name == q);
        obs.evals_add(2);
        let routes: [(&str, Option<&TlsCipherSuite>); 2] = [("from_name", guard("TlsCipherSuite::from_name", || TlsCipherSuite::from_name(q))?), ("TryFrom<&str>", guard("TryFrom<&str> for &TlsCipherSuite", || <&TlsCipherSuite>::try_from(q).ok())?)];
        for (rn, got) in routes {
            match (want, got) {
                (None, None) => {}
                (Some(w), Some(g)) => ensure!(g.id.0 == w.id, format!("C12:name-slices:{}:wrong", rn), "{}(slice {}..{} of the registry's own {:?} = {:?}) returned {:04x}, expected {:04x}", rn, a, b, name, q, g.id.0, w.id),
                (None, Some(g)) => return fail(format!("C12:name-slices:{}:phantom", rn), format!("{}(slice {}..{} of the registry's own {:?} = {:?}) returned {} although no suite has that name", rn, a, b, name, q, g.name)),
                (Some(w), None) => return fail(format!("C12:name-slices:{}:missing", rn), format!("{}(slice {}..{} of the registry's own {:?}) returned nothing, expected {:04x}", rn, a, b, name, w.id)),
            }
        }
    }
    obs.nontrivial(r.id as u64);
    if obs.wants_sample() {
        obs.sample(json!({"name": name, "slices": 2 * n + 10}));
    }
    Ok(())
}

fn names(t: &mut Tape, obs: &mut Obs) -> R {
    let tb = tabs()?;
    let n = tb.file.len();
    let base = &tb.file[t.below(n)];
    // edits work on characters, so that multi-byte characters can be placed anywhere (names are &str: any UTF-8 text is a legal query)
    let mut cs: Vec<char> = base.name.chars().collect();
    let ops = t.below(4); // 0 = the name itself
    let mut label = String::from("exact");
    for _ in 0..ops {
        let k = t.below(14);
        label = ["prefix", "suffix", "append", "prepend", "lower", "upper", "edit", "join", "space", "multibyte-insert", "multibyte-replace", "utf8-text", "congruent-char", "whitespace"][k].to_string();
        match k {
            0 => {
                let c = t.below(cs.len() + 1);
                cs.truncate(c);
            }
            1 => {
                let c = t.below(cs.len() + 1);
                cs.drain(..c);
            }
            2 => cs.push(t.pick(&['_', 'A', '6', ' ', '\0', '4'])),
            3 => cs.insert(0, t.pick(&['T', '_', ' '])),
            4 => cs = cs.iter().collect::<String>().to_lowercase().chars().collect(),
            5 => cs = cs.iter().collect::<String>().to_uppercase().chars().collect(),
            6 => {
                if !cs.is_empty() {
                    let i = t.below(cs.len());
                    cs[i] = t.pick(&['_', 'A', '1', '2', '5', '8', 'X']);
                }
            }
            7 => {
                let o = &tb.file[t.below(n)];
                cs.extend(o.name.chars());
            }
            8 => cs.insert(0, ' '),
            9 | 10 => {
                // 2-, 3- and 4-byte characters, mostly within the first few positions (every byte offset 1..12 ends up inside a character in some case)
                let c = t.pick(&['\u{e9}', '\u{20ac}', '\u{65e5}', '\u{1f512}', '\u{7ff}', '\u{ffff}', '\u{10ffff}', '\u{80}']);
                let lim = if t.chance(200) { cs.len().min(12) } else { cs.len() };
                let i = t.below(lim + 1).min(cs.len());
                if k == 9 || i >= cs.len() {
                    cs.insert(i, c);
                } else {
                    cs[i] = c;
                }
            }
            11 => cs = String::from_utf8_lossy(&t.utf8_text(40)).chars().collect(),
            12 => {
                // a character whose code point is congruent to the original modulo 256 or 65536 (comparison through a narrowing cast)
                if !cs.is_empty() {
                    let i = t.below(cs.len());
                    let off = t.pick(&[0x100u32, 0x200, 0x1f300, 0x10000, 0x20000, 0xff00]);
                    if let Some(c) = char::from_u32(cs[i] as u32 + off) {
                        cs[i] = c;
                    }
                }
            }
            _ => {
                // white space and control characters around the name (a lookup must not trim or normalise)
                let w = t.pick(&[' ', '\t', '\n', '\r', '\u{a0}', '\u{2003}', '\u{feff}', '\u{200b}']);
                if t.bool() {
                    cs.push(w);
                } else {
                    cs.insert(0, w);
                }
            }
        }
    }
    let s: String = cs.into_iter().collect();
    let want = tb.file.iter().find(|r| r.name == s);
    obs.nontrivial(vmodel::wire::fnv64(s.as_bytes()));
    obs.sample_class(&label, || json!({"query": s, "expected": want.map(|r| format!("{:04x}", r.id))}));
    // (no `'static` in these annotations: whether the returned entries are `'static` is a compile-time fact checked by C18's probe package;
    // a harness that insists on it here would merely stop compiling)
    let routes: [(&str, Option<&TlsCipherSuite>); 2] =
        [("from_name", guard("TlsCipherSuite::from_name", || TlsCipherSuite::from_name(&s))?), ("TryFrom<&str>", guard("TryFrom<&str> for &TlsCipherSuite", || <&TlsCipherSuite>::try_from(s.as_str()).ok())?)];
    for (rn, got) in routes {
        match (want, got) {
            (None, None) => {}
            (Some(r), Some(g)) => ensure!(g.id.0 == r.id && g.name == s, format!("C12:names:{}:wrong", rn), "{}({:?}) returned {:04x} {}, expected {:04x}", rn, s, g.id.0, g.name, r.id),
            (None, Some(g)) => return fail(format!("C12:names:{}:phantom", rn), format!("{}({:?}) returned {} although no suite has that name", rn, s, g.name)),
            (Some(r), None) => return fail(format!("C12:names:{}:missing", rn), format!("{}({:?}) returned nothing, expected {:04x}", rn, s, r.id)),
        }
    }
    Ok(())
}

/// child side of `fresh_concurrent`: k threads wait at a barrier, then each resolves every registered name (taken from the registry's
/// entries, which is not a by-name route) through from_name and TryFrom<&str>; prints `failures=<n> lookups=<m>` and the first failures
pub fn probe_names_concurrent(k: usize) {
    let names: Vec<(u16, &'static str)> = CIPHERS.values().map(|c| (c.id.0, c.name)).collect();
    let barrier = std::sync::Arc::new(std::sync::Barrier::new(k));
    let names = std::sync::Arc::new(names);
    let hs: Vec<_> = (0..k)
        .map(|w| {
            let (b, n) = (barrier.clone(), names.clone());
            std::thread::spawn(move || {
                let mut bad: Vec<String> = Vec::new();
                b.wait();
                for j in 0..n.len() {
                    let (id, name) = n[(j + w * 37) % n.len()];
                    let a = TlsCipherSuite::from_name(name).map(|c| c.id.0);
                    let t = <&TlsCipherSuite>::try_from(name).ok().map(|c| c.id.0);
                    if a != Some(id) || t != Some(id) {
                        bad.push(format!("{}: from_name {:?} try_from {:?}", name, a, t));
                    }
                }
                (n.len() * 2, bad)
            })
        })
        .collect();
    let (mut lookups, mut bad) = (0usize, Vec::new());
    for h in hs {
        if let Ok((l, b)) = h.join() {
            lookups += l;
            bad.extend(b);
        }
    }
    println!("failures={} lookups={} {}", bad.len(), lookups, bad.iter().take(3).cloned().collect::<Vec<_>>().join(" | "));
}
