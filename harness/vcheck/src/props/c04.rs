//! C04 Handshake messages decode to the values an RFC encoder wrote; bad ones fail.

use super::PropDef;
use crate::conv;
use crate::core::*;
use serde_json::json;
use tls_parser::nom::Err;
use tls_parser::*;
use vmodel::model::*;
use vmodel::tape::Tape;
use vmodel::wire::{fnv64, hex_short, set_be, Enc};

pub const DEF: PropDef = PropDef {
    id: "C04",
    title: "Handshake messages decode to the values an RFC encoder wrote; bad ones fail",
    rule: "roundtrip = handshake values of the 17 variants from the model generator (versions, ids and lengths over full ranges with boundary weighting: \
           session id none/1/32, 0..32767 ciphers, 0..255 compressions, extension block absent/empty/realistic/opaque, bodies to 16 KiB, thorough: to 2^24-1), \
           encoded per RFC and followed by trailing bytes (random, or shaped like a continuation of the message): the message parser and every public \
           body parser must return exactly the value and leave the trailing bytes (pointer-identical); invalid = the rejection rules of the statement, each \
           built from a valid encoding by one targeted change (session-id length 33..255, odd cipher length, cipher/compression/certificate-list/status-blob \
           length beyond the body, ticket body 0..3 bytes, unsupported ServerHello version, unknown type, declared length ending inside a mandatory field), \
           stand-alone and wrapped in a record; types = all 256 type codes x 3 body shapes. Non-trivial = a value with a non-empty variable-length field, or an \
           invalid-family case; distinct by hash of the encoding.",
    assumptions: &[
        "model encoders follow RFC 5246 7.4, RFC 8446 4, RFC 5077 3.3, RFC 6066 8, draft-agl-tls-nextprotoneg-03",
        "a CertificateRequest cut is only asserted inside the certificate-type list: a shortened TLS 1.2 request can legitimately re-read as the pre-1.2 form",
        "rejected = any Err (Error, Failure or Incomplete) from the message parser; Error/Failure when wrapped in a record",
    ],
    run,
};

pub const SUBS: &[SubDef] = &[
    SubDef { prop: "C04", name: "roundtrip", oracle: roundtrip },
    SubDef { prop: "C04", name: "invalid", oracle: invalid },
    SubDef { prop: "C04", name: "types", oracle: types },
    SubDef { prop: "C04", name: "large", oracle: large },
    SubDef { prop: "C04", name: "huge", oracle: huge },
    SubDef { prop: "C04", name: "body_direct", oracle: body_direct },
    SubDef { prop: "C04", name: "equality", oracle: equality },
    SubDef { prop: "C04", name: "clone_from", oracle: clone_from },
];

fn run(ctx: &Ctx) {
    ctx.run_tape("roundtrip", roundtrip, ctx.pick(240_000, 1_000_000), 700);
    ctx.run_tape("invalid", invalid, ctx.pick(144_000, 500_000), 500);
    ctx.run_enum("types", types, true, "all 256 handshake type codes x 3 body shapes (empty, 5 bytes, a valid body for that code)", (0..768u32).map(|i| vec![(i / 3) as u8, (i % 3) as u8]));
    ctx.run_tape("large", large, ctx.pick(48, 600), 64);
    // (the sizes around the crate's other limits and the 24-bit maximum are enumerated; the tape only chooses kind and content)
    // the one certificate whose TLS framing reads as DER: an entry of 0x308330 bytes starting `83 2e 30` makes the list bytes
    // `30 83 30 83 2e 30 ..` - a SEQUENCE header whose length covers the list exactly (a parser that also accepts a bare certificate
    // where the list should be cannot tell the two apart); alone, and followed by a second certificate
    ctx.run_fn("der_lookalike", true, "Certificate messages whose first entry is 0x308330 bytes long and starts with 83 2e 30 (one entry; two entries)", |obs| {
        for second in [false, true] {
            obs.evals_add(1);
            let mut c = vec![0x5au8; 0x30_8330];
            c[..3].copy_from_slice(&[0x83, 0x2e, 0x30]);
            let mut chain = vec![c];
            if second {
                chain.push(vec![0x30, 0x03, 0x02, 0x01, 0x05]);
            }
            let h = MHs::Certificate { chain };
            check_roundtrip(&h, &[0x16, 0x03], obs)?;
            obs.nontrivial(second as u64);
        }
        obs.sample(json!({"first_entry_bytes": 0x30_8330, "first_entry_starts": "83 2e 30"}));
        Ok(())
    });
    ctx.run_enum("huge", huge, false, "bodies of 2^20-1, 8 MiB + x, 10 MiB - 1, 10 MiB, 10 MiB + 1, 2^24 - 21 bytes (opaque kinds, Certificate, NewSessionTicket, CertificateStatus)", (0..ctx.pick(6, 48) as u8).map(|k| vec![k % 6, k, k.wrapping_mul(37), k.wrapping_mul(91), 3, 5, 8, 13]));
    ctx.run_tape("body_direct", body_direct, ctx.pick(60_000, 300_000), 200);
    ctx.run_tape("equality", equality, ctx.pick(120_000, 500_000), 500);
    ctx.run_tape("clone_from", clone_from, ctx.pick(60_000, 300_000), 600);
}

fn ptr_off(base: &[u8], s: &[u8]) -> usize {
    (s.as_ptr() as usize).wrapping_sub(base.as_ptr() as usize)
}

/// every public body parser that applies to this kind, called on the exact body
fn body_parsers<'a>(kind: usize, body: &'a [u8]) -> Vec<(&'static str, IResult<&'a [u8], TlsMessageHandshake<'a>>)> {
    let len = body.len();
    let mut v: Vec<(&'static str, IResult<&'a [u8], TlsMessageHandshake<'a>>)> = Vec::new();
    match kind {
        0 => v.push(("parse_tls_handshake_msg_hello_request", parse_tls_handshake_msg_hello_request(body))),
        1 => {
            v.push(("parse_tls_handshake_msg_client_hello", parse_tls_handshake_msg_client_hello(body)));
            v.push(("parse_tls_handshake_client_hello", parse_tls_handshake_client_hello(body).map(|(r, c)| (r, TlsMessageHandshake::ClientHello(c)))));
        }
        2 => {
            v.push(("parse_tls_handshake_msg_server_hello", parse_tls_handshake_msg_server_hello(body)));
            v.push(("parse_tls_handshake_server_hello", parse_tls_handshake_server_hello(body).map(|(r, c)| (r, TlsMessageHandshake::ServerHello(c)))));
        }
        3 => v.push(("parse_tls_handshake_msg_server_hello", parse_tls_handshake_msg_server_hello(body))),
        4 => v.push(("parse_tls_handshake_msg_newsessionticket", parse_tls_handshake_msg_newsessionticket(body, len))),
        6 => v.push(("parse_tls_handshake_msg_hello_retry_request", parse_tls_handshake_msg_hello_retry_request(body))),
        7 => v.push(("parse_tls_handshake_msg_certificate", parse_tls_handshake_msg_certificate(body))),
        8 => v.push(("parse_tls_handshake_msg_serverkeyexchange", parse_tls_handshake_msg_serverkeyexchange(body, len))),
        9 => {
            v.push(("parse_tls_handshake_msg_certificaterequest", parse_tls_handshake_msg_certificaterequest(body)));
            v.push(("parse_tls_handshake_certificaterequest", parse_tls_handshake_certificaterequest(body).map(|(r, c)| (r, TlsMessageHandshake::CertificateRequest(c)))));
        }
        10 => v.push(("parse_tls_handshake_msg_serverdone", parse_tls_handshake_msg_serverdone(body, len))),
        11 => v.push(("parse_tls_handshake_msg_certificateverify", parse_tls_handshake_msg_certificateverify(body, len))),
        12 => v.push(("parse_tls_handshake_msg_clientkeyexchange", parse_tls_handshake_msg_clientkeyexchange(body, len))),
        13 => v.push(("parse_tls_handshake_msg_finished", parse_tls_handshake_msg_finished(body, len))),
        14 => {
            v.push(("parse_tls_handshake_msg_certificatestatus", parse_tls_handshake_msg_certificatestatus(body)));
            v.push(("parse_tls_handshake_certificatestatus", parse_tls_handshake_certificatestatus(body).map(|(r, c)| (r, TlsMessageHandshake::CertificateStatus(c)))));
        }
        15 => {
            v.push(("parse_tls_handshake_msg_next_protocol", parse_tls_handshake_msg_next_protocol(body)));
            v.push(("parse_tls_handshake_next_protocol", parse_tls_handshake_next_protocol(body).map(|(r, c)| (r, TlsMessageHandshake::NextProtocol(c)))));
        }
        16 => v.push(("parse_tls_handshake_msg_key_update", parse_tls_handshake_msg_key_update(body))),
        _ => {}
    }
    v
}

pub fn check_roundtrip(h: &MHs, tail: &[u8], obs: &mut Obs) -> R {
    let enc = h.to_bytes();
    let mut buf = enc.clone();
    buf.extend_from_slice(tail);
    let k = h.kind_name();
    if h.has_nonempty_var() {
        obs.nontrivial(fnv64(&buf));
    }
    let r = guard("parse_tls_message_handshake", || match parse_tls_message_handshake(&buf) {
        Ok((rem, TlsMessage::Handshake(m))) => Ok((ptr_off(&buf, rem), rem.len(), conv::hs(&m))),
        Ok((_, other)) => Err(format!("returned a non-handshake message {:?}", other)),
        Err(e) => Err(format!("{:?}", e.map(|x| x.code))),
    })?;
    match r {
        Ok((off, rl, got)) => {
            ensure!(&got == h, format!("C04:roundtrip:{}:value", k), "{}: parsed value differs from the encoded one: got {} expected {} (wire {})", k, trunc(&format!("{:?}", got)), trunc(&format!("{:?}", h)), hex_short(&buf));
            ensure!(rl == tail.len() && (rl == 0 || off == enc.len()), format!("C04:roundtrip:{}:remainder", k), "{}: remainder must be the {} trailing bytes at offset {}, got {} bytes at offset {}", k, tail.len(), enc.len(), rl, off);
        }
        Err(e) => return fail(format!("C04:roundtrip:{}:rejected", k), format!("{}: a well-formed message was rejected with {}: value {} wire {}", k, e, trunc(&format!("{:?}", h)), hex_short(&buf))),
    }
    // body parsers on the exact body
    let body = &enc[4..];
    let results = guard("handshake body parsers", || {
        body_parsers(h.kind_index(), body).into_iter().map(|(n, r)| (n, r.map(|(rem, m)| (rem.len(), conv::hs(&m))).map_err(|e| format!("{:?}", e.map(|x| x.code))))).collect::<Vec<_>>()
    })?;
    for (name, r) in results {
        match r {
            Ok((rl, got)) => {
                ensure!(&got == h, format!("C04:body:{}:value", name), "{}: body parser value differs: got {} expected {}", name, trunc(&format!("{:?}", got)), trunc(&format!("{:?}", h)));
                ensure!(rl == 0, format!("C04:body:{}:remainder", name), "{}: {} bytes of the body left unread", name, rl);
            }
            Err(e) => return fail(format!("C04:body:{}:rejected", name), format!("{} rejected a well-formed body with {}: {}", name, e, hex_short(body))),
        }
    }
    Ok(())
}

fn gen_hs_tail(t: &mut Tape) -> Vec<u8> {
    match t.weighted(&[2, 3, 3]) {
        0 => vec![],
        1 => t.small_blob(40),
        _ => {
            // shaped like an optional trailing block of the message (u16 length + data): a parser that reads
            // beyond the 24-bit length would pick it up
            let d = t.small_blob(30);
            let mut e = Enc::new();
            e.vec(2, "x", &d);
            e.buf
        }
    }
}

fn roundtrip(t: &mut Tape, obs: &mut Obs) -> R {
    let budget = match t.weighted(&[16, 4, 2, 1]) {
        0 => 300,
        1 => 4096,
        2 => 16000,
        _ => 62000,
    };
    let h = gen_hs(t, budget);
    let tail = gen_hs_tail(t);
    let label = format!("{}:{}", h.kind_name(), if h.has_nonempty_var() { "nonempty" } else { "minimal" });
    obs.sample_class(&label, || json!({"kind": h.kind_name(), "value": trunc(&format!("{:?}", h)), "trailing": tail.len()}));
    check_roundtrip(&h, &tail, obs)
}

/// The public body parsers that take the declared length as an argument, called directly on `body ++ tail` with `len` = the declared
/// body length: they must return exactly the body-delimited value and leave the tail (never reading beyond the declared length), and a
/// NewSessionTicket declared shorter than 4 bytes must be rejected whatever follows in the buffer.
fn body_direct(t: &mut Tape, obs: &mut Obs) -> R {
    let k = t.pick(&[4usize, 8, 10, 11, 12, 13]);
    let h = gen_hs_kind(t, k, 200);
    let body = h.body_bytes();
    let tail = gen_hs_tail(t);
    let mut buf = body.clone();
    buf.extend_from_slice(&tail);
    let len = body.len();
    obs.class(h.kind_name());
    if !tail.is_empty() {
        obs.nontrivial(fnv64(&buf) ^ k as u64);
    }
    let r = guard("handshake body parser (direct)", || {
        let r = match k {
            4 => parse_tls_handshake_msg_newsessionticket(&buf, len),
            8 => parse_tls_handshake_msg_serverkeyexchange(&buf, len),
            10 => parse_tls_handshake_msg_serverdone(&buf, len),
            11 => parse_tls_handshake_msg_certificateverify(&buf, len),
            12 => parse_tls_handshake_msg_clientkeyexchange(&buf, len),
            _ => parse_tls_handshake_msg_finished(&buf, len),
        };
        r.map(|(rem, m)| (ptr_off(&buf, rem), rem.len(), conv::hs(&m))).map_err(|e| format!("{:?}", e.map(|x| x.code)))
    })?;
    match r {
        Ok((off, rl, got)) => {
            ensure!(got == h, format!("C04:body-direct:{}:value", h.kind_name()), "{} body parser called with len={} on body+{} trailing bytes: got {} expected {}", h.kind_name(), len, tail.len(), trunc(&format!("{:?}", got)), trunc(&format!("{:?}", h)));
            ensure!(rl == tail.len() && (rl == 0 || off == len), format!("C04:body-direct:{}:remainder", h.kind_name()), "{} body parser: remainder must be the {} bytes after the declared length {}, got {} bytes at offset {}", h.kind_name(), tail.len(), len, rl, off);
        }
        Err(e) => return fail(format!("C04:body-direct:{}:rejected", h.kind_name()), format!("{} body parser rejected a well-formed body (len={}): {}", h.kind_name(), len, e)),
    }
    // NewSessionTicket declared shorter than 4 bytes, with a longer buffer behind it
    let short = t.below(4);
    let extra = t_small(t);
    let mut b2 = t.bytes(4 + extra);
    b2.extend_from_slice(&tail);
    let ok = guard("parse_tls_handshake_msg_newsessionticket", || parse_tls_handshake_msg_newsessionticket(&b2, short).map(|(r, m)| (r.len(), format!("{:?}", m))).ok())?;
    ensure!(ok.is_none(), "C04:body-direct:ticket-shorter-than-4:accepted", "parse_tls_handshake_msg_newsessionticket(len={}) on a {}-byte buffer returned {:?}: a ticket body shorter than 4 bytes must be rejected", short, b2.len(), ok);
    obs.sample(json!({"kind": h.kind_name(), "declared_len": len, "trailing": tail.len(), "hex": hex_short(&buf)}));
    Ok(())
}

fn t_small(t: &mut Tape) -> usize {
    t.below(12)
}

/// bodies around and beyond 16 bits
fn large(t: &mut Tape, obs: &mut Obs) -> R {
    if t.chance(64) {
        // certificate chains whose LIST length is a round number (low byte zero, 64 KiB and more) behind a short first certificate:
        // the three length bytes then also read as other layouts of the same message (a one-byte context, an empty list)
        let total = t.pick(&[0x01_0000usize, 0x01_0100, 0x01_ab00, 0x02_0000, 0x00_ff00, 0x01_0001]);
        let k = t.pick(&[0usize, 1, 100, 255, 256]);
        let rest = total - 6 - k;
        let h = MHs::Certificate { chain: vec![t.bytes(k), vec![0x30; rest]] };
        obs.class("Certificate:round-list-length");
        let tail = t.small_blob(8);
        return check_roundtrip(&h, &tail, obs);
    }
    let n = match t.below(4) {
        0 => 65535,
        1 => 65536,
        2 => 65537 + t.below(70000),
        _ => 0x20000 + t.below(0x20000),
    };
    big_body(t, n, obs)
}

/// bodies up to the 24-bit limit
fn huge(t: &mut Tape, obs: &mut Obs) -> R {
    let n = match t.u8() % 6 {
        0 => 0xff_ffff - 20,
        1 => 0x0f_ffff,
        2 => 0xa0_0000 - 1,
        3 => 0xa0_0000,
        4 => 0xa0_0001,
        _ => 0x80_0000 + t.below(0x10_0000),
    };
    big_body(t, n, obs)
}

fn big_body(t: &mut Tape, n: usize, obs: &mut Obs) -> R {
    let k = t.pick(&[8usize, 10, 11, 12, 13, 4, 7, 14]);
    let blob = t.bytes(n);
    let h = match k {
        8 => MHs::ServerKeyExchange(blob),
        10 => MHs::ServerDone(blob),
        11 => MHs::CertificateVerify(blob),
        12 => MHs::ClientKeyExchange(blob),
        13 => MHs::Finished(blob),
        4 => MHs::NewSessionTicket { lifetime: t.u32b(), ticket: blob },
        7 => MHs::Certificate { chain: vec![blob, t.small_blob(10)] },
        _ => MHs::CertificateStatus { ty: t.u8(), blob },
    };
    obs.class(h.kind_name());
    obs.sample(json!({"kind": h.kind_name(), "body_bytes": h.body_bytes().len()}));
    let tail = t.small_blob(8);
    check_roundtrip(&h, &tail, obs)
}

/// "returns exactly that value" is decided by comparing values, and callers compare decoded messages with `==`: two encodings that
/// decode to field-wise different values must not compare equal, and one encoding decoded twice must compare equal.
fn equality(t: &mut Tape, obs: &mut Obs) -> R {
    let h = gen_hs(t, 300);
    let a = h.to_bytes();
    if a.len() <= 4 {
        return Ok(());
    }
    let mut b = a.clone();
    // one byte of the body changed; weighted towards the end (padding, trailing opaque fields) and the start (fixed fields)
    let blen = a.len() - 4;
    let pos = 4 + match t.weighted(&[4, 2, 2]) {
        0 => t.below(blen),
        1 => blen - 1 - t.below(blen.min(8)),
        _ => t.below(blen.min(8)),
    };
    b[pos] = b[pos].wrapping_add(1 + t.below(255) as u8);
    let a2 = a.clone();
    let verdict = guard("parse_tls_message_handshake", || {
        let (ra, rb, ra2) = (parse_tls_message_handshake(&a), parse_tls_message_handshake(&b), parse_tls_message_handshake(&a2));
        match (&ra, &rb, &ra2) {
            (Ok((_, ma)), Ok((_, mb)), Ok((_, ma2))) => {
                // a clone is the same value: field by field, by `==`, and in its Debug text
                let c = ma.clone();
                let clone_ok = conv::msg(&c) == conv::msg(ma) && c == *ma && format!("{:?}", c) == format!("{:?}", ma);
                Some((conv::msg(ma) != conv::msg(mb), ma == mb, ma != mb, ma == ma2, ma != ma2, format!("{:?}", ma), format!("{:?}", mb), clone_ok))
            }
            _ => None,
        }
    })?;
    if let Some((differ, eq, ne, same_eq, same_ne, da, db, clone_ok)) = verdict {
        let k = h.kind_name();
        ensure!(clone_ok, format!("C04:equality:{}:clone-differs", k), "{}: the clone of a decoded message differs from the message: {}", k, trunc(&da));
        ensure!(same_eq && !same_ne, format!("C04:equality:{}:same-bytes-unequal", k), "{}: one encoding decoded twice gives values that do not compare equal: {}", k, trunc(&da));
        if differ {
            obs.nontrivial(fnv64(&b));
            obs.sample_class(k, || json!({"kind": k, "changed_byte": pos, "message_bytes": a.len()}));
            ensure!(!eq && ne, format!("C04:equality:{}:different-values-compare-equal", k), "{}: two encodings differing in byte {} decode to different values but the values compare equal (== {}, != {}): {} vs {}", k, pos, eq, ne, trunc(&da), trunc(&db));
        }
    }
    Ok(())
}

/// `target.clone_from(&source)` on the contents struct inside the variant (the enum's own clone_from replaces the whole value and
/// never reaches the struct's); None when the two messages are of different variants
fn clone_from_inner<'a>(target: &TlsMessageHandshake<'a>, source: &TlsMessageHandshake<'a>) -> Option<TlsMessageHandshake<'a>> {
    use TlsMessageHandshake::*;
    macro_rules! arm {
        ($v:ident, $t:expr, $s:expr) => {{
            let mut x = $t.clone();
            x.clone_from($s);
            Some($v(x))
        }};
    }
    match (target, source) {
        (ClientHello(t), ClientHello(s)) => arm!(ClientHello, t, s),
        (ServerHello(t), ServerHello(s)) => arm!(ServerHello, t, s),
        (ServerHelloV13Draft18(t), ServerHelloV13Draft18(s)) => arm!(ServerHelloV13Draft18, t, s),
        (NewSessionTicket(t), NewSessionTicket(s)) => arm!(NewSessionTicket, t, s),
        (HelloRetryRequest(t), HelloRetryRequest(s)) => arm!(HelloRetryRequest, t, s),
        (Certificate(t), Certificate(s)) => arm!(Certificate, t, s),
        (ServerKeyExchange(t), ServerKeyExchange(s)) => arm!(ServerKeyExchange, t, s),
        (CertificateRequest(t), CertificateRequest(s)) => arm!(CertificateRequest, t, s),
        (ClientKeyExchange(t), ClientKeyExchange(s)) => arm!(ClientKeyExchange, t, s),
        (CertificateStatus(t), CertificateStatus(s)) => arm!(CertificateStatus, t, s),
        (NextProtocol(t), NextProtocol(s)) => arm!(NextProtocol, t, s),
        _ => None,
    }
}

/// copies of decoded values are the values: two independently generated messages of one kind (so that optional fields are present in
/// one and absent in the other) are decoded, and `a.clone().clone_from(&b)` - on the message, on the handshake enum, on the contents
/// struct, on an Option and a Vec holding it - must give b, field by field
fn clone_from(t: &mut Tape, obs: &mut Obs) -> R {
    let kind = t.pick(&[1usize, 2, 3, 4, 6, 7, 8, 9, 12, 14, 15, 1, 2, 9]);
    let (ha, hb) = (gen_hs_kind(t, kind, 200), gen_hs_kind(t, kind, 200));
    let (ba, bb) = (ha.to_bytes(), hb.to_bytes());
    let r = guard("clone_from on decoded handshake messages", || -> Result<Option<(bool, String)>, String> {
        let (ma, mb) = match (parse_tls_message_handshake(&ba), parse_tls_message_handshake(&bb)) {
            (Ok((_, a)), Ok((_, b))) => (a, b),
            _ => return Ok(None),
        };
        let want = conv::msg(&mb);
        let mut routes: Vec<(&str, MMsg)> = Vec::new();
        let mut x = ma.clone();
        x.clone_from(&mb);
        routes.push(("TlsMessage::clone_from", conv::msg(&x)));
        if let (TlsMessage::Handshake(a), TlsMessage::Handshake(b)) = (&ma, &mb) {
            let mut x = a.clone();
            x.clone_from(b);
            routes.push(("TlsMessageHandshake::clone_from", MMsg::Hs(conv::hs(&x))));
            if let Some(x) = clone_from_inner(a, b) {
                routes.push(("clone_from of the contents struct", MMsg::Hs(conv::hs(&x))));
            }
            let mut o = Some(a.clone());
            o.clone_from(&Some(b.clone()));
            routes.push(("Option::clone_from", MMsg::Hs(conv::hs(o.as_ref().unwrap()))));
            let mut v = vec![a.clone(), a.clone()];
            v.clone_from(&vec![b.clone()]);
            routes.push(("Vec::clone_from", MMsg::Hs(conv::hs(&v[0]))));
        }
        for (name, got) in routes {
            if got != want {
                return Err(format!("{}: target {:?}, source {:?}, result {:?}", name, conv::msg(&ma), want, got));
            }
        }
        Ok(Some((conv::msg(&ma) != want, format!("{:?}", want))))
    })?;
    match r {
        Err(e) => fail(format!("C04:clone-from:{}", ha.kind_name()), format!("a copy made with clone_from differs from its source: {}", trunc(&e))),
        Ok(Some((differ, _))) => {
            if differ {
                obs.nontrivial(fnv64(&ba) ^ fnv64(&bb));
            }
            obs.sample_class(ha.kind_name(), || json!({"kind": ha.kind_name(), "target": trunc(&format!("{:?}", ha)), "source": trunc(&format!("{:?}", hb))}));
            Ok(())
        }
        Ok(None) => Ok(()),
    }
}

fn expect_rejected(what: &str, msg: &[u8], tail: &[u8], obs: &mut Obs) -> R {
    let mut buf = msg.to_vec();
    buf.extend_from_slice(tail);
    obs.nontrivial(fnv64(&buf));
    obs.sample_class(what, || json!({"family": what, "hex": hex_short(&buf)}));
    let r = guard("parse_tls_message_handshake", || parse_tls_message_handshake(&buf).map(|(rem, m)| (rem.len(), format!("{:?}", m))).map_err(|e| e.map(|x| x.code)))?;
    if let Ok((rl, m)) = r {
        return fail(format!("C04:invalid:{}:accepted", what), format!("{}: the message parser returned a value ({}, {} bytes left) for {}", what, trunc(&m), rl, hex_short(&buf)));
    }
    // the public body parsers of that message type, called directly on exactly the declared body: never a value either
    // (the contents-level and message-level parsers of one type are separate dispatch tables)
    if msg.len() >= 4 {
        const KNOWN: [(u8, usize); 16] = [(0, 0), (1, 1), (2, 2), (4, 4), (5, 5), (6, 6), (11, 7), (12, 8), (13, 9), (14, 10), (15, 11), (16, 12), (20, 13), (22, 14), (24, 16), (67, 15)];
        let hl = (msg[1] as usize) << 16 | (msg[2] as usize) << 8 | msg[3] as usize;
        if let (Some(k), true) = (KNOWN.iter().find(|k| k.0 == msg[0]).map(|k| k.1), msg.len() >= 4 + hl) {
            let body = &msg[4..4 + hl];
            let rs = guard("handshake body parsers", || body_parsers(k, body).into_iter().map(|(n, r)| (n, r.map(|(rem, m)| (rem.len(), format!("{:?}", m))).ok())).collect::<Vec<_>>())?;
            for (n, r) in rs {
                obs.evals_add(1);
                if let Some((rl, m)) = r {
                    return fail(format!("C04:invalid:{}:accepted-by:{}", what, n), format!("{}: {} called on the declared body returned a value ({}, {} bytes left) for {}", what, n, trunc(&m), rl, hex_short(&buf)));
                }
            }
        }
    }
    // wrapped in a record (payload = the message only): Error/Failure, never a value, never Incomplete
    if msg.len() <= RECORD_CAP {
        let mut e = Enc::new();
        e.u8(0x16);
        e.u16(0x0303);
        e.vec(2, "rec.len", msg);
        let rec = e.buf;
        let r = guard("parse_tls_plaintext", || parse_tls_plaintext(&rec).map(|(_, p)| format!("{:?}", p.msg)).map_err(|e| e.map(|x| x.code)))?;
        match r {
            Ok(m) => return fail(format!("C04:invalid:{}:record-accepted", what), format!("{}: a record holding only this message was decoded to {}", what, trunc(&m))),
            Err(Err::Incomplete(n)) => return fail(format!("C04:invalid:{}:record-incomplete", what), format!("{}: a complete record answered Incomplete({:?})", what, n)),
            Err(_) => {}
        }
    }
    Ok(())
}

fn set_len(e: &mut Enc, label: &str, v: u64) -> bool {
    if let Some(lf) = e.lens.iter().find(|l| l.label == label).cloned() {
        set_be(&mut e.buf[lf.off..lf.off + lf.width], v);
        true
    } else {
        false
    }
}

fn lenfield(e: &Enc, label: &str) -> Option<vmodel::wire::LenField> {
    e.lens.iter().find(|l| l.label == label).cloned()
}

/// one structurally invalid handshake message (complete framing, invalid body): (family label, encoding); None when the drawn case is degenerate
pub fn gen_invalid(t: &mut Tape) -> Option<(String, Vec<u8>)> {
    match t.below(10) {
        0 => {
            // session id longer than 32, with all its bytes present
            let k = t.pick(&[1usize, 2]);
            let mut h = gen_hs_kind(t, k, 200);
            let n = t.range(33, 255);
            let long = t.bytes(n);
            match &mut h {
                MHs::ClientHello { sid, .. } | MHs::ServerHello { sid, .. } => *sid = Some(long),
                _ => {}
            }
            Some((if k == 1 { "sid-over-32:ClientHello" } else { "sid-over-32:ServerHello" }.to_string(), h.to_bytes()))
        }
        1 => {
            // odd cipher list length (all bytes present: at least the compression length byte follows)
            let h = gen_hs_kind(t, 1, 300);
            let mut e = Enc::new();
            h.encode(&mut e);
            let lf = lenfield(&e, "ch.ciphers").unwrap();
            let avail = e.buf.len() - (lf.off + 2);
            let mut v = if t.bool() { lf.value + 1 } else { 1 + 2 * t.below(avail / 2 + 1) };
            if v % 2 == 0 {
                v += 1;
            }
            if v > avail.max(1) || v > 65535 {
                v = 1;
            }
            set_len(&mut e, "ch.ciphers", v as u64);
            Some(("odd-cipher-length".to_string(), e.buf))
        }
        2 => {
            // cipher list longer than what remains of the body (even length)
            let h = gen_hs_kind(t, 1, 300);
            let mut e = Enc::new();
            h.encode(&mut e);
            let lf = lenfield(&e, "ch.ciphers").unwrap();
            let avail = e.buf.len() - (lf.off + 2);
            let mut v = avail + 1 + t.below(64);
            if v % 2 == 1 {
                v += 1;
            }
            if v > 65534 {
                return None;
            }
            set_len(&mut e, "ch.ciphers", v as u64);
            Some(("cipher-length-overlong".to_string(), e.buf))
        }
        3 => {
            // compression list longer than what remains of the body
            let mut h = gen_hs_kind(t, 1, 100);
            if let MHs::ClientHello { ext, comp, .. } = &mut h {
                comp.truncate(20);
                if ext.as_ref().map_or(false, |x| x.len() > 100) {
                    *ext = None;
                }
            }
            let mut e = Enc::new();
            h.encode(&mut e);
            let lf = lenfield(&e, "ch.comp").unwrap();
            let avail = e.buf.len() - (lf.off + 1);
            if avail >= 255 {
                return None;
            }
            let v = t.range(avail + 1, 255);
            set_len(&mut e, "ch.comp", v as u64);
            Some(("compression-length-overlong".to_string(), e.buf))
        }
        4 => {
            let n = t.below(4);
            let body = t.bytes(n);
            let mut e = Enc::new();
            e.u8(4);
            e.vec(3, "hs.len", &body);
            Some(("ticket-shorter-than-4".to_string(), e.buf))
        }
        5 => {
            let k = t.pick(&[7usize, 14]);
            let h = gen_hs_kind(t, k, 300);
            let mut e = Enc::new();
            h.encode(&mut e);
            let label = if k == 7 { "cert.list" } else { "cs.blob" };
            let lf = lenfield(&e, label).unwrap();
            let v = (lf.value as u64 + 1 + if t.bool() { 0 } else { t.u24b() as u64 }).min(0xff_ffff);
            set_len(&mut e, label, v);
            Some((if k == 7 { "certificate-list-overlong" } else { "status-blob-overlong" }.to_string(), e.buf))
        }
        6 => {
            let mut h = gen_hs_kind(t, 2, 200);
            let mut v = t.u16b();
            if t.chance(100) {
                v = t.pick(&[0x0304u16, 0x02ff, 0x0200, 0x7f11, 0x7f13, 0xfefd, 0xfeff, 0x0000, 0xffff, 0x0404]);
            }
            if [0x0300u16, 0x0301, 0x0302, 0x0303, 0x7f12].contains(&v) {
                v = 0x0304;
            }
            if let MHs::ServerHello { version, .. } = &mut h {
                *version = v;
            }
            Some(("serverhello-unsupported-version".to_string(), h.to_bytes()))
        }
        7 => {
            let mut ty = t.u8();
            if [0u8, 1, 2, 4, 5, 6, 11, 12, 13, 14, 15, 16, 20, 22, 24, 67].contains(&ty) {
                ty = t.pick(&[3u8, 7, 8, 9, 10, 17, 18, 19, 21, 23, 25, 66, 68, 254, 255]);
            }
            let body = if t.bool() { gen_hs(t, 100).body_bytes() } else { t.small_blob(40) };
            let mut e = Enc::new();
            e.u8(ty);
            e.vec(3, "hs.len", &body);
            Some(("unknown-type".to_string(), e.buf))
        }
        _ => {
            // declared length (and body) end inside a mandatory field
            let k = t.pick(&[1usize, 2, 3, 6, 7, 9, 14, 15, 16, 1, 2]);
            let h = gen_hs_kind(t, k, 300);
            let body = h.body_bytes();
            // length of the mandatory part of this body
            let mand = match &h {
                MHs::ClientHello { ext, .. } | MHs::ServerHello { ext, .. } | MHs::ServerHelloD18 { ext, .. } | MHs::HelloRetryRequest { ext, .. } => body.len() - ext.as_ref().map_or(0, |x| x.len() + 2),
                // both layouts (with and without signature algorithms) need at least one more 2-byte length after the certificate types
                MHs::CertificateRequest { types, .. } => 1 + types.len() + 2,
                _ => body.len(),
            };
            if mand == 0 {
                return None;
            }
            let cut = t.below(mand);
            let mut e = Enc::new();
            e.u8(h.type_code());
            e.vec(3, "hs.len", &body[..cut]);
            Some((format!("mandatory-cut:{}", h.kind_name()), e.buf))
        }
    }
}

fn invalid(t: &mut Tape, obs: &mut Obs) -> R {
    let tail = gen_hs_tail(t);
    match gen_invalid(t) {
        Some((what, msg)) => expect_rejected(&what, &msg, &tail, obs),
        None => Ok(()),
    }
}

/// parameter tape: [type code, shape]
fn types(t: &mut Tape, obs: &mut Obs) -> R {
    let ty = t.u8();
    let shape = t.u8() % 3;
    let known: [(u8, usize); 16] = [(0, 0), (1, 1), (2, 2), (4, 4), (5, 5), (6, 6), (11, 7), (12, 8), (13, 9), (14, 10), (15, 11), (16, 12), (20, 13), (22, 14), (24, 16), (67, 15)];
    let kind = known.iter().find(|k| k.0 == ty).map(|k| k.1);
    let seed = [ty, shape, 0x5a, 0x11, 0x80, 3, 9, 200, 7, 7, 7, 1, 2, 3, 4, 5, 6, 7, 8, 9, 10, 11, 12];
    let body: Vec<u8> = match (shape, kind) {
        (0, _) => vec![],
        (1, _) => vec![1, 2, 3, 4, 5],
        (_, Some(k)) => {
            let mut tt = Tape::new(&seed);
            gen_hs_kind(&mut tt, k, 64).body_bytes()
        }
        (_, None) => vec![0; 40],
    };
    let mut e = Enc::new();
    e.u8(ty);
    e.vec(3, "hs.len", &body);
    e.bytes(&[0xaa, 0xbb]);
    let buf = e.buf;
    let r = guard("parse_tls_message_handshake", || match parse_tls_message_handshake(&buf) {
        Ok((rem, TlsMessage::Handshake(m))) => Ok((rem.len(), conv::hs(&m))),
        Ok((_, _)) => Err("non-handshake".to_string()),
        Err(e) => Err(format!("{:?}", e.map(|x| x.code))),
    })?;
    match kind {
        None => {
            obs.class("unknown-type");
            obs.nontrivial(ty as u64 * 3 + shape as u64);
            ensure!(r.is_err(), format!("C04:types:unknown-type-accepted:{}", ty), "handshake type {} is not one of the 16 supported codes but was decoded to {:?}", ty, r);
        }
        Some(k) => {
            obs.class("known-type");
            if let Ok((rl, m)) = &r {
                obs.nontrivial(ty as u64 * 3 + shape as u64);
                // ServerHello bodies select their variant by version; everything else maps one to one
                let ok_kind = m.kind_index() == k || (k == 2 && m.kind_index() == 3);
                ensure!(ok_kind, format!("C04:types:wrong-variant:{}", ty), "type code {} decoded to variant {}", ty, m.kind_name());
                ensure!(*rl == 2, format!("C04:types:remainder:{}", ty), "type {}: remainder {} bytes, expected the 2 trailing bytes", ty, rl);
                if shape == 2 {
                    let mut tt = Tape::new(&seed);
                    let want = gen_hs_kind(&mut tt, k, 64);
                    ensure!(*m == want, format!("C04:types:value:{}", ty), "type {}: got {:?} expected {:?}", ty, m, want);
                    obs.sample(json!({"type": ty, "kind": want.kind_name(), "hex": hex_short(&buf)}));
                }
            } else if shape == 2 {
                return fail(format!("C04:types:valid-body-rejected:{}", ty), format!("type {}: a valid body was rejected: {:?} ({})", ty, r, hex_short(&buf)));
            }
        }
    }
    Ok(())
}
