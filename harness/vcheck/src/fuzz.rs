//! Entry point used by the libFuzzer targets: the fuzzer's input is the choice tape of one sub-check's oracle.

use crate::core::*;
use crate::props;
use std::collections::BTreeSet;
use std::sync::{Mutex, OnceLock};

struct Sel {
    ctx: Ctx,
    oracle: Oracle,
    name: String,
}

fn sel() -> &'static Sel {
    static S: OnceLock<Sel> = OnceLock::new();
    S.get_or_init(|| {
        install_panic_hook();
        let which = std::env::var("VCHECK_FUZZ_SUB").unwrap_or_else(|_| "C01/entry_points_raw".into());
        let (p, s) = which.split_once('/').expect("VCHECK_FUZZ_SUB=<prop>/<sub-check>");
        let def = props::subs().into_iter().find(|d| d.prop == p && d.name == s).unwrap_or_else(|| panic!("unknown sub-check {}", which));
        let pdef = props::PROPS.iter().find(|x| x.id == p).expect("property");
        // known open findings are tolerated in campaigns (so they keep exploring); the replay step is strict
        let mut known = BTreeSet::new();
        let dir = std::env::var("VERIF_DIR").unwrap_or_else(|_| "/verif".into());
        if let Ok(text) = std::fs::read_to_string(format!("{}/known_findings.json", dir)) {
            if let Ok(v) = serde_json::from_str::<serde_json::Value>(&text) {
                for e in v["findings"].as_array().cloned().unwrap_or_default() {
                    if e["property"] == p && e["status"] == "open" {
                        if let Some(sig) = e["signature"].as_str() {
                            known.insert(sig.to_string());
                        }
                    }
                }
            }
        }
        Sel { ctx: Ctx { tier: Tier::Thorough, seed: 0, prop: pdef.id, known_open: known, out: Mutex::new(PropOut::default()) }, oracle: def.oracle, name: which }
    })
}

/// run the selected oracle on one fuzzer input; a violated property aborts (libFuzzer keeps the input as a crash artifact)
pub fn one_input(data: &[u8]) {
    let s = sel();
    let mut obs = Obs::new();
    if let Err(f) = s.ctx.call(s.oracle, data, &mut obs) {
        eprintln!("VCHECK-FUZZ-FAILURE sub={} signature={}\n{}", s.name, f.sig, f.msg);
        std::process::abort();
    }
}
