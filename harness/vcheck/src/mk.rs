//! Construction of crate values from model values (borrowing the model's buffers).

use tls_parser::*;
use vmodel::model::*;

fn ob(o: &Option<Vec<u8>>) -> Option<&[u8]> {
    o.as_deref()
}

pub fn hs(m: &MHs) -> TlsMessageHandshake<'_> {
    match m {
        MHs::HelloRequest => TlsMessageHandshake::HelloRequest,
        MHs::ClientHello { version, random, sid, ciphers, comp, ext } => TlsMessageHandshake::ClientHello(TlsClientHelloContents {
            version: TlsVersion(*version),
            random,
            session_id: ob(sid),
            ciphers: ciphers.iter().map(|c| TlsCipherSuiteID(*c)).collect(),
            comp: comp.iter().map(|c| TlsCompressionID(*c)).collect(),
            ext: ob(ext),
        }),
        MHs::ServerHello { version, random, sid, cipher, comp, ext } => TlsMessageHandshake::ServerHello(TlsServerHelloContents {
            version: TlsVersion(*version),
            random,
            session_id: ob(sid),
            cipher: TlsCipherSuiteID(*cipher),
            compression: TlsCompressionID(*comp),
            ext: ob(ext),
        }),
        MHs::ServerHelloD18 { version, random, cipher, ext } => {
            TlsMessageHandshake::ServerHelloV13Draft18(TlsServerHelloV13Draft18Contents { version: TlsVersion(*version), random, cipher: TlsCipherSuiteID(*cipher), ext: ob(ext) })
        }
        MHs::NewSessionTicket { lifetime, ticket } => TlsMessageHandshake::NewSessionTicket(TlsNewSessionTicketContent { ticket_lifetime_hint: *lifetime, ticket }),
        MHs::EndOfEarlyData => TlsMessageHandshake::EndOfEarlyData,
        MHs::HelloRetryRequest { version, cipher, ext } => {
            TlsMessageHandshake::HelloRetryRequest(TlsHelloRetryRequestContents { version: TlsVersion(*version), cipher: TlsCipherSuiteID(*cipher), ext: ob(ext) })
        }
        MHs::Certificate { chain } => TlsMessageHandshake::Certificate(TlsCertificateContents { cert_chain: chain.iter().map(|c| RawCertificate { data: c }).collect() }),
        MHs::ServerKeyExchange(b) => TlsMessageHandshake::ServerKeyExchange(TlsServerKeyExchangeContents { parameters: b }),
        MHs::CertificateRequest { types, sigalgs, cas } => TlsMessageHandshake::CertificateRequest(TlsCertificateRequestContents {
            cert_types: types.clone(),
            sig_hash_algs: sigalgs.clone(),
            unparsed_ca: cas.iter().map(|c| c.as_slice()).collect(),
        }),
        MHs::ServerDone(b) => TlsMessageHandshake::ServerDone(b),
        MHs::CertificateVerify(b) => TlsMessageHandshake::CertificateVerify(b),
        MHs::ClientKeyExchange(b) => TlsMessageHandshake::ClientKeyExchange(TlsClientKeyExchangeContents::Unknown(b)),
        MHs::Finished(b) => TlsMessageHandshake::Finished(b),
        MHs::CertificateStatus { ty, blob } => TlsMessageHandshake::CertificateStatus(TlsCertificateStatusContents { status_type: *ty, blob }),
        MHs::NextProtocol { proto, padding } => TlsMessageHandshake::NextProtocol(TlsNextProtocolContent { selected_protocol: proto, padding }),
        MHs::KeyUpdate(v) => TlsMessageHandshake::KeyUpdate(*v),
    }
}

pub fn msg(m: &MMsg) -> TlsMessage<'_> {
    match m {
        MMsg::Hs(h) => TlsMessage::Handshake(hs(h)),
        MMsg::Ccs => TlsMessage::ChangeCipherSpec,
        MMsg::Alert(s, c) => TlsMessage::Alert(TlsMessageAlert { severity: TlsAlertSeverity(*s), code: TlsAlertDescription(*c) }),
        MMsg::AppData(b) => TlsMessage::ApplicationData(TlsMessageApplicationData { blob: b }),
        MMsg::Heartbeat { ty, payload_len, payload } => {
            TlsMessage::Heartbeat(TlsMessageHeartbeat { heartbeat_type: TlsHeartbeatMessageType(*ty), payload_len: *payload_len, payload })
        }
    }
}
