//! Runner shared by all property checks: seeded proptest drivers over choice tapes, observation
//! (evaluation counts, class histogram, distinct non-trivial cases, samples), panic capture,
//! known-finding lookup, replay files and evidence.

use proptest::test_runner::{Config, RngAlgorithm, RngSeed, TestCaseError, TestError, TestRunner};
use serde_json::{json, Value};
use std::cell::{Cell, RefCell};
use std::collections::{BTreeMap, BTreeSet, HashSet};
use std::panic::{catch_unwind, AssertUnwindSafe};
use std::sync::Mutex;
use vmodel::tape::{tape, Tape};
use vmodel::wire::{fnv64, hex};

// ------------------------------------------------------------------------------------------
// failures
// ------------------------------------------------------------------------------------------

#[derive(Clone, Debug)]
pub struct Fail {
    /// exact signature, used to match entries of known_findings.json
    pub sig: String,
    pub msg: String,
}

pub type R = Result<(), Fail>;

pub fn fail<T>(sig: impl Into<String>, msg: impl Into<String>) -> Result<T, Fail> {
    Err(Fail { sig: sig.into(), msg: msg.into() })
}

#[macro_export]
macro_rules! ensure {
    ($cond:expr, $sig:expr, $($arg:tt)*) => {
        if !($cond) {
            return Err($crate::core::Fail { sig: ($sig).to_string(), msg: format!($($arg)*) });
        }
    };
}

#[macro_export]
macro_rules! ensure_eq {
    ($a:expr, $b:expr, $sig:expr, $($arg:tt)*) => {{
        let (a, b) = ($a, $b);
        let (a, b) = (&a, &b);
        if a != b {
            return Err($crate::core::Fail {
                sig: ($sig).to_string(),
                msg: format!("{}: got {} expected {}", format!($($arg)*), $crate::core::trunc(&format!("{:?}", a)), $crate::core::trunc(&format!("{:?}", b))),
            });
        }
    }};
}

pub fn trunc(s: &str) -> String {
    if s.len() <= 600 {
        s.to_string()
    } else {
        let mut cut = 600;
        while !s.is_char_boundary(cut) {
            cut -= 1;
        }
        format!("{}...({} chars)", &s[..cut], s.len())
    }
}

// ------------------------------------------------------------------------------------------
// panic capture
// ------------------------------------------------------------------------------------------

thread_local! {
    static LAST_PANIC: RefCell<Option<(String, String)>> = const { RefCell::new(None) };
    static IN_GUARD: Cell<bool> = const { Cell::new(false) };
}

pub fn install_panic_hook() {
    let default = std::panic::take_hook();
    std::panic::set_hook(Box::new(move |info| {
        let in_guard = IN_GUARD.with(|g| g.get());
        if in_guard {
            let msg = if let Some(s) = info.payload().downcast_ref::<&str>() {
                s.to_string()
            } else if let Some(s) = info.payload().downcast_ref::<String>() {
                s.clone()
            } else {
                "<non-string panic payload>".to_string()
            };
            let loc = info.location().map(|l| format!("{}:{}", l.file(), l.line())).unwrap_or_default();
            LAST_PANIC.with(|p| *p.borrow_mut() = Some((msg, loc)));
        } else {
            default(info);
        }
    }));
}

/// run code that calls into the crate under test; a panic becomes a failure value
pub fn guard<T>(what: &str, f: impl FnOnce() -> T) -> Result<T, Fail> {
    let prev = IN_GUARD.with(|g| g.replace(true));
    let r = catch_unwind(AssertUnwindSafe(f));
    IN_GUARD.with(|g| g.set(prev));
    match r {
        Ok(v) => Ok(v),
        Err(_) => {
            let (msg, loc) = LAST_PANIC.with(|p| p.borrow_mut().take()).unwrap_or_default();
            let short = loc.rsplit('/').next().unwrap_or("").to_string();
            // a panic raised by the harness's own sources (its generators, models, bookkeeping) is a defect of the harness, not an
            // observation about the crate: reported as an infrastructure problem (exit 2), never as a violation
            if loc.starts_with("vcheck/src/") || loc.starts_with("vmodel/src/") || loc.contains("/harness/vcheck/src/") || loc.contains("/harness/vmodel/src/") {
                return Err(Fail { sig: format!("harness:panic:{}:{}", what, short), msg: format!("the harness itself panicked in {}: {} at {}", what, msg, loc) });
            }
            Err(Fail { sig: format!("panic:{}:{}", what, short), msg: format!("panic in {}: {} at {}", what, msg, loc) })
        }
    }
}

// ------------------------------------------------------------------------------------------
// observations
// ------------------------------------------------------------------------------------------

#[derive(Default)]
pub struct Obs {
    pub evals: u64,
    pub nontrivial: HashSet<u64>,
    pub classes: BTreeMap<String, u64>,
    pub samples: Vec<Value>,
    pub tolerated: BTreeMap<String, u64>,
    frozen: bool,
    sample_cap: usize,
}

impl Obs {
    pub fn new() -> Self {
        Obs { sample_cap: 4, ..Default::default() }
    }
    pub fn eval(&mut self) {
        if !self.frozen {
            self.evals += 1;
        }
    }
    pub fn evals_add(&mut self, n: u64) {
        if !self.frozen {
            self.evals += n;
        }
    }
    pub fn class(&mut self, c: &str) {
        if !self.frozen {
            *self.classes.entry(c.to_string()).or_insert(0) += 1;
        }
    }
    /// record a distinct non-trivial case by its hash
    pub fn nontrivial(&mut self, h: u64) {
        if !self.frozen {
            self.nontrivial.insert(h);
        }
    }
    pub fn nontrivial_bytes(&mut self, b: &[u8]) {
        self.nontrivial(fnv64(b));
    }
    pub fn wants_sample(&self) -> bool {
        !self.frozen && self.samples.len() < self.sample_cap
    }
    pub fn sample(&mut self, v: Value) {
        if self.wants_sample() {
            self.samples.push(v);
        }
    }
    /// a sample for a class seen for the first time (so samples show variety)
    pub fn sample_class(&mut self, c: &str, mk: impl FnOnce() -> Value) {
        if !self.frozen && !self.classes.contains_key(c) && self.samples.len() < 12 {
            self.samples.push(mk());
        }
        self.class(c);
    }
    pub fn merge(&mut self, o: Obs) {
        self.evals += o.evals;
        self.nontrivial.extend(o.nontrivial);
        for (k, v) in o.classes {
            *self.classes.entry(k).or_insert(0) += v;
        }
        for s in o.samples {
            if self.samples.len() < 6 {
                self.samples.push(s);
            }
        }
        for (k, v) in o.tolerated {
            *self.tolerated.entry(k).or_insert(0) += v;
        }
    }
}

// ------------------------------------------------------------------------------------------
// context, sub-check registry, reports
// ------------------------------------------------------------------------------------------

pub type Oracle = fn(&mut Tape, &mut Obs) -> R;

pub struct SubDef {
    pub prop: &'static str,
    pub name: &'static str,
    pub oracle: Oracle,
}

#[derive(Clone, Copy, PartialEq, Eq, Debug)]
pub enum Tier {
    Quick,
    Thorough,
}

pub struct Ctx {
    pub tier: Tier,
    pub seed: u64,
    pub prop: &'static str,
    pub known_open: BTreeSet<String>,
    pub out: Mutex<PropOut>,
}

#[derive(Default)]
pub struct PropOut {
    pub subs: Vec<SubReport>,
    pub failures: Vec<Failure>,
}

pub struct SubReport {
    pub name: String,
    pub exhaustive: bool,
    pub obs: Obs,
    pub note: String,
}

#[derive(Clone, Debug)]
pub struct Failure {
    pub sub: String,
    pub fail: Fail,
    pub tape: Vec<u8>,
}

impl Ctx {
    pub fn pick(&self, quick: u64, thorough: u64) -> u64 {
        match self.tier {
            Tier::Quick => quick,
            Tier::Thorough => thorough,
        }
    }
    pub fn workers(&self) -> usize {
        match self.tier {
            Tier::Quick => 8,
            Tier::Thorough => 16,
        }
    }
    fn is_known(&self, sig: &str) -> bool {
        self.known_open.contains(sig)
    }

    /// run one oracle call on a tape, with panic capture and known-finding tolerance
    pub fn call(&self, oracle: Oracle, data: &[u8], obs: &mut Obs) -> R {
        crate::alloc::progress();
        let mut t = Tape::new(data);
        let r = match guard("oracle", || oracle(&mut t, obs)) {
            Ok(r) => r,
            Err(f) => Err(f),
        };
        match r {
            Err(f) if self.is_known(&f.sig) => {
                if !obs.frozen {
                    *obs.tolerated.entry(f.sig).or_insert(0) += 1;
                }
                Ok(())
            }
            other => other,
        }
    }

    /// generated-input search: `cases` tapes of up to `tape_len` bytes, split over fixed workers
    pub fn run_tape(&self, sub: &'static str, oracle: Oracle, cases: u64, tape_len: usize) {
        let workers = self.workers().min(cases.max(1) as usize);
        let per = (cases + workers as u64 - 1) / workers as u64;
        let results: Vec<(Obs, Option<Failure>)> = std::thread::scope(|s| {
            let hs: Vec<_> = (0..workers)
                .map(|w| {
                    s.spawn(move || {
                        let h = self.seed.wrapping_mul(0x9E37_79B9_7F4A_7C15) ^ fnv64(format!("{}/{}/{}", self.prop, sub, w).as_bytes());
                        let cfg = Config {
                            cases: per as u32,
                            failure_persistence: None,
                            rng_algorithm: RngAlgorithm::ChaCha,
                            rng_seed: RngSeed::Fixed(h),
                            max_shrink_iters: 3000,
                            max_shrink_time: 0,
                            verbose: 0,
                            max_global_rejects: 1,
                            ..Config::default()
                        };
                        let mut runner = TestRunner::new(cfg);
                        let obs = RefCell::new(Obs::new());
                        let last_fail: RefCell<Option<Fail>> = RefCell::new(None);
                        let res = runner.run(&tape(tape_len), |data| {
                            let mut o = obs.borrow_mut();
                            o.eval();
                            match self.call(oracle, &data, &mut o) {
                                Ok(()) => Ok(()),
                                Err(f) => {
                                    o.frozen = true; // the closure re-runs during shrinking: stop counting
                                    let m = f.msg.clone();
                                    *last_fail.borrow_mut() = Some(f);
                                    Err(TestCaseError::fail(m))
                                }
                            }
                        });
                        let failure = match res {
                            Ok(()) => None,
                            Err(TestError::Fail(_, data)) => {
                                // re-judge the minimal tape to get its exact failure value
                                let mut o = Obs::new();
                                o.frozen = true;
                                let f = match self.call(oracle, &data, &mut o) {
                                    Err(f) => f,
                                    Ok(()) => last_fail.borrow().clone().unwrap_or(Fail { sig: "unstable".into(), msg: "failure did not reproduce on the shrunk tape".into() }),
                                };
                                Some(Failure { sub: sub.to_string(), fail: f, tape: data })
                            }
                            Err(TestError::Abort(why)) => Some(Failure {
                                sub: sub.to_string(),
                                fail: Fail { sig: "harness:abort".into(), msg: format!("proptest aborted: {}", why) },
                                tape: vec![],
                            }),
                        };
                        let mut o = obs.into_inner();
                        o.frozen = false;
                        (o, failure)
                    })
                })
                .collect();
            hs.into_iter().map(|h| h.join().expect("worker thread")).collect()
        });
        let mut obs = Obs::new();
        let mut fails = Vec::new();
        for (o, f) in results {
            obs.merge(o);
            if let Some(f) = f {
                fails.push(f);
            }
        }
        let mut out = self.out.lock().unwrap();
        out.subs.push(SubReport { name: sub.to_string(), exhaustive: false, obs, note: format!("{} generated tapes (<= {} bytes) on {} fixed workers", per * workers as u64, tape_len, workers) });
        // one failure per sub-check is enough (smallest tape first)
        fails.sort_by_key(|f| f.tape.len());
        if let Some(f) = fails.into_iter().next() {
            out.failures.push(f);
        }
    }

    /// enumerated search: the caller supplies every case as an explicit parameter tape
    pub fn run_enum<I>(&self, sub: &'static str, oracle: Oracle, exhaustive: bool, note: &str, cases: I)
    where
        I: Iterator<Item = Vec<u8>> + Send,
    {
        // chunk the iterator over worker threads deterministically (round-robin blocks)
        let workers = self.workers();
        let all: Vec<Vec<u8>> = cases.collect();
        let chunk = (all.len() + workers - 1) / workers.max(1);
        let results: Vec<(Obs, Option<Failure>)> = std::thread::scope(|s| {
            let hs: Vec<_> = all
                .chunks(chunk.max(1))
                .map(|part| {
                    s.spawn(move || {
                        let mut obs = Obs::new();
                        let mut failure = None;
                        for data in part {
                            obs.eval();
                            if let Err(f) = self.call(oracle, data, &mut obs) {
                                failure = Some(Failure { sub: sub.to_string(), fail: f, tape: data.clone() });
                                break;
                            }
                        }
                        (obs, failure)
                    })
                })
                .collect();
            hs.into_iter().map(|h| h.join().expect("worker thread")).collect()
        });
        let mut obs = Obs::new();
        let mut first = None;
        for (o, f) in results {
            obs.merge(o);
            if first.is_none() {
                first = f;
            }
        }
        let mut out = self.out.lock().unwrap();
        out.subs.push(SubReport { name: sub.to_string(), exhaustive, obs, note: note.to_string() });
        if let Some(f) = first {
            out.failures.push(f);
        }
    }

    /// a sub-check implemented as a plain function (its own loops); it reports through Obs
    pub fn run_fn(&self, sub: &'static str, exhaustive: bool, note: &str, f: impl FnOnce(&mut Obs) -> R) {
        let mut obs = Obs::new();
        let r = match guard("oracle", || f(&mut obs)) {
            Ok(r) => r,
            Err(f) => Err(f),
        };
        let mut out = self.out.lock().unwrap();
        if let Err(fl) = r {
            if self.is_known(&fl.sig) {
                *obs.tolerated.entry(fl.sig.clone()).or_insert(0) += 1;
            } else {
                out.failures.push(Failure { sub: sub.to_string(), fail: fl, tape: vec![] });
            }
        }
        out.subs.push(SubReport { name: sub.to_string(), exhaustive, obs, note: note.to_string() });
    }
}

pub fn sample_hex(label: &str, b: &[u8]) -> Value {
    json!({ "case": label, "hex": vmodel::wire::hex_short(b), "len": b.len() })
}

pub fn tape_hex(b: &[u8]) -> String {
    hex(b)
}

/// `Command::output()` for the long external steps (cargo builds, probe programs): the child's output is collected while the
/// no-progress watchdog is told that the run is alive (a build can take minutes on a loaded machine). A child that is still running
/// after `max_secs` is killed and reported as an infrastructure problem, never as a violation.
pub fn output_with_progress(cmd: &mut std::process::Command, max_secs: u64, pipe_stderr: bool) -> std::io::Result<std::process::Output> {
    use std::io::Read;
    use std::process::Stdio;
    // (stderr is left alone when the caller redirected it: the closed-stderr pass of C18 hands the child /dev/full)
    cmd.stdin(Stdio::null()).stdout(Stdio::piped());
    if pipe_stderr {
        cmd.stderr(Stdio::piped());
    }
    let mut child = cmd.spawn()?;
    let mut so = child.stdout.take();
    let mut se = child.stderr.take();
    let t1 = std::thread::spawn(move || {
        let mut v = Vec::new();
        if let Some(s) = so.as_mut() {
            let _ = s.read_to_end(&mut v);
        }
        v
    });
    let t2 = std::thread::spawn(move || {
        let mut v = Vec::new();
        if let Some(s) = se.as_mut() {
            let _ = s.read_to_end(&mut v);
        }
        v
    });
    let start = std::time::Instant::now();
    let status = loop {
        crate::alloc::progress();
        if let Some(st) = child.try_wait()? {
            break st;
        }
        if start.elapsed().as_secs() > max_secs {
            let _ = child.kill();
            let _ = child.wait();
            return Err(std::io::Error::new(std::io::ErrorKind::TimedOut, format!("child process still running after {} s: killed", max_secs)));
        }
        // short-lived children (probe programs) are noticed quickly, long builds are polled five times a second
        std::thread::sleep(std::time::Duration::from_millis(if start.elapsed().as_millis() < 300 { 2 } else { 200 }));
    };
    crate::alloc::progress();
    Ok(std::process::Output { status, stdout: t1.join().unwrap_or_default(), stderr: t2.join().unwrap_or_default() })
}
