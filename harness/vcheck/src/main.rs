//! vcheck: decides the properties C01..C18 of /verif/properties.jsonl for the tls-parser tree in /repo
//! by generated-input search against explicit oracles. See /verif/DESIGN.md.
//!
//!   vcheck check <Cxx> quick|thorough      run every sub-check of a property, write evidence/<Cxx>.json
//!   vcheck replay <file>                   re-run one saved case through the plain oracle (no proptest)
//!   vcheck list                            list properties and sub-checks

use vcheck::core::*;
use vcheck::{alloc, props};
use serde_json::{json, Value};
use std::collections::BTreeSet;
use std::path::PathBuf;
use std::sync::Mutex;
use std::time::Instant;

#[global_allocator]
static GLOBAL: alloc::Counting = alloc::Counting;

fn verif_dir() -> PathBuf {
    std::env::var("VERIF_DIR").map(PathBuf::from).unwrap_or_else(|_| PathBuf::from("/verif"))
}

fn load_known(prop: &str) -> (BTreeSet<String>, Vec<(String, String)>) {
    let mut open = BTreeSet::new();
    let mut descr = Vec::new();
    let p = verif_dir().join("known_findings.json");
    if let Ok(s) = std::fs::read_to_string(&p) {
        if let Ok(v) = serde_json::from_str::<Value>(&s) {
            for e in v["findings"].as_array().cloned().unwrap_or_default() {
                if e["property"] == prop && e["status"] == "open" {
                    if let Some(sig) = e["signature"].as_str() {
                        open.insert(sig.to_string());
                        descr.push((sig.to_string(), e["what"].as_str().unwrap_or("").to_string()));
                    }
                }
            }
        }
    }
    (open, descr)
}

fn main() {
    let args: Vec<String> = std::env::args().collect();
    install_panic_hook();
    match args.get(1).map(|s| s.as_str()) {
        Some("check") if args.len() >= 4 => {
            let code = cmd_check(&args[2], &args[3]);
            std::process::exit(code);
        }
        Some("replay") if args.len() >= 3 => {
            let code = cmd_replay(&args[2]);
            std::process::exit(code);
        }
        Some("list") => {
            for p in props::PROPS {
                println!("{} {}", p.id, p.title);
                for s in props::subs().iter().filter(|s| s.prop == p.id) {
                    println!("    {}", s.name);
                }
            }
        }
        Some("probe-names-concurrent") => {
            // the first by-name lookups of this process, made by several threads at the same moment (C12 `fresh_concurrent`)
            props::c12::probe_names_concurrent(args.get(2).and_then(|x| x.parse().ok()).unwrap_or(8));
        }
        Some("probe-registry") => {
            // the first thing this process does with the registry (C15 `fresh_process`): one line per id given on the command line
            props::c15::probe_registry(&args[2..]);
        }
        Some("gen-corpus") if args.len() >= 3 => {
            let seed: u64 = std::env::var("VERIF_SEED").ok().and_then(|s| s.trim().parse::<i128>().ok()).map(|v| v as u64).unwrap_or(0);
            props::gen_corpus(&args[2], seed);
        }
        _ => {
            eprintln!("usage: vcheck check <Cxx> quick|thorough | replay <file> | list | gen-corpus <dir>");
            std::process::exit(2);
        }
    }
}

fn cmd_check(prop: &str, tier: &str) -> i32 {
    let def = match props::PROPS.iter().find(|p| p.id == prop) {
        Some(d) => d,
        None => {
            eprintln!("unknown property {}", prop);
            return 2;
        }
    };
    let tier = match tier {
        "quick" => Tier::Quick,
        "thorough" => Tier::Thorough,
        _ => {
            eprintln!("tier must be quick or thorough");
            return 2;
        }
    };
    let seed: u64 = std::env::var("VERIF_SEED").ok().and_then(|s| s.trim().parse::<i128>().ok()).map(|v| v as u64).unwrap_or(0);
    let (known_open, known_descr) = load_known(def.id);
    let ctx = Ctx { tier, seed, prop: def.id, known_open, out: Mutex::new(PropOut::default()) };
    let t0 = Instant::now();
    alloc::watchdog_start(def.id);
    (def.run)(&ctx);
    alloc::watchdog_stop();
    let wall = t0.elapsed().as_secs_f64();
    let out = ctx.out.into_inner().unwrap();

    // ---- evidence
    let mut evals = 0u64;
    let mut nontriv = 0u64;
    let mut samples: Vec<Value> = Vec::new();
    let mut subs_json = Vec::new();
    let mut tolerated: std::collections::BTreeMap<String, u64> = Default::default();
    let mut all_exh = !out.subs.is_empty();
    let mut exh_names = Vec::new();
    for s in &out.subs {
        evals += s.obs.evals;
        nontriv += s.obs.nontrivial.len() as u64;
        all_exh &= s.exhaustive;
        if s.exhaustive {
            exh_names.push(s.name.clone());
        }
        for smp in s.obs.samples.iter().take(3) {
            samples.push(json!({ "sub_check": s.name, "sample": smp }));
        }
        for (k, v) in &s.obs.tolerated {
            *tolerated.entry(k.clone()).or_insert(0) += v;
        }
        subs_json.push(json!({
            "name": s.name, "evaluations": s.obs.evals, "distinct_nontrivial": s.obs.nontrivial.len(),
            "exhaustive": s.exhaustive, "how": s.note, "classes": s.obs.classes,
        }));
    }
    if samples.is_empty() {
        samples.push(json!("no sample recorded"));
    }
    let mut violations = 0;
    let mut lines = Vec::new();
    let replay_dir = verif_dir().join("replays");
    let _ = std::fs::create_dir_all(&replay_dir);
    let mut infra = 0;
    for f in &out.failures {
        if f.fail.sig.starts_with("harness:") {
            // the harness could not do its job (probe package does not compile after an API change, cargo missing, ...): inconclusive, never a violation
            infra += 1;
            eprintln!("[{}] sub-check {} INCONCLUSIVE (harness problem): {}\n    signature: {}", def.id, f.sub, f.fail.msg, f.fail.sig);
            continue;
        }
        violations += 1;
        let name = format!("{}-{}-{:016x}.json", def.id, f.sub.replace(|c: char| !c.is_alphanumeric(), "_"), vmodel::wire::fnv64(&f.tape) ^ vmodel::wire::fnv64(f.fail.sig.as_bytes()));
        let path = replay_dir.join(name);
        let body = json!({
            "property": def.id, "sub_check": f.sub, "seed": seed as i64, "tier": format!("{:?}", tier),
            "tape_hex": tape_hex(&f.tape), "signature": f.fail.sig, "message": f.fail.msg,
        });
        let _ = std::fs::write(&path, serde_json::to_string_pretty(&body).unwrap());
        lines.push(format!("VIOLATION property={} replay={}", def.id, path.display()));
        eprintln!("[{}] sub-check {} FAILED: {}\n    signature: {}", def.id, f.sub, f.fail.msg, f.fail.sig);
    }
    for (sig, what) in &known_descr {
        println!("KNOWN-FINDING: property={} {} ({}; tolerated {} time(s) in this run)", def.id, sig, what, tolerated.get(sig).copied().unwrap_or(0));
    }
    let ev = json!({
        "property_id": def.id,
        "tier": if tier == Tier::Quick { "quick" } else { "thorough" },
        "seed": seed as i64,
        "level": "exploration",
        "coverage": {
            "evaluations": evals,
            "distinct_nontrivial": nontriv,
            "rule": def.rule,
            "samples": samples,
            "exhaustive": all_exh,
            "exhaustive_sub_checks": exh_names,
            "sub_checks": subs_json,
            "known_findings_tolerated": tolerated,
        },
        "assumptions": def.assumptions,
        "wall_s": wall,
        "violations": violations,
    });
    // a secondary run (other build profile of the harness, VERIF_SKIP_EVIDENCE set) keeps the evidence file of the primary run
    if std::env::var("VERIF_SKIP_EVIDENCE").is_err() {
        let evdir = verif_dir().join("evidence");
        let _ = std::fs::create_dir_all(&evdir);
        let evpath = evdir.join(format!("{}.json", def.id));
        if let Err(e) = std::fs::write(&evpath, serde_json::to_string_pretty(&ev).unwrap()) {
            eprintln!("cannot write evidence {}: {}", evpath.display(), e);
            return 2;
        }
    }
    for s in &out.subs {
        eprintln!("[{}] {:<28} evals={:<9} nontrivial={:<8} {}", def.id, s.name, s.obs.evals, s.obs.nontrivial.len(), if s.exhaustive { "exhaustive" } else { "" });
    }
    eprintln!("[{}] {} tier, seed {}, {:.1}s, {} evaluations, {} violation(s)", def.id, if tier == Tier::Quick { "quick" } else { "thorough" }, seed, wall, evals, violations);
    for l in &lines {
        println!("{}", l);
    }
    if violations > 0 {
        1
    } else if infra > 0 {
        2
    } else {
        0
    }
}

fn cmd_replay(path: &str) -> i32 {
    let s = match std::fs::read_to_string(path) {
        Ok(s) => s,
        Err(e) => {
            eprintln!("cannot read {}: {}", path, e);
            return 2;
        }
    };
    let v: Value = match serde_json::from_str(&s) {
        Ok(v) => v,
        Err(e) => {
            eprintln!("bad replay file: {}", e);
            return 2;
        }
    };
    let prop = v["property"].as_str().unwrap_or("");
    let sub = v["sub_check"].as_str().unwrap_or("");
    let data = vmodel::wire::unhex(v["tape_hex"].as_str().unwrap_or("")).unwrap_or_default();
    let subs = props::subs();
    let def = match subs.iter().find(|d| d.prop == prop && d.name == sub) {
        Some(d) => d,
        None => {
            eprintln!("no sub-check {}/{} (function-style sub-checks are replayed by running the check itself)", prop, sub);
            return 2;
        }
    };
    let pdef = props::PROPS.iter().find(|p| p.id == prop).unwrap();
    // strict mode: known findings are not tolerated in a replay
    let ctx = Ctx { tier: Tier::Quick, seed: 0, prop: pdef.id, known_open: BTreeSet::new(), out: Mutex::new(PropOut::default()) };
    let mut obs = Obs::new();
    match ctx.call(def.oracle, &data, &mut obs) {
        Ok(()) => {
            println!("replay {}/{}: property holds on this case", prop, sub);
            0
        }
        Err(f) => {
            eprintln!("replay {}/{}: {}\n    signature: {}", prop, sub, f.msg, f.sig);
            println!("VIOLATION property={} replay={}", prop, path);
            1
        }
    }
}
