//! Conversion of values returned by the crate under test into the harness's own model values,
//! field by field (so comparisons do not rely on the crate's PartialEq impls).

use tls_parser::*;
use vmodel::model::*;

fn ov(o: Option<&[u8]>) -> Option<Vec<u8>> {
    o.map(|s| s.to_vec())
}

pub fn hs(m: &TlsMessageHandshake) -> MHs {
    match m {
        TlsMessageHandshake::HelloRequest => MHs::HelloRequest,
        TlsMessageHandshake::ClientHello(c) => MHs::ClientHello {
            version: c.version.0,
            random: c.random.to_vec(),
            sid: ov(c.session_id),
            ciphers: c.ciphers.iter().map(|x| x.0).collect(),
            comp: c.comp.iter().map(|x| x.0).collect(),
            ext: ov(c.ext),
        },
        TlsMessageHandshake::ServerHello(s) => MHs::ServerHello {
            version: s.version.0,
            random: s.random.to_vec(),
            sid: ov(s.session_id),
            cipher: s.cipher.0,
            comp: s.compression.0,
            ext: ov(s.ext),
        },
        TlsMessageHandshake::ServerHelloV13Draft18(s) => MHs::ServerHelloD18 { version: s.version.0, random: s.random.to_vec(), cipher: s.cipher.0, ext: ov(s.ext) },
        TlsMessageHandshake::NewSessionTicket(t) => MHs::NewSessionTicket { lifetime: t.ticket_lifetime_hint, ticket: t.ticket.to_vec() },
        TlsMessageHandshake::EndOfEarlyData => MHs::EndOfEarlyData,
        TlsMessageHandshake::HelloRetryRequest(h) => MHs::HelloRetryRequest { version: h.version.0, cipher: h.cipher.0, ext: ov(h.ext) },
        TlsMessageHandshake::Certificate(c) => MHs::Certificate { chain: c.cert_chain.iter().map(|x| x.data.to_vec()).collect() },
        TlsMessageHandshake::ServerKeyExchange(s) => MHs::ServerKeyExchange(s.parameters.to_vec()),
        TlsMessageHandshake::CertificateRequest(c) => {
            MHs::CertificateRequest { types: c.cert_types.clone(), sigalgs: c.sig_hash_algs.clone(), cas: c.unparsed_ca.iter().map(|x| x.to_vec()).collect() }
        }
        TlsMessageHandshake::ServerDone(b) => MHs::ServerDone(b.to_vec()),
        TlsMessageHandshake::CertificateVerify(b) => MHs::CertificateVerify(b.to_vec()),
        TlsMessageHandshake::ClientKeyExchange(c) => MHs::ClientKeyExchange(cke(c)),
        TlsMessageHandshake::Finished(b) => MHs::Finished(b.to_vec()),
        TlsMessageHandshake::CertificateStatus(s) => MHs::CertificateStatus { ty: s.status_type, blob: s.blob.to_vec() },
        TlsMessageHandshake::NextProtocol(n) => MHs::NextProtocol { proto: n.selected_protocol.to_vec(), padding: n.padding.to_vec() },
        TlsMessageHandshake::KeyUpdate(v) => MHs::KeyUpdate(*v),
        #[allow(unreachable_patterns)]
        _ => MHs::ServerKeyExchange(b"<variant unknown to the harness>".to_vec()),
    }
}

/// a parsed ClientKeyExchange is always the opaque body (`Unknown`): the parsers never produce `Dh` / `Ecdh`, so when one of them shows
/// up in a parsed value the model value is marked (a different variant is a different value, even if it would serialize to the same bytes)
pub fn cke(c: &TlsClientKeyExchangeContents) -> Vec<u8> {
    match c {
        TlsClientKeyExchangeContents::Unknown(b) => b.to_vec(),
        TlsClientKeyExchangeContents::Dh(b) => {
            let mut v = b"<variant Dh instead of the opaque body>".to_vec();
            v.extend_from_slice(b);
            v
        }
        TlsClientKeyExchangeContents::Ecdh(p) => {
            let mut v = b"<variant Ecdh instead of the opaque body>".to_vec();
            v.extend_from_slice(p.point);
            v
        }
        #[allow(unreachable_patterns)]
        _ => b"<variant unknown to the harness>".to_vec(),
    }
}

pub fn msg(m: &TlsMessage) -> MMsg {
    match m {
        TlsMessage::Handshake(h) => MMsg::Hs(hs(h)),
        TlsMessage::ChangeCipherSpec => MMsg::Ccs,
        TlsMessage::Alert(a) => MMsg::Alert(a.severity.0, a.code.0),
        TlsMessage::ApplicationData(d) => MMsg::AppData(d.blob.to_vec()),
        TlsMessage::Heartbeat(h) => MMsg::Heartbeat { ty: h.heartbeat_type.0, payload_len: h.payload_len, payload: h.payload.to_vec() },
        #[allow(unreachable_patterns)]
        _ => MMsg::AppData(b"<variant unknown to the harness>".to_vec()),
    }
}

pub fn msgs(v: &[TlsMessage]) -> Vec<MMsg> {
    v.iter().map(msg).collect()
}

pub fn ext(e: &TlsExtension) -> MExt {
    match e {
        TlsExtension::SNI(l) => MExt::Sni(l.iter().map(|(t, n)| (t.0, n.to_vec())).collect()),
        TlsExtension::MaxFragmentLength(v) => MExt::MaxFragmentLength(*v),
        TlsExtension::StatusRequest(o) => MExt::StatusRequest(o.map(|(t, d)| (t.0, d.to_vec()))),
        TlsExtension::EllipticCurves(l) => MExt::EllipticCurves(l.iter().map(|g| g.0).collect()),
        TlsExtension::EcPointFormats(v) => MExt::EcPointFormats(v.to_vec()),
        TlsExtension::SignatureAlgorithms(l) => MExt::SignatureAlgorithms(l.clone()),
        TlsExtension::RecordSizeLimit(v) => MExt::RecordSizeLimit(*v),
        TlsExtension::SessionTicket(v) => MExt::SessionTicket(v.to_vec()),
        TlsExtension::KeyShareOld(v) => MExt::KeyShareOld(v.to_vec()),
        TlsExtension::KeyShare(v) => MExt::KeyShare(v.to_vec()),
        TlsExtension::PreSharedKey(v) => MExt::PreSharedKey(v.to_vec()),
        TlsExtension::EarlyData(o) => MExt::EarlyData(*o),
        TlsExtension::SupportedVersions(l) => MExt::SupportedVersions(l.iter().map(|v| v.0).collect(), false),
        TlsExtension::Cookie(v) => MExt::Cookie(v.to_vec()),
        TlsExtension::PskExchangeModes(v) => MExt::PskExchangeModes(v.clone()),
        TlsExtension::Heartbeat(v) => MExt::Heartbeat(*v),
        TlsExtension::ALPN(l) => MExt::Alpn(l.iter().map(|p| p.to_vec()).collect()),
        TlsExtension::SignedCertificateTimestamp(o) => MExt::Sct(ov(*o)),
        TlsExtension::Padding(v) => MExt::Padding(v.to_vec()),
        TlsExtension::EncryptThenMac => MExt::EncryptThenMac,
        TlsExtension::ExtendedMasterSecret => MExt::ExtendedMasterSecret,
        TlsExtension::OidFilters(l) => MExt::OidFilters(l.iter().map(|f| (f.cert_ext_oid.to_vec(), f.cert_ext_val.to_vec())).collect()),
        TlsExtension::PostHandshakeAuth => MExt::PostHandshakeAuth,
        TlsExtension::NextProtocolNegotiation => MExt::NextProtocolNegotiation,
        TlsExtension::RenegotiationInfo(v) => MExt::RenegotiationInfo(v.to_vec()),
        TlsExtension::EncryptedServerName { ciphersuite, group, key_share, record_digest, encrypted_sni } => MExt::Esni {
            cipher: ciphersuite.0,
            group: group.0,
            key_share: key_share.to_vec(),
            record_digest: record_digest.to_vec(),
            encrypted_sni: encrypted_sni.to_vec(),
        },
        TlsExtension::Grease(t, d) => MExt::Grease(*t, d.to_vec()),
        TlsExtension::Unknown(t, d) => MExt::Unknown(t.0, d.to_vec()),
        #[allow(unreachable_patterns)]
        _ => MExt::Unknown(0xffff, b"<variant unknown to the harness>".to_vec()),
    }
}

pub fn exts(v: &[TlsExtension]) -> Vec<MExt> {
    v.iter().map(ext).collect()
}

pub fn dtls_body(b: &DTLSMessageHandshakeBody) -> Option<MDtlsBody> {
    Some(match b {
        DTLSMessageHandshakeBody::ClientHello(c) => MDtlsBody::ClientHello {
            version: c.version.0,
            random: c.random.to_vec(),
            sid: ov(c.session_id),
            cookie: c.cookie.to_vec(),
            ciphers: c.ciphers.iter().map(|x| x.0).collect(),
            comp: c.comp.iter().map(|x| x.0).collect(),
            ext: ov(c.ext),
        },
        DTLSMessageHandshakeBody::HelloVerifyRequest(h) => MDtlsBody::HelloVerifyRequest { version: h.server_version.0, cookie: h.cookie.to_vec() },
        DTLSMessageHandshakeBody::ServerHello(s) => {
            MDtlsBody::ServerHello { version: s.version.0, random: s.random.to_vec(), sid: ov(s.session_id), cipher: s.cipher.0, comp: s.compression.0, ext: ov(s.ext) }
        }
        DTLSMessageHandshakeBody::Certificate(c) => MDtlsBody::Certificate { chain: c.cert_chain.iter().map(|x| x.data.to_vec()).collect() },
        DTLSMessageHandshakeBody::ServerDone(b) => MDtlsBody::ServerDone(b.to_vec()),
        DTLSMessageHandshakeBody::ClientKeyExchange(c) => MDtlsBody::ClientKeyExchange(cke(c)),
        DTLSMessageHandshakeBody::Fragment(b) => MDtlsBody::Fragment(b.to_vec()),
        _ => return None,
    })
}

pub fn dtls_msg(m: &DTLSMessage) -> Option<MDtlsMsg> {
    Some(match m {
        DTLSMessage::Handshake(h) => MDtlsMsg::Hs(MDtlsHs {
            msg_type: h.msg_type.0,
            length: h.length,
            message_seq: h.message_seq,
            fragment_offset: h.fragment_offset,
            fragment_length: h.fragment_length,
            body: dtls_body(&h.body)?,
        }),
        DTLSMessage::ChangeCipherSpec => MDtlsMsg::Ccs,
        DTLSMessage::Alert(a) => MDtlsMsg::Alert(a.severity.0, a.code.0),
        _ => return None,
    })
}

pub fn dtls_record(r: &DTLSPlaintext) -> Option<MDtlsRecord> {
    let mut msgs = Vec::new();
    for m in &r.messages {
        msgs.push(dtls_msg(m)?);
    }
    Some(MDtlsRecord { ctype: r.header.content_type.0, version: r.header.version.0, epoch: r.header.epoch, seq: r.header.sequence_number, msgs })
}

pub fn dh(d: &ServerDHParams) -> MDh {
    MDh { p: d.dh_p.to_vec(), g: d.dh_g.to_vec(), ys: d.dh_ys.to_vec() }
}

pub fn ec_params(p: &ECParameters) -> (u8, MEcParams) {
    let m = match &p.params_content {
        ECParametersContent::NamedGroup(g) => MEcParams::Named(g.0),
        ECParametersContent::ExplicitPrime(e) => MEcParams::ExplicitPrime {
            p: e.prime_p.to_vec(),
            a: e.curve.a.to_vec(),
            b: e.curve.b.to_vec(),
            base: e.base.point.to_vec(),
            order: e.order.to_vec(),
            cofactor: e.cofactor.to_vec(),
        },
        #[allow(unreachable_patterns)]
        _ => MEcParams::ExplicitPrime { p: b"<variant unknown to the harness>".to_vec(), a: vec![], b: vec![], base: vec![], order: vec![], cofactor: vec![] },
    };
    (p.curve_type.0, m)
}

pub fn ecdh(p: &ServerECDHParams) -> (u8, MEcdh) {
    let (ct, params) = ec_params(&p.curve_params);
    (ct, MEcdh { params, public: p.public.point.to_vec() })
}

pub fn signed(s: &DigitallySigned) -> MSigned {
    MSigned { alg: s.alg.as_ref().map(|a| (a.hash.0, a.sign.0)), data: s.data.to_vec() }
}

pub fn sct(s: &SignedCertificateTimestamp) -> MSct {
    let sg = signed(&s.signature);
    MSct {
        version: s.version.0,
        id: s.id.key_id.to_vec(),
        timestamp: s.timestamp,
        extensions: s.extensions.0.to_vec(),
        hash: sg.alg.map(|a| a.0).unwrap_or(0),
        sign: sg.alg.map(|a| a.1).unwrap_or(0),
        alg_present: sg.alg.is_some(),
        signature: sg.data,
    }
}
