//! Reference reading of scripts/tls-ciphersuites.txt: explicit token tables (no title-casing logic
//! shared with the crate's build.rs) and the rules tying parameters to the tokens of the IANA name.

#[derive(Clone, Debug, PartialEq, Eq)]
pub struct Row {
    pub id: u16,
    pub name: String,
    /// names of the Rust enum variants the tokens stand for
    pub kx: &'static str,
    pub au: &'static str,
    pub enc: &'static str,
    pub mode: &'static str,
    pub enc_size: u16,
    pub mac: &'static str,
    pub mac_size: u16,
    pub prf: &'static str,
    /// raw tokens, for messages
    pub raw: Vec<String>,
}

const KX: &[(&str, &str)] = &[
    ("NULL", "Null"), ("PSK", "Psk"), ("KRB5", "Krb5"), ("SRP", "Srp"), ("RSA", "Rsa"), ("DH", "Dh"), ("DHE", "Dhe"), ("ECDH", "Ecdh"),
    ("ECDHE", "Ecdhe"), ("AECDH", "Aecdh"), ("ECCPWD", "Eccpwd"), ("TLS13", "Tls13"),
];
const AU: &[(&str, &str)] = &[
    ("NULL", "Null"), ("PSK", "Psk"), ("KRB5", "Krb5"), ("SRP", "Srp"), ("SRP+DSS", "Srp_Dss"), ("SRP+RSA", "Srp_Rsa"), ("DSS", "Dss"), ("RSA", "Rsa"),
    ("DHE", "Dhe"), ("ECDSA", "Ecdsa"), ("ECCPWD", "Eccpwd"), ("TLS13", "Tls13"),
];
const ENC: &[(&str, &str)] = &[
    ("NULL", "Null"), ("DES", "Des"), ("3DES", "TripleDes"), ("RC2", "Rc2"), ("RC4", "Rc4"), ("ARIA", "Aria"), ("IDEA", "Idea"), ("SEED", "Seed"),
    ("AES", "Aes"), ("CAMELLIA", "Camellia"), ("CHACHA20_POLY1305", "Chacha20_Poly1305"), ("SM4", "Sm4"), ("AEGIS", "Aegis"),
];
const MODE: &[(&str, &str)] = &[("", "Null"), ("NULL", "Null"), ("CBC", "Cbc"), ("CCM", "Ccm"), ("GCM", "Gcm")];
const MAC: &[(&str, &str)] = &[
    ("NULL", "Null"), ("HMAC-MD5", "HmacMd5"), ("HMAC-SHA1", "HmacSha1"), ("HMAC-SHA256", "HmacSha256"), ("HMAC-SHA384", "HmacSha384"),
    ("HMAC-SHA512", "HmacSha512"), ("AEAD", "Aead"),
];
const PRF: &[(&str, &str)] = &[
    ("DEFAULT", "Default"), ("NULL", "Null"), ("MD5ANDSHA1", "Md5AndSha1"), ("SHA1", "Sha1"), ("SHA256", "Sha256"), ("SHA384", "Sha384"),
    ("SHA512", "Sha512"), ("SM3", "Sm3"),
];

fn look(tab: &[(&str, &'static str)], tok: &str, col: &str, line: usize) -> Result<&'static str, String> {
    tab.iter().find(|e| e.0 == tok).map(|e| e.1).ok_or_else(|| format!("line {}: token {:?} of column {} is not in the harness's table", line, tok, col))
}

pub fn parse(text: &str) -> Result<Vec<Row>, String> {
    let mut rows = Vec::new();
    for (n, l) in text.lines().enumerate() {
        if l.trim().is_empty() {
            continue;
        }
        let v: Vec<&str> = l.split(':').collect();
        if v.len() < 10 {
            return Err(format!("line {}: {} columns", n + 1, v.len()));
        }
        let id = u16::from_str_radix(v[0], 16).map_err(|e| format!("line {}: id {:?}: {}", n + 1, v[0], e))?;
        rows.push(Row {
            id,
            name: v[1].to_string(),
            kx: look(KX, v[2], "kx", n + 1)?,
            au: look(AU, v[3], "au", n + 1)?,
            enc: look(ENC, v[4], "enc", n + 1)?,
            mode: look(MODE, v[5], "mode", n + 1)?,
            enc_size: v[6].parse().map_err(|e| format!("line {}: enc size {:?}: {}", n + 1, v[6], e))?,
            mac: look(MAC, v[7], "mac", n + 1)?,
            mac_size: v[8].parse().map_err(|e| format!("line {}: mac size {:?}: {}", n + 1, v[8], e))?,
            prf: look(PRF, v[9], "prf", n + 1)?,
            raw: v.iter().take(10).map(|s| s.to_string()).collect(),
        });
    }
    Ok(rows)
}

/// what the algorithm tokens of an IANA name state (None = the name carries no such token)
#[derive(Debug, Default, PartialEq)]
pub struct NameFacts {
    pub kx_au: Option<(&'static str, &'static str)>,
    pub enc: Option<&'static str>,
    pub enc_size: Option<u16>,
    pub mode: Option<&'static str>,
    /// MAC variant stated by the trailing hash token (only meaningful for non-AEAD suites)
    pub trailing_hash_mac: Option<&'static str>,
    /// PRF variant stated by the trailing hash token of an AEAD suite
    pub trailing_hash_prf: Option<&'static str>,
}

const PREFIX: &[(&str, &str, &str)] = &[
    ("TLS_ECDHE_ECDSA_", "Ecdhe", "Ecdsa"), ("TLS_ECDHE_RSA_", "Ecdhe", "Rsa"), ("TLS_ECDHE_PSK_", "Ecdhe", "Psk"), ("TLS_ECDH_ECDSA_", "Ecdh", "Ecdsa"),
    ("TLS_ECDH_RSA_", "Ecdh", "Rsa"), ("TLS_ECDH_anon_", "Ecdh", "Null"), ("TLS_DHE_DSS_", "Dhe", "Dss"), ("TLS_DHE_RSA_", "Dhe", "Rsa"),
    ("TLS_DHE_PSK_", "Dhe", "Psk"), ("TLS_DH_DSS_", "Dh", "Dss"), ("TLS_DH_RSA_", "Dh", "Rsa"), ("TLS_DH_anon_", "Dh", "Null"), ("TLS_RSA_PSK_", "Rsa", "Psk"),
    ("TLS_RSA_", "Rsa", "Rsa"), ("TLS_PSK_DHE_", "Dhe", "Psk"), ("TLS_PSK_", "Psk", "Psk"), ("TLS_KRB5_", "Krb5", "Krb5"), ("TLS_SRP_SHA_RSA_", "Srp", "Srp_Rsa"),
    ("TLS_SRP_SHA_DSS_", "Srp", "Srp_Dss"), ("TLS_SRP_SHA_", "Srp", "Srp"), ("TLS_ECCPWD_", "Eccpwd", "Eccpwd"), ("TLS_NULL_", "Null", "Null"),
];

/// (token at the start of the cipher part, enc variant, key size if the token states one)
const CIPHER_TOK: &[(&str, &str, Option<u16>)] = &[
    ("3DES_EDE", "TripleDes", None), ("AES_128", "Aes", Some(128)), ("AES_256", "Aes", Some(256)), ("ARIA_128", "Aria", Some(128)), ("ARIA_256", "Aria", Some(256)),
    ("CAMELLIA_128", "Camellia", Some(128)), ("CAMELLIA_256", "Camellia", Some(256)), ("CHACHA20_POLY1305", "Chacha20_Poly1305", None),
    ("DES40", "Des", Some(40)), ("DES_CBC_40", "Des", Some(40)), ("DES", "Des", None), ("IDEA", "Idea", None), ("RC2_CBC_40", "Rc2", Some(40)),
    ("RC2_CBC_56", "Rc2", Some(56)), ("RC4_40", "Rc4", Some(40)), ("RC4_56", "Rc4", Some(56)), ("RC4_128", "Rc4", Some(128)), ("SEED", "Seed", None),
    ("SM4", "Sm4", None), ("AEGIS_256", "Aegis", Some(256)), ("AEGIS_128L", "Aegis", Some(128)), ("NULL", "Null", None),
];

pub fn name_facts(name: &str) -> NameFacts {
    let mut f = NameFacts::default();
    let rest: &str;
    if let Some(p) = name.find("_WITH_") {
        rest = &name[p + 6..];
        for &(pre, k, a) in PREFIX {
            if name.starts_with(pre) {
                f.kx_au = Some((k, a));
                break;
            }
        }
    } else if name.ends_with("_SCSV") {
        return f; // signalling values: no algorithm tokens at all
    } else {
        rest = name.strip_prefix("TLS_").unwrap_or(name);
        f.kx_au = Some(("Tls13", "Tls13"));
    }
    for &(tok, e, s) in CIPHER_TOK {
        if rest.starts_with(tok) {
            f.enc = Some(e);
            f.enc_size = s;
            break;
        }
    }
    f.mode = if rest.contains("_GCM") {
        Some("Gcm")
    } else if rest.contains("_CCM") {
        Some("Ccm")
    } else if rest.contains("_CBC") {
        Some("Cbc")
    } else {
        None
    };
    let last = rest.rsplit('_').next().unwrap_or("");
    f.trailing_hash_mac = match last {
        "MD5" => Some("HmacMd5"),
        "SHA" => Some("HmacSha1"),
        "SHA256" => Some("HmacSha256"),
        "SHA384" => Some("HmacSha384"),
        "SHA512" => Some("HmacSha512"),
        _ => None,
    };
    f.trailing_hash_prf = match last {
        "SHA256" => Some("Sha256"),
        "SHA384" => Some("Sha384"),
        "SHA512" => Some("Sha512"),
        "SM3" => Some("Sm3"),
        _ => None,
    };
    f
}

/// block size in bytes per the statement: 8 for DES/3DES/IDEA/RC2, 16 for AES/ARIA/Camellia/SEED/SM4, 0 otherwise
pub fn block_size(enc: &str) -> usize {
    match enc {
        "Des" | "TripleDes" | "Idea" | "Rc2" => 8,
        "Aes" | "Aria" | "Camellia" | "Seed" | "Sm4" => 16,
        _ => 0,
    }
}

/// MAC length in bytes per the statement
pub fn mac_len(mac: &str) -> usize {
    match mac {
        "HmacMd5" => 16,
        "HmacSha1" => 20,
        "HmacSha256" => 32,
        "HmacSha384" => 48,
        "HmacSha512" => 64,
        _ => 0,
    }
}
