//! Reference model of the handshake state machine, transcribed from the flows the property names
//! (and the crate's README/doc): an explicit edge list plus the global rules. No access to the crate.

pub const STATE_NAMES: [&str; 25] = [
    "None", "ClientHello", "AskResumeSession", "ResumeSession", "ServerHello", "Certificate", "CertificateSt", "ServerKeyExchange",
    "ServerHelloDone", "ClientKeyExchange", "ClientChangeCipherSpec", "CRCertRequest", "CRHelloDone", "CRCert", "CRClientKeyExchange",
    "CRCertVerify", "NoCertSKE", "NoCertHelloDone", "NoCertCKE", "PskHelloDone", "PskCKE", "SessionEncrypted", "Alert", "Finished", "Invalid",
];

pub fn st(name: &str) -> usize {
    STATE_NAMES.iter().position(|n| *n == name).expect("state name")
}

/// message kinds the outcome may depend on
#[derive(Clone, Copy, Debug, PartialEq, Eq, Hash)]
pub enum Kind {
    /// handshake message: index into model::MHs kinds (0..17); for ClientHello the bool is "has a session id"
    Hs(usize, bool),
    Ccs,
    /// alert with the given severity byte
    Alert(u8),
    AppData,
    Heartbeat,
}

// handshake kind indices (model::MHs::kind_index)
pub const HELLO_REQUEST: usize = 0;
pub const CLIENT_HELLO: usize = 1;
pub const SERVER_HELLO: usize = 2;
pub const SERVER_HELLO_D18: usize = 3;
pub const NEW_SESSION_TICKET: usize = 4;
pub const CERTIFICATE: usize = 7;
pub const SERVER_KEY_EXCHANGE: usize = 8;
pub const CERTIFICATE_REQUEST: usize = 9;
pub const SERVER_DONE: usize = 10;
pub const CERTIFICATE_VERIFY: usize = 11;
pub const CLIENT_KEY_EXCHANGE: usize = 12;
pub const CERTIFICATE_STATUS: usize = 14;

/// (from, handshake kind, sent by client (to_server), to)
pub const HS_EDGES: &[(&str, usize, bool, &str)] = &[
    // full handshake, server certificate
    ("ClientHello", SERVER_HELLO, false, "ServerHello"),
    ("ServerHello", CERTIFICATE, false, "Certificate"),
    ("Certificate", SERVER_KEY_EXCHANGE, false, "ServerKeyExchange"),
    ("Certificate", CERTIFICATE_STATUS, false, "CertificateSt"),
    ("CertificateSt", SERVER_KEY_EXCHANGE, false, "ServerKeyExchange"),
    ("ServerKeyExchange", SERVER_DONE, false, "ServerHelloDone"),
    ("ServerHelloDone", CLIENT_KEY_EXCHANGE, true, "ClientKeyExchange"),
    // client certificate requested
    ("Certificate", CERTIFICATE_REQUEST, false, "CRCertRequest"),
    ("ServerKeyExchange", CERTIFICATE_REQUEST, false, "CRCertRequest"),
    ("CRCertRequest", SERVER_DONE, false, "CRHelloDone"),
    ("CRHelloDone", CERTIFICATE, true, "CRCert"),
    ("CRCert", CLIENT_KEY_EXCHANGE, true, "CRClientKeyExchange"),
    ("CRClientKeyExchange", CERTIFICATE_VERIFY, true, "CRCertVerify"),
    // anonymous server
    ("ServerHello", SERVER_KEY_EXCHANGE, false, "NoCertSKE"),
    ("NoCertSKE", SERVER_DONE, false, "NoCertHelloDone"),
    ("NoCertHelloDone", CLIENT_KEY_EXCHANGE, true, "NoCertCKE"),
    // key exchange without ServerKeyExchange
    ("Certificate", SERVER_DONE, false, "PskHelloDone"),
    ("PskHelloDone", CLIENT_KEY_EXCHANGE, true, "PskCKE"),
    // session resumption and its fallback to a full handshake
    ("AskResumeSession", SERVER_HELLO, false, "ResumeSession"),
    ("ResumeSession", CERTIFICATE, false, "Certificate"),
    // TLS 1.3 draft 18 1-RTT
    ("ClientHello", SERVER_HELLO_D18, false, "ClientChangeCipherSpec"),
    // post-CCS NewSessionTicket
    ("ClientChangeCipherSpec", NEW_SESSION_TICKET, false, "ClientChangeCipherSpec"),
];

/// ChangeCipherSpec rows: (from, direction constraint: None = either, to)
pub const CCS_EDGES: &[(&str, Option<bool>, &str)] = &[
    ("ClientKeyExchange", None, "ClientChangeCipherSpec"),
    ("ClientChangeCipherSpec", Some(false), "SessionEncrypted"),
    ("CRClientKeyExchange", None, "ClientChangeCipherSpec"),
    ("CRCertVerify", None, "ClientChangeCipherSpec"),
    ("NoCertCKE", None, "ClientChangeCipherSpec"),
    ("PskCKE", None, "ClientChangeCipherSpec"),
    ("ResumeSession", None, "ClientChangeCipherSpec"),
    // 0-RTT: the client's CCS right after its hello
    ("AskResumeSession", Some(true), "AskResumeSession"),
];

/// expected outcome: Ok(next state) or Err(()) = InvalidTransition
pub fn expected(state: usize, kind: Kind, to_server: bool) -> Result<usize, ()> {
    let name = STATE_NAMES[state];
    // absorbing states first; Finished always moves to Invalid
    match name {
        "Invalid" => return Ok(st("Invalid")),
        "SessionEncrypted" => return Ok(st("SessionEncrypted")),
        "Finished" => return Ok(st("Invalid")),
        _ => {}
    }
    match kind {
        Kind::Hs(k, has_sid) => {
            if k == HELLO_REQUEST {
                // ignored in every state except None
                return if name == "None" { Err(()) } else { Ok(state) };
            }
            if k == CLIENT_HELLO {
                return if name == "None" && to_server { Ok(st(if has_sid { "AskResumeSession" } else { "ClientHello" })) } else { Err(()) };
            }
            for &(from, hk, dir, to) in HS_EDGES {
                if from == name && hk == k && dir == to_server {
                    return Ok(st(to));
                }
            }
            Err(())
        }
        Kind::Ccs => {
            for &(from, dir, to) in CCS_EDGES {
                if from == name && dir.map_or(true, |d| d == to_server) {
                    return Ok(st(to));
                }
            }
            Err(())
        }
        Kind::Alert(sev) => {
            if sev == 1 {
                Ok(state)
            } else {
                Ok(st("Finished"))
            }
        }
        Kind::AppData | Kind::Heartbeat => Err(()),
    }
}
