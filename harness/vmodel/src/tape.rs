//! Choice tape: every generated case is a pure function of a byte string ("tape").
//!
//! The tape is produced by proptest (`TapeStrategy`, seeded `TestRunner`) or by libFuzzer; the
//! decoders in `model.rs` read choices from it. When the tape runs out every further choice is 0,
//! which every decoder maps to the simplest alternative, so shrinking a tape (delete spans, zero
//! spans, lower bytes) shrinks the decoded case. No other source of randomness exists.

use proptest::strategy::{NewTree, Strategy, ValueTree};
use proptest::test_runner::TestRunner;

#[derive(Clone)]
pub struct Tape<'a> {
    data: &'a [u8],
    pos: usize,
}

/// Pure expansion of a 64-bit seed into bytes (splitmix64). Used for large payloads so that a
/// 16 KiB blob costs 9 tape bytes.
pub fn fill(seed: u64, n: usize) -> Vec<u8> {
    let mut out = Vec::with_capacity(n);
    if seed == 0 {
        out.resize(n, 0);
        return out;
    }
    let mut s = seed;
    while out.len() < n {
        s = s.wrapping_add(0x9E37_79B9_7F4A_7C15);
        let mut z = s;
        z = (z ^ (z >> 30)).wrapping_mul(0xBF58_476D_1CE4_E5B9);
        z = (z ^ (z >> 27)).wrapping_mul(0x94D0_49BB_1331_11EB);
        z ^= z >> 31;
        for b in z.to_le_bytes() {
            if out.len() < n {
                out.push(b);
            }
        }
    }
    out
}

impl<'a> Tape<'a> {
    pub fn new(data: &'a [u8]) -> Self {
        Tape { data, pos: 0 }
    }
    pub fn exhausted(&self) -> bool {
        self.pos >= self.data.len()
    }
    pub fn consumed(&self) -> usize {
        self.pos
    }
    pub fn u8(&mut self) -> u8 {
        let b = self.data.get(self.pos).copied().unwrap_or(0);
        self.pos += 1;
        b
    }
    pub fn u16(&mut self) -> u16 {
        (self.u8() as u16) << 8 | self.u8() as u16
    }
    pub fn u32(&mut self) -> u32 {
        (self.u16() as u32) << 16 | self.u16() as u32
    }
    pub fn u64(&mut self) -> u64 {
        (self.u32() as u64) << 32 | self.u32() as u64
    }
    pub fn bool(&mut self) -> bool {
        self.u8() & 1 == 1
    }
    /// true with probability about num/256
    pub fn chance(&mut self, num: u8) -> bool {
        let b = self.u8();
        b != 0 && b <= num
    }
    /// value in 0..n (n >= 1), monotone in the tape bytes so that lowering bytes lowers the choice
    pub fn below(&mut self, n: usize) -> usize {
        if n <= 1 {
            return 0;
        }
        if n <= 256 {
            (self.u8() as usize * n) >> 8
        } else if n <= 65536 {
            (self.u16() as usize * n) >> 16
        } else {
            ((self.u32() as u64 * n as u64) >> 32) as usize
        }
    }
    /// value in lo..=hi
    pub fn range(&mut self, lo: usize, hi: usize) -> usize {
        lo + self.below(hi - lo + 1)
    }
    /// index chosen with the given integer weights (index 0 when the tape is exhausted)
    pub fn weighted(&mut self, w: &[u32]) -> usize {
        let total: u32 = w.iter().sum();
        let mut x = self.below(total as usize) as u32;
        for (i, &wi) in w.iter().enumerate() {
            if x < wi {
                return i;
            }
            x -= wi;
        }
        0
    }
    pub fn pick<T: Copy>(&mut self, xs: &[T]) -> T {
        xs[self.below(xs.len())]
    }
    /// n bytes: read from the tape when short, expanded from an 8-byte seed when long
    pub fn bytes(&mut self, n: usize) -> Vec<u8> {
        if n <= 24 {
            (0..n).map(|_| self.u8()).collect()
        } else {
            let seed = self.u64();
            fill(seed, n)
        }
    }
    /// a length in 0..=max, weighted towards boundaries (0, 1, 2, max-1, max, powers of two +-1)
    pub fn len(&mut self, max: usize) -> usize {
        if max == 0 {
            return 0;
        }
        match self.weighted(&[6, 3, 3]) {
            0 => self.below(max.min(16) + 1),
            1 => self.below(max + 1),
            _ => {
                let mut c: Vec<usize> = vec![0, 1, 2, max, max.saturating_sub(1)];
                for k in [7u32, 8, 14, 15, 16] {
                    let p = 1usize << k;
                    for v in [p - 1, p, p + 1] {
                        if v <= max {
                            c.push(v);
                        }
                    }
                }
                c[self.below(c.len())]
            }
        }
    }
    /// an element count in 0..=max: mostly tiny, sometimes one of the thresholds where counters, caps and length fields wrap
    /// (255/256/257, 1023..1025, 4095..4097, 32766/32767, 65535/65536, max-1, max)
    pub fn count(&mut self, max: usize) -> usize {
        if self.chance(225) {
            return self.small(max.min(12));
        }
        let mut c: Vec<usize> = Vec::new();
        for v in [255usize, 256, 257, 1023, 1024, 1025, 4095, 4096, 4097, 32766, 32767, 65535, 65536, max.saturating_sub(1), max] {
            if v <= max {
                c.push(v);
            }
        }
        if c.is_empty() {
            return self.below(max + 1);
        }
        c[self.below(c.len())]
    }
    /// small length, 0..=max, mostly tiny
    pub fn small(&mut self, max: usize) -> usize {
        match self.weighted(&[8, 2]) {
            0 => self.below(max.min(6) + 1),
            _ => self.below(max + 1),
        }
    }
    /// a blob whose length is drawn by `len(max)`
    pub fn blob(&mut self, max: usize) -> Vec<u8> {
        let n = self.len(max);
        self.bytes(n)
    }
    /// valid UTF-8 text of at most `max` bytes mixing 1-, 2-, 3- and 4-byte characters; lengths weighted towards max and 255/256
    pub fn utf8_text(&mut self, max: usize) -> Vec<u8> {
        let target = match self.weighted(&[4, 3, 3]) {
            0 => self.below(max.min(24) + 1),
            1 => self.below(max + 1),
            _ => {
                let c = [max, max.saturating_sub(1), 254, 255, 256, 257, 258, 127, 128];
                c[self.below(c.len())].min(max)
            }
        };
        const PAL: [&str; 12] = ["a", "z", "0", "-", ".", "x", "\u{e9}", "\u{df}", "\u{20ac}", "\u{4e2d}", "\u{1f600}", "\u{10348}"];
        let seed = self.u64();
        let mut s = seed | 1;
        let mut out = Vec::with_capacity(target);
        loop {
            s ^= s << 13;
            s ^= s >> 7;
            s ^= s << 17;
            let ch = PAL[(s % PAL.len() as u64) as usize].as_bytes();
            if out.len() + ch.len() > target {
                break;
            }
            out.extend_from_slice(ch);
        }
        out
    }
    pub fn small_blob(&mut self, max: usize) -> Vec<u8> {
        let n = self.small(max);
        self.bytes(n)
    }
    /// a u16 weighted towards interesting values
    pub fn u16b(&mut self) -> u16 {
        match self.weighted(&[4, 4, 2]) {
            0 => self.below(40) as u16,
            1 => self.u16(),
            _ => self.pick(&[0u16, 1, 0xff, 0x100, 0x7fff, 0x8000, 0xfffe, 0xffff, 0x0a0a, 0xfafa]),
        }
    }
    pub fn u32b(&mut self) -> u32 {
        match self.weighted(&[3, 4, 3]) {
            0 => self.below(4) as u32,
            1 => self.u32(),
            _ => self.pick(&[0u32, 1, 0xffff, 0x10000, 0x7fff_ffff, 0x8000_0000, 0xffff_fffe, 0xffff_ffff]),
        }
    }
    pub fn u64b(&mut self) -> u64 {
        match self.weighted(&[3, 4, 3]) {
            0 => self.below(4) as u64,
            1 => self.u64(),
            _ => self.pick(&[
                0u64,
                1,
                0xffff_ffff,
                0x1_0000_0000,
                0x7fff_ffff_ffff_ffff,
                0x8000_0000_0000_0000,
                0xffff_ffff_ffff_ffff,
            ]),
        }
    }
    pub fn u24b(&mut self) -> u32 {
        match self.weighted(&[3, 4, 3]) {
            0 => self.below(4) as u32,
            1 => self.u32() & 0xff_ffff,
            _ => self.pick(&[0u32, 1, 0xff, 0x100, 0xffff, 0x10000, 0x7f_ffff, 0x80_0000, 0xff_fffe, 0xff_ffff]),
        }
    }
}

// ---------------------------------------------------------------------------------------------
// proptest strategy producing tapes, with a shrinker tailored to choice tapes
// ---------------------------------------------------------------------------------------------

#[derive(Clone, Debug)]
pub struct TapeStrategy {
    pub max_len: usize,
}

pub fn tape(max_len: usize) -> TapeStrategy {
    TapeStrategy { max_len }
}

pub struct TapeTree {
    cur: Vec<u8>,
    prev: Option<Vec<u8>>,
    // shrink plan: phase 0 = delete chunk, 1 = zero chunk, 2 = lower single bytes
    phase: u8,
    chunk: usize,
    idx: usize,
    sub: u8,
}

impl TapeTree {
    fn start_plan(&mut self) {
        self.phase = 0;
        self.chunk = self.cur.len().max(1);
        self.idx = 0;
        self.sub = 0;
    }
    /// next candidate derived from `base`, advancing the plan; None when the plan is finished
    fn next_candidate(&mut self, base: &[u8]) -> Option<Vec<u8>> {
        loop {
            match self.phase {
                0 => {
                    // delete base[idx..idx+chunk]
                    if base.is_empty() {
                        self.phase = 2;
                        self.idx = 0;
                        continue;
                    }
                    if self.idx >= base.len() {
                        if self.chunk == 1 {
                            self.phase = 1;
                            self.chunk = base.len().max(1);
                            self.idx = 0;
                        } else {
                            self.chunk = (self.chunk / 2).max(1);
                            self.idx = 0;
                        }
                        continue;
                    }
                    let end = (self.idx + self.chunk).min(base.len());
                    let mut c = Vec::with_capacity(base.len() - (end - self.idx));
                    c.extend_from_slice(&base[..self.idx]);
                    c.extend_from_slice(&base[end..]);
                    // when accepted, the same idx is tried again on the shorter base;
                    // when rejected, `reject()` moves idx forward
                    return Some(c);
                }
                1 => {
                    if self.idx >= base.len() {
                        if self.chunk <= 1 {
                            self.phase = 2;
                            self.idx = 0;
                            self.sub = 0;
                        } else {
                            self.chunk = (self.chunk / 2).max(1);
                            self.idx = 0;
                        }
                        continue;
                    }
                    let end = (self.idx + self.chunk).min(base.len());
                    if base[self.idx..end].iter().all(|&b| b == 0) {
                        self.idx = end;
                        continue;
                    }
                    let mut c = base.to_vec();
                    for b in &mut c[self.idx..end] {
                        *b = 0;
                    }
                    return Some(c);
                }
                2 => {
                    if self.idx >= base.len() {
                        return None;
                    }
                    let b = base[self.idx];
                    let cand = match self.sub {
                        0 if b > 1 => Some(b / 2),
                        1 if b > 0 => Some(b - 1),
                        0 | 1 => None,
                        _ => {
                            self.idx += 1;
                            self.sub = 0;
                            continue;
                        }
                    };
                    match cand {
                        Some(v) => {
                            let mut c = base.to_vec();
                            c[self.idx] = v;
                            return Some(c);
                        }
                        None => {
                            self.sub += 1;
                            continue;
                        }
                    }
                }
                _ => return None,
            }
        }
    }
    /// the last candidate was rejected (test passed on it): move the plan forward
    fn reject(&mut self) {
        match self.phase {
            0 | 1 => self.idx += self.chunk,
            _ => self.sub += 1,
        }
    }
    /// the last candidate was accepted (still failing)
    fn accept(&mut self) {
        match self.phase {
            0 => {}                       // same idx, shorter base
            1 => self.idx += self.chunk,  // chunk is now zero
            _ => {}                       // same byte, same sub-step again (keeps halving)
        }
    }
}

impl ValueTree for TapeTree {
    type Value = Vec<u8>;
    fn current(&self) -> Vec<u8> {
        self.cur.clone()
    }
    fn simplify(&mut self) -> bool {
        // called at the start, and after a candidate was accepted
        if self.prev.is_some() {
            self.accept();
        }
        let base = self.cur.clone();
        match self.next_candidate(&base) {
            Some(c) => {
                self.prev = Some(base);
                self.cur = c;
                true
            }
            None => false,
        }
    }
    fn complicate(&mut self) -> bool {
        // the candidate passed: go back to the last failing tape and try the next candidate
        let base = match self.prev.take() {
            Some(p) => p,
            None => return false,
        };
        self.reject();
        match self.next_candidate(&base) {
            Some(c) => {
                self.prev = Some(base);
                self.cur = c;
                true
            }
            None => {
                self.cur = base;
                false
            }
        }
    }
}

impl Strategy for TapeStrategy {
    type Tree = TapeTree;
    type Value = Vec<u8>;
    fn new_tree(&self, runner: &mut TestRunner) -> NewTree<Self> {
        use proptest::prelude::RngCore;
        let rng = runner.rng();
        let n = if self.max_len == 0 { 0 } else { (rng.next_u32() as usize) % (self.max_len + 1) };
        let mut v = vec![0u8; n];
        rng.fill_bytes(&mut v);
        // sprinkle zero and 0xff bytes: they select boundary alternatives in many decoders
        let k = rng.next_u32() % 4;
        if k > 0 && n > 0 {
            for _ in 0..(n / (4 * k as usize)).max(1) {
                let i = (rng.next_u32() as usize) % n;
                v[i] = if rng.next_u32() & 1 == 0 { 0 } else { 0xff };
            }
        }
        let mut t = TapeTree { cur: v, prev: None, phase: 0, chunk: 1, idx: 0, sub: 0 };
        t.start_plan();
        Ok(t)
    }
}
