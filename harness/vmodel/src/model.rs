//! Abstract values of the TLS/DTLS wire structures, their RFC encoders and tape decoders
//! (generators). Written from RFC 5246 / 8446 / 5077 / 6066 / 6520 / 7301 / 7366 / 7627 / 8449 /
//! 8701 / 6347 / 4492 / 6962 and the NPN / ESNI drafts. Nothing here uses the crate under test.

use crate::tape::Tape;
use crate::wire::Enc;

pub const RECORD_CAP: usize = (1 << 14) + 256;

// ---------------------------------------------------------------------------------------------
// Handshake messages
// ---------------------------------------------------------------------------------------------

#[derive(Clone, Debug, PartialEq, Eq, Hash)]
pub enum MHs {
    HelloRequest,
    ClientHello { version: u16, random: Vec<u8>, sid: Option<Vec<u8>>, ciphers: Vec<u16>, comp: Vec<u8>, ext: Option<Vec<u8>> },
    ServerHello { version: u16, random: Vec<u8>, sid: Option<Vec<u8>>, cipher: u16, comp: u8, ext: Option<Vec<u8>> },
    ServerHelloD18 { version: u16, random: Vec<u8>, cipher: u16, ext: Option<Vec<u8>> },
    NewSessionTicket { lifetime: u32, ticket: Vec<u8> },
    EndOfEarlyData,
    HelloRetryRequest { version: u16, cipher: u16, ext: Option<Vec<u8>> },
    Certificate { chain: Vec<Vec<u8>> },
    ServerKeyExchange(Vec<u8>),
    CertificateRequest { types: Vec<u8>, sigalgs: Option<Vec<u16>>, cas: Vec<Vec<u8>> },
    ServerDone(Vec<u8>),
    CertificateVerify(Vec<u8>),
    ClientKeyExchange(Vec<u8>),
    Finished(Vec<u8>),
    CertificateStatus { ty: u8, blob: Vec<u8> },
    NextProtocol { proto: Vec<u8>, padding: Vec<u8> },
    KeyUpdate(u8),
}

pub const HS_KINDS: usize = 17;

impl MHs {
    /// IANA HandshakeType code
    pub fn type_code(&self) -> u8 {
        match self {
            MHs::HelloRequest => 0,
            MHs::ClientHello { .. } => 1,
            MHs::ServerHello { .. } | MHs::ServerHelloD18 { .. } => 2,
            MHs::NewSessionTicket { .. } => 4,
            MHs::EndOfEarlyData => 5,
            MHs::HelloRetryRequest { .. } => 6,
            MHs::Certificate { .. } => 11,
            MHs::ServerKeyExchange(_) => 12,
            MHs::CertificateRequest { .. } => 13,
            MHs::ServerDone(_) => 14,
            MHs::CertificateVerify(_) => 15,
            MHs::ClientKeyExchange(_) => 16,
            MHs::Finished(_) => 20,
            MHs::CertificateStatus { .. } => 22,
            MHs::KeyUpdate(_) => 24,
            MHs::NextProtocol { .. } => 67,
        }
    }
    pub fn kind_index(&self) -> usize {
        match self {
            MHs::HelloRequest => 0,
            MHs::ClientHello { .. } => 1,
            MHs::ServerHello { .. } => 2,
            MHs::ServerHelloD18 { .. } => 3,
            MHs::NewSessionTicket { .. } => 4,
            MHs::EndOfEarlyData => 5,
            MHs::HelloRetryRequest { .. } => 6,
            MHs::Certificate { .. } => 7,
            MHs::ServerKeyExchange(_) => 8,
            MHs::CertificateRequest { .. } => 9,
            MHs::ServerDone(_) => 10,
            MHs::CertificateVerify(_) => 11,
            MHs::ClientKeyExchange(_) => 12,
            MHs::Finished(_) => 13,
            MHs::CertificateStatus { .. } => 14,
            MHs::NextProtocol { .. } => 15,
            MHs::KeyUpdate(_) => 16,
        }
    }
    pub fn kind_name(&self) -> &'static str {
        [
            "HelloRequest", "ClientHello", "ServerHello", "ServerHelloD18", "NewSessionTicket", "EndOfEarlyData",
            "HelloRetryRequest", "Certificate", "ServerKeyExchange", "CertificateRequest", "ServerDone",
            "CertificateVerify", "ClientKeyExchange", "Finished", "CertificateStatus", "NextProtocol", "KeyUpdate",
        ][self.kind_index()]
    }

    /// does any variable-length field hold at least one byte? (non-triviality rule of C04)
    pub fn has_nonempty_var(&self) -> bool {
        match self {
            MHs::HelloRequest | MHs::EndOfEarlyData | MHs::KeyUpdate(_) => false,
            MHs::ClientHello { sid, ciphers, comp, ext, .. } => {
                sid.is_some() || !ciphers.is_empty() || !comp.is_empty() || ext.as_ref().map_or(false, |e| !e.is_empty())
            }
            MHs::ServerHello { sid, ext, .. } => sid.is_some() || ext.as_ref().map_or(false, |e| !e.is_empty()),
            MHs::ServerHelloD18 { ext, .. } | MHs::HelloRetryRequest { ext, .. } => ext.as_ref().map_or(false, |e| !e.is_empty()),
            MHs::NewSessionTicket { ticket, .. } => !ticket.is_empty(),
            MHs::Certificate { chain } => !chain.is_empty(),
            MHs::ServerKeyExchange(b) | MHs::ServerDone(b) | MHs::CertificateVerify(b) | MHs::ClientKeyExchange(b) | MHs::Finished(b) => !b.is_empty(),
            MHs::CertificateRequest { types, sigalgs, cas } => !types.is_empty() || sigalgs.as_ref().map_or(false, |s| !s.is_empty()) || !cas.is_empty(),
            MHs::CertificateStatus { blob, .. } => !blob.is_empty(),
            MHs::NextProtocol { proto, padding } => !proto.is_empty() || !padding.is_empty(),
        }
    }

    /// body only (what follows the 4-byte handshake header)
    pub fn encode_body(&self, e: &mut Enc) {
        match self {
            MHs::HelloRequest | MHs::EndOfEarlyData => {}
            MHs::ClientHello { version, random, sid, ciphers, comp, ext } => {
                e.u16(*version);
                e.bytes(random);
                e.vec(1, "ch.sid", sid.as_deref().unwrap_or(&[]));
                e.with_len(2, "ch.ciphers", |e| {
                    for c in ciphers {
                        e.u16(*c)
                    }
                });
                e.vec(1, "ch.comp", comp);
                if let Some(x) = ext {
                    e.vec(2, "ch.ext", x);
                }
            }
            MHs::ServerHello { version, random, sid, cipher, comp, ext } => {
                e.u16(*version);
                e.bytes(random);
                e.vec(1, "sh.sid", sid.as_deref().unwrap_or(&[]));
                e.u16(*cipher);
                e.u8(*comp);
                if let Some(x) = ext {
                    e.vec(2, "sh.ext", x);
                }
            }
            MHs::ServerHelloD18 { version, random, cipher, ext } => {
                e.u16(*version);
                e.bytes(random);
                e.u16(*cipher);
                if let Some(x) = ext {
                    e.vec(2, "sh18.ext", x);
                }
            }
            MHs::NewSessionTicket { lifetime, ticket } => {
                e.u32(*lifetime);
                e.bytes(ticket);
            }
            MHs::HelloRetryRequest { version, cipher, ext } => {
                e.u16(*version);
                e.u16(*cipher);
                if let Some(x) = ext {
                    e.vec(2, "hrr.ext", x);
                }
            }
            MHs::Certificate { chain } => {
                e.with_len(3, "cert.list", |e| {
                    for c in chain {
                        e.vec(3, "cert.entry", c);
                    }
                });
            }
            MHs::ServerKeyExchange(b) | MHs::ServerDone(b) | MHs::CertificateVerify(b) | MHs::ClientKeyExchange(b) | MHs::Finished(b) => e.bytes(b),
            MHs::CertificateRequest { types, sigalgs, cas } => {
                e.vec(1, "cr.types", types);
                if let Some(s) = sigalgs {
                    e.with_len(2, "cr.sigalgs", |e| {
                        for x in s {
                            e.u16(*x)
                        }
                    });
                }
                e.with_len(2, "cr.cas", |e| {
                    for c in cas {
                        e.vec(2, "cr.ca", c);
                    }
                });
            }
            MHs::CertificateStatus { ty, blob } => {
                e.u8(*ty);
                e.vec(3, "cs.blob", blob);
            }
            MHs::NextProtocol { proto, padding } => {
                e.vec(1, "np.proto", proto);
                e.vec(1, "np.padding", padding);
            }
            MHs::KeyUpdate(v) => e.u8(*v),
        }
    }

    /// type byte, u24 length, body
    pub fn encode(&self, e: &mut Enc) {
        e.u8(self.type_code());
        e.with_len(3, "hs.len", |e| self.encode_body(e));
    }
    pub fn to_bytes(&self) -> Vec<u8> {
        let mut e = Enc::new();
        self.encode(&mut e);
        e.buf
    }
    pub fn body_bytes(&self) -> Vec<u8> {
        let mut e = Enc::new();
        self.encode_body(&mut e);
        e.buf
    }
}

fn gen_sid(t: &mut Tape) -> Option<Vec<u8>> {
    match t.weighted(&[3, 2, 3, 3]) {
        0 => None,
        1 => Some(t.bytes(1)),
        2 => Some(t.bytes(32)),
        _ => {
            let n = t.range(1, 32);
            Some(t.bytes(n))
        }
    }
}

fn gen_opt_ext(t: &mut Tape, budget: usize) -> Option<Vec<u8>> {
    match t.weighted(&[3, 2, 4, 3]) {
        0 => None,
        1 => Some(vec![]),
        2 => {
            // a realistic extension block
            let n = t.small(6);
            let mut e = Enc::new();
            for _ in 0..n {
                gen_ext(t, budget.min(300)).encode(&mut e);
            }
            if e.buf.len() > budget.min(65535) {
                Some(vec![])
            } else {
                Some(e.buf)
            }
        }
        _ => Some(t.blob(budget.min(65535))),
    }
}

fn gen_u16_list(t: &mut Tape, max: usize) -> Vec<u16> {
    let n = match t.weighted(&[2, 2, 2, 5, 2]) {
        0 => 0,
        1 => 1,
        2 => 2,
        3 => t.below(max.min(40) + 1),
        _ => t.len(max),
    };
    if n <= 12 {
        (0..n).map(|_| t.u16b()).collect()
    } else {
        let raw = t.bytes(2 * n);
        raw.chunks(2).map(|c| (c[0] as u16) << 8 | c[1] as u16).collect()
    }
}

/// cipher-suite ids a real peer sends: the TLS 1.3 suites, the two signalling values, common TLS 1.2 suites, NULL, GREASE
pub const COMMON_CIPHERS: [u16; 20] = [0x1301, 0x1302, 0x1303, 0x1304, 0x1305, 0x00ff, 0x5600, 0xc02b, 0xc02f, 0xc030, 0xcca8, 0xcca9, 0x009c, 0x002f, 0x0035, 0x000a, 0x0000, 0x0a0a, 0xfafa, 0x1306];

/// a cipher-suite id: arbitrary, or (one time in three) one of the ids real peers send
pub fn gen_cipher_id(t: &mut Tape) -> u16 {
    if t.chance(85) {
        COMMON_CIPHERS[t.below(COMMON_CIPHERS.len())]
    } else {
        t.u16b()
    }
}

fn gen_cipher_list(t: &mut Tape, max: usize) -> Vec<u16> {
    let mut v = gen_u16_list(t, max);
    if t.chance(100) {
        for x in v.iter_mut().take(64) {
            if t.bool() {
                *x = COMMON_CIPHERS[t.below(COMMON_CIPHERS.len())];
            }
        }
    }
    v
}

/// what other protocols (and other framings of TLS itself) send first: a TLS port receives these, and to a record parser they are
/// five header bytes like any others
pub const FOREIGN_OPENERS: [&[u8]; 44] = [
    b"GET / HTTP/1.1\r\nHost: example.com\r\n\r\n", b"GET /index.html HTTP/1.0\r\n\r\n", b"POST /api HTTP/1.1\r\n", b"HEAD / HTTP/1.1\r\n", b"PUT /x HTTP/1.1\r\n",
    b"DELETE /x HTTP/1.1\r\n", b"OPTIONS * HTTP/1.1\r\n", b"CONNECT example.com:443 HTTP/1.1\r\n", b"PATCH /x HTTP/1.1\r\n", b"TRACE / HTTP/1.1\r\n",
    b"PRI * HTTP/2.0\r\n\r\nSM\r\n\r\n", b"HTTP/1.1 400 Bad Request\r\n", b"HTTP/1.0 200 OK\r\n", b"SSH-2.0-OpenSSH_8.9\r\n", b"SSH-1.99-x\r\n",
    b"EHLO mail.example.com\r\n", b"HELO example.com\r\n", b"STARTTLS\r\n", b"220 mail.example.com ESMTP\r\n", b"* OK IMAP4rev1 ready\r\n", b"+OK POP3 ready\r\n",
    b"USER anonymous\r\n", b"QUIT\r\n", b"\x05\x01\x00", b"\x05\x02\x00\x02", b"\x04\x01\x01\xbb\x7f\x00\x00\x01", b"\x80\x2e\x01\x00\x02\x00\x15\x00\x00\x00\x10", b"\x80\x80\x01\x03\x01\x00\x57",
    b"\x16\x03\x01\x02\x00\x01\x00\x01\xfc\x03\x03", b"\x16\xfe\xfd\x00\x00\x00\x00\x00\x00\x00\x00\x00\x2a", b"\x17\xfe\xfd\x00\x01", b"\x00\x00\x00\x00\x00\x00", b"\xff\xff\xff\xff\xff\xff",
    b"<?xml version=\"1.0\"?>", b"<html><body>", b"{\"jsonrpc\":\"2.0\"}", b"\r\n\r\n\r\n", b"RTSP/1.0 200 OK\r\n", b"SIP/2.0 200 OK\r\n", b"\x03\x00\x00\x13\x0e\xe0\x00\x00\x00\x00\x00",
    b"\x00\x00\x00\x85\xffSMBr", b"*1\r\n$4\r\nPING\r\n", b"\x13BitTorrent protocol", b"CNXN\x00\x00\x00\x01",
];

/// host names as they occur in server_name extensions, including the shapes a validating parser might treat specially
pub const HOST_NAMES: [&str; 16] = ["example.com", "localhost", "192.168.0.1", "10.0.0.1", "::1", "2001:db8::1", "127.0.0.1", "xn--bcher-kva.example", "a.b.c.d.e.f.example", "example.com.", "EXAMPLE.COM", "1.2.3.4.5", "[::1]", "256.1.1.1", ".", "*.example.com"];

/// the extension block of a TLS 1.3 ServerHello / HelloRetryRequest: supported_versions in every encoding the parser accepts
/// (2-byte selected version, list form with 0 / 1 / 2 entries), key_share, cookie, pre_shared_key, plus arbitrary others, in any order
pub fn gen_tls13_server_ext(t: &mut Tape) -> Vec<u8> {
    let n = 1 + t.below(4);
    let mut e = Enc::new();
    for _ in 0..n {
        let x = match t.below(8) {
            0 | 1 => MExt::SupportedVersions(vec![if t.chance(200) { 0x0304 } else { t.u16b() }], true),
            2 => MExt::SupportedVersions(vec![], false),
            3 => MExt::SupportedVersions(vec![0x0304], false),
            4 => MExt::SupportedVersions(vec![0x0304, 0x0303], false),
            5 => {
                let i = KNOWN_EXT_TYPES.iter().position(|&x| x == 51).unwrap_or(0);
                gen_ext_known(t, i, 80)
            }
            6 => {
                let i = KNOWN_EXT_TYPES.iter().position(|&x| x == if t.bool() { 44 } else { 41 }).unwrap_or(0);
                gen_ext_known(t, i, 80)
            }
            _ => gen_ext(t, 80),
        };
        x.encode(&mut e);
    }
    e.buf
}

/// an SSLv2-compatible ClientHello (RFC 5246 appendix E.2): 2-byte record header with the top bit set and a 15-bit length, msg_type 1,
/// version, three u16 lengths, cipher specs of 3 bytes each, session id, challenge. The crate does not decode this format; the
/// bytes are an input like any other - a consistent hello, one whose cipher-spec length is not a multiple of 3, one whose inner
/// lengths add up to more than the record length, or one cut short. Returns the bytes and the record's declared total length.
pub fn gen_sslv2_hello(t: &mut Tape) -> (Vec<u8>, usize) {
    let nspecs = t.below(6);
    let mut specs: Vec<u8> = Vec::new();
    for _ in 0..nspecs {
        let c = gen_cipher_id(t);
        specs.extend_from_slice(&[if t.chance(200) { 0 } else { t.pick(&[1u8, 7, 6]) }, (c >> 8) as u8, c as u8]);
    }
    let shape = t.weighted(&[6, 2, 2, 1]);
    if shape == 1 {
        // a trailing partial spec (1 or 2 bytes), starting with 0x00 like a TLS suite
        specs.push(0);
        if t.bool() {
            specs.push(t.u8());
        }
    }
    let sid = if t.chance(60) { t.bytes(16) } else { vec![] };
    let chl = t.pick(&[16usize, 16, 32, 0, 1]);
    let challenge = t.bytes(chl);
    let mut body = Enc::new();
    body.u8(1);
    body.u16(t.pick(&[0x0301u16, 0x0303, 0x0300, 0x0002]));
    body.u16(specs.len() as u16);
    body.u16(sid.len() as u16);
    let mut ch_len = challenge.len();
    if shape == 2 {
        // the challenge length announces more than the record holds
        ch_len += 1 + t.below(40);
    }
    body.u16(ch_len as u16);
    body.bytes(&specs);
    body.bytes(&sid);
    body.bytes(&challenge);
    let reclen = body.buf.len();
    let mut out = vec![0x80 | (reclen >> 8) as u8, reclen as u8];
    out.extend(body.buf);
    if shape == 3 && out.len() > 3 {
        let c = 2 + t.below(out.len() - 2);
        out.truncate(c);
    }
    (out, 2 + reclen)
}

/// named groups real peers offer, incl. the post-quantum hybrids and a GREASE value
pub const COMMON_GROUPS: [u16; 14] = [0x001d, 0x0017, 0x0018, 0x0019, 0x001e, 0x0100, 0x0101, 0x11eb, 0x11ec, 0x11ed, 0x6399, 0x639a, 0x0a0a, 0x001c];

/// size of a key share of that group as a conforming client sends it
pub fn natural_share_len(g: u16) -> Option<usize> {
    Some(match g {
        0x001d => 32,
        0x0017 => 65,
        0x0018 => 97,
        0x0019 => 133,
        0x001e => 56,
        0x001c => 129,
        0x0100 => 256,
        0x0101 => 384,
        0x11eb => 65 + 1184,
        0x11ec => 1216,
        0x11ed => 97 + 1568,
        0x6399 => 32 + 1184,
        0x639a => 65 + 1184,
        _ => return None,
    })
}

fn gen_key_share_entry(t: &mut Tape, budget: usize) -> (u16, Vec<u8>) {
    let g = if t.chance(190) { COMMON_GROUPS[t.below(COMMON_GROUPS.len())] } else { t.u16b() };
    let nat = natural_share_len(g).unwrap_or(32);
    let n = match t.below(8) {
        0 | 1 | 2 | 3 if nat + 8 <= budget => nat,
        4 => 0,
        5 => 1 + t.below(8),
        6 => nat.saturating_sub(1 + t.below(3)).min(budget.saturating_sub(8)),
        _ => t.below(budget.saturating_sub(8).min(90) + 1),
    };
    let mut d = t.bytes(n);
    if matches!(g, 0x17 | 0x18 | 0x19 | 0x11eb | 0x11ed | 0x639a) && !d.is_empty() && t.chance(220) {
        d[0] = 4;
    }
    (g, d)
}

/// content of a key_share extension in the forms of RFC 8446 4.2.8: the ClientHello list (0..4 entries, now and then a group
/// offered twice - next to each other or apart), one ServerHello entry, the 2-byte HelloRetryRequest form; sizes as the group
/// prescribes, or empty / short / one byte off
pub fn gen_key_share_content(t: &mut Tape, budget: usize) -> Vec<u8> {
    let mut e = Enc::new();
    match t.weighted(&[5, 3, 1]) {
        0 => {
            let n = t.below(5);
            let mut entries: Vec<(u16, Vec<u8>)> = Vec::new();
            let mut left = budget.saturating_sub(2);
            for _ in 0..n {
                let x = gen_key_share_entry(t, left);
                if x.1.len() + 4 > left {
                    break;
                }
                left -= x.1.len() + 4;
                entries.push(x);
            }
            if entries.len() >= 1 && t.chance(if entries.len() >= 2 { 110 } else { 50 }) {
                // the same group once more: at the end (apart from the first when there are others between) or right after it
                let x = if t.bool() { entries[0].clone() } else { (entries[0].0, t.bytes(entries[0].1.len().min(left.saturating_sub(4)))) };
                if x.1.len() + 4 <= left {
                    if t.bool() {
                        entries.push(x);
                    } else {
                        entries.insert(1, x);
                    }
                }
            }
            let mut inner = Enc::new();
            for (g, d) in &entries {
                inner.u16(*g);
                inner.vec(2, "ks.entry", d);
            }
            e.vec(2, "ks.list", &inner.buf);
        }
        1 => {
            let (g, d) = gen_key_share_entry(t, budget);
            e.u16(g);
            e.vec(2, "ks.entry", &d);
        }
        _ => e.u16(COMMON_GROUPS[t.below(COMMON_GROUPS.len())]),
    }
    e.buf
}

/// content of a pre_shared_key extension: OfferedPsks (identities with obfuscated age, binders of 32 / 48 / 64 or other sizes,
/// counts equal or not) or the 2-byte selected identity of a ServerHello
pub fn gen_psk_content(t: &mut Tape, budget: usize) -> Vec<u8> {
    let mut e = Enc::new();
    if t.chance(50) {
        e.u16(t.u16b());
        return e.buf;
    }
    let n = 1 + t.below(3);
    let mut ids = Enc::new();
    for _ in 0..n {
        let l = t.pick(&[1usize, 16, 32, 48, 100]).min(budget / 4);
        ids.vec(2, "psk.id", &t.bytes(l.max(1)));
        ids.u32(t.u32b());
    }
    let nb = if t.chance(30) { t.below(4) } else { n };
    let mut binders = Enc::new();
    for _ in 0..nb {
        let l = t.pick(&[32usize, 32, 48, 48, 64, 33, 31, 255]);
        binders.vec(1, "psk.binder", &t.bytes(l));
    }
    e.vec(2, "psk.ids", &ids.buf);
    e.vec(2, "psk.binders", &binders.buf);
    e.buf
}

/// body of a ClientKeyExchange in the shapes the key-exchange methods give it: one u16-prefixed vector that fills the body (RSA
/// EncryptedPreMasterSecret, DH Yc, PSK identity), a u16-prefixed vector followed by more (DHE_PSK / RSA_PSK), an EC point with its
/// one-byte length, empty, or arbitrary bytes
pub fn gen_cke_body(t: &mut Tape, budget: usize) -> Vec<u8> {
    let mut e = Enc::new();
    match t.weighted(&[3, 3, 2, 3, 1]) {
        0 => return t.blob(budget),
        1 => {
            let n = t.pick(&[1usize, 2, 15, 48, 128, 256, 512]).min(budget.saturating_sub(2)).max(1);
            e.vec(2, "cke.vec", &t.bytes(n));
        }
        2 => {
            let n = t.pick(&[1usize, 2, 15, 32]).min(budget / 3).max(1);
            e.vec(2, "cke.identity", &t.bytes(n));
            if t.bool() {
                let m = t.pick(&[2usize, 48, 128, 256]).min(budget / 3).max(1);
                e.vec(2, "cke.second", &t.bytes(m));
            } else {
                e.bytes(&t.small_blob(40));
            }
        }
        3 => {
            let n = t.pick(&[65usize, 65, 97, 133, 32, 56]).min(budget.saturating_sub(1)).max(1);
            let mut d = t.bytes(n);
            if n != 32 && n != 56 {
                d[0] = 4;
            }
            e.vec(1, "cke.point", &d);
        }
        _ => {}
    }
    e.buf
}

/// the body of a ServerKeyExchange as servers really send it (RFC 4492 / 5246 / 8422): ECDHE parameters with a named curve (or the
/// explicit-prime form) and a point, or DHE parameters p, g, Ys, followed by a signature in the TLS 1.2 layout (two algorithm octets,
/// length, value), in the earlier layout (length, value), or by nothing (anonymous key exchange); cut to the budget
pub fn gen_ske_body(t: &mut Tape, budget: usize) -> Vec<u8> {
    let mut e = Enc::new();
    match t.weighted(&[5, 2, 1]) {
        0 => {
            let g = [0x0017u16, 0x0018, 0x0019, 0x001d, 0x001e][t.below(5)];
            e.u8(3);
            e.u16(if t.chance(230) { g } else { t.u16b() });
            let n = natural_share_len(g).unwrap_or(65).min(255);
            let mut pt = t.bytes(n);
            if n % 2 == 1 {
                pt[0] = 4;
            }
            e.vec(1, "ske.point", &pt);
        }
        1 => {
            let n = t.pick(&[32usize, 64, 128, 256]);
            let mut p = t.bytes(n);
            p[0] |= 0x80;
            p[n - 1] |= 1;
            e.vec(2, "ske.p", &p);
            e.vec(2, "ske.g", &[t.pick(&[2u8, 5])]);
            e.vec(2, "ske.ys", &t.bytes(n));
        }
        _ => {
            let ps = well_known_primes();
            let p = ps[t.below(ps.len())].clone();
            e.u8(1);
            e.vec(1, "ske.prime", &p);
            e.vec(1, "ske.a", &t.bytes(p.len()));
            e.vec(1, "ske.b", &t.bytes(p.len()));
            let mut base = t.bytes(2 * p.len() + 1);
            base[0] = 4;
            e.vec(1, "ske.base", &base);
            e.vec(1, "ske.order", &t.bytes(p.len()));
            e.vec(1, "ske.cofactor", &[1]);
            let mut pt = t.bytes(2 * p.len() + 1);
            pt[0] = 4;
            e.vec(1, "ske.point", &pt);
        }
    }
    match t.weighted(&[4, 4, 2]) {
        0 => {
            let (h, s) = gen_sig_alg(t);
            e.u8(h);
            e.u8(s);
            let rsa_len = t.pick(&[128usize, 256]);
            let sig = if s == 3 || t.bool() { gen_der_ecdsa_sig(t) } else { t.bytes(rsa_len) };
            e.vec(2, "ske.sig", &sig);
        }
        1 => {
            let raw_len = t.pick(&[36usize, 128, 256]);
            let sig = if t.bool() { gen_der_ecdsa_sig(t) } else { t.bytes(raw_len) };
            e.vec(2, "ske.sig", &sig);
        }
        _ => {}
    }
    e.buf.truncate(budget);
    e.buf
}

/// DER length octets
fn der_len(e: &mut Enc, n: usize, force_long: bool) {
    if n < 128 && !force_long {
        e.u8(n as u8);
    } else if n < 256 && !force_long {
        e.u8(0x81);
        e.u8(n as u8);
    } else {
        e.u8(0x82);
        e.u16(n as u16);
    }
}

/// what a certificate entry looks like on the wire: X.509 DER, `SEQUENCE { tbsCertificate SEQUENCE {..}, algorithm, signature }`,
/// mostly with the two-octet length form real certificates have (`30 82 hi lo 30 82 ..`); the outer length is right, or off by a few
/// bytes, or larger than the entry (the TLS layer carries the bytes as they are - what they mean is not its business); sometimes a raw
/// public key (RFC 7250, 44 bytes) or an empty entry
pub fn gen_der_certificate(t: &mut Tape, budget: usize) -> Vec<u8> {
    match t.weighted(&[8, 1, 1]) {
        1 => return hex_ed25519_spki(t),
        2 => return vec![],
        _ => {}
    }
    let body_len = t.pick(&[0usize, 4, 8, 40, 300, 700, 1100]).min(budget.saturating_sub(8));
    let mut inner = Enc::new();
    inner.u8(0x30);
    let tbs = body_len / 2;
    der_len(&mut inner, tbs, t.chance(200));
    inner.bytes(&t.bytes(tbs));
    inner.bytes(&t.bytes(body_len - tbs));
    let mut e = Enc::new();
    e.u8(0x30);
    let declared = match t.weighted(&[5, 2, 1, 1]) {
        0 => inner.buf.len(),
        1 => inner.buf.len().wrapping_add(t.pick(&[1usize, 4, 0xffff_ffff_ffff_fffc, 0xffff_ffff_ffff_ffff])) & 0xffff,
        2 => 0xffff,
        _ => 0,
    };
    der_len(&mut e, declared, t.chance(220));
    e.bytes(&inner.buf);
    e.buf
}

fn hex_ed25519_spki(t: &mut Tape) -> Vec<u8> {
    let mut v = vec![0x30, 0x2a, 0x30, 0x05, 0x06, 0x03, 0x2b, 0x65, 0x70, 0x03, 0x21, 0x00];
    v.extend(t.bytes(32));
    v
}

/// an OCSPResponse (RFC 6960 4.2.1): `SEQUENCE { responseStatus ENUMERATED, responseBytes [0] EXPLICIT .. OPTIONAL }` - the error
/// forms (status 1..6, no bytes) and the successful form with a body
pub fn gen_ocsp_response(t: &mut Tape, budget: usize) -> Vec<u8> {
    let status = if t.bool() { t.pick(&[1u8, 2, 3, 5, 6]) } else { 0 };
    let mut e = Enc::new();
    e.u8(0x30);
    if status != 0 || t.chance(40) {
        e.u8(3);
        e.bytes(&[0x0a, 0x01, status]);
    } else {
        let n = t.pick(&[20usize, 200, 600]).min(budget.saturating_sub(16));
        let body = t.bytes(n);
        der_len(&mut e, 3 + 4 + n, true);
        e.bytes(&[0x0a, 0x01, 0x00, 0xa0, 0x82]);
        e.u16(n as u16);
        e.bytes(&body);
    }
    e.buf.truncate(budget);
    e.buf
}

/// one OID filter with a real certificate-extension OID and a DER-shaped value
pub fn gen_oid_filter(t: &mut Tape) -> (Vec<u8>, Vec<u8>) {
    match t.below(4) {
        0 => (vec![0x06, 0x03, 0x55, 0x1d, 0x0f], match t.below(4) {
            0 => vec![0x03, 0x02, 0x07, 0x80],
            1 => vec![0x03, 0x03, 0x07, t.u8(), 0x80],
            2 => vec![0x03, 0x02, 0x05, 0xa0],
            _ => vec![0x03, 0x01, 0x00],
        }),
        1 => {
            // extKeyUsage: SEQUENCE OF 8-byte-DER purposes, 1 .. 20 of them (16 and more need the long length form)
            let n = t.pick(&[1usize, 2, 12, 13, 15, 16, 20]);
            let mut body = Vec::new();
            for k in 0..n {
                body.extend_from_slice(&[0x06, 0x08, 0x2b, 0x06, 0x01, 0x05, 0x05, 0x07, 0x03, 1 + k as u8]);
            }
            let mut e = Enc::new();
            e.u8(0x30);
            der_len(&mut e, body.len(), false);
            e.bytes(&body);
            (vec![0x06, 0x03, 0x55, 0x1d, 0x25], e.buf)
        }
        2 => (vec![0x06, 0x03, 0x55, 0x1d, 0x13], vec![0x30, 0x03, 0x01, 0x01, 0xff]),
        _ => (vec![0x06, 0x03, 0x55, 0x1d, 0x11], t.small_blob(40)),
    }
}

/// a timestamp in milliseconds since 1970 on a calendar boundary: first / last millisecond of a year, around the end of February, for
/// ordinary years, leap years, century years (2100, 2200, 2300 are not leap years; 2000 and 2400 are) and the years 9999 / 10000
pub fn gen_calendar_ms(t: &mut Tape) -> u64 {
    fn days_from_civil(y: i64, m: i64, d: i64) -> i64 {
        let y = if m <= 2 { y - 1 } else { y };
        let era = if y >= 0 { y } else { y - 399 } / 400;
        let yoe = y - era * 400;
        let doy = (153 * (if m > 2 { m - 3 } else { m + 9 }) + 2) / 5 + d - 1;
        let doe = yoe * 365 + yoe / 4 - yoe / 100 + doy;
        era * 146097 + doe - 719468
    }
    let y = t.pick(&[1970i64, 1972, 1999, 2000, 2001, 2024, 2038, 2099, 2100, 2101, 2200, 2201, 2300, 2301, 2400, 2401, 2500, 2501, 9999, 10000]);
    let (m, d) = t.pick(&[(1i64, 1i64), (12, 31), (2, 28), (3, 1), (12, 30), (1, 2), (6, 15)]);
    let base = days_from_civil(y, m, d) * 86_400_000;
    let off = t.pick(&[0i64, 1, 86_399_999, 86_400_000, -1, 43_200_000]);
    (base + off).max(0) as u64
}

/// an extension block of the kind that NEGOTIATES how later records look (a parser that keeps state between records might act on
/// it): max_fragment_length (codes 1..4 and others), heartbeat (modes 1, 2), record_size_limit (small and large), connection_id,
/// supported_versions in the client and the server form, extended_master_secret, encrypt_then_mac. Returns (block, connection id)
pub fn gen_negotiation_ext(t: &mut Tape) -> (Vec<u8>, Vec<u8>) {
    let mut e = Enc::new();
    let cid_len = t.pick(&[0usize, 4, 8]);
    let cid = t.bytes(cid_len);
    let mut ext = |e: &mut Enc, ty: u16, body: &[u8]| {
        e.u16(ty);
        e.vec(2, "neg.ext", body);
    };
    let n = 1 + t.below(4);
    for _ in 0..n {
        match t.below(8) {
            0 | 1 => {
                let c = t.pick(&[1u8, 2, 3, 4, 1, 0, 5]);
                ext(&mut e, 1, &[c])
            }
            2 => {
                let m = t.pick(&[1u8, 2, 2, 0, 3]);
                ext(&mut e, 15, &[m])
            }
            3 => {
                let v = t.pick(&[63u16, 64, 512, 16385]);
                ext(&mut e, 28, &[(v >> 8) as u8, v as u8]);
            }
            4 => {
                let mut b = vec![cid.len() as u8];
                b.extend_from_slice(&cid);
                ext(&mut e, 54, &b);
            }
            5 => ext(&mut e, 43, if t.bool() { &[3, 4] } else { &[4, 3, 4, 3, 3] }),
            6 => ext(&mut e, 23, &[]),
            _ => ext(&mut e, 22, &[]),
        }
    }
    (e.buf, cid)
}

/// an ECDSA signature value as it travels inside DigitallySigned: DER SEQUENCE of two INTEGERs, with the values a verifier must
/// look at twice (zero, one, leading zero octet, 32 / 33 octets)
pub fn gen_der_ecdsa_sig(t: &mut Tape) -> Vec<u8> {
    let mut int = |t: &mut Tape| -> Vec<u8> {
        let v = match t.below(6) {
            0 => vec![0u8],
            1 => vec![1u8],
            2 => t.bytes(32),
            3 => {
                let mut x = vec![0u8];
                x.extend(t.bytes(32));
                x
            }
            4 => {
                let mut x = t.bytes(30);
                x.extend_from_slice(&[0x02, 0x01, 0x00]);
                x
            }
            _ => t.small_blob(33),
        };
        let mut o = vec![0x02, v.len() as u8];
        o.extend(v);
        o
    };
    let (r, s2) = (int(t), int(t));
    let mut o = vec![0x30, (r.len() + s2.len()) as u8];
    o.extend(r);
    o.extend(s2);
    // now and then in a fixed-size field: the DER value followed by zero octets (or by other bytes) - the vector is opaque, all of it is the signature
    match t.below(10) {
        0 => o.extend(std::iter::repeat(0).take(1 + t.below(8))),
        1 => o.extend(t.small_blob(6)),
        _ => {}
    }
    o
}

/// a (hash, signature) algorithm pair: mostly registered ones
pub fn gen_sig_alg(t: &mut Tape) -> (u8, u8) {
    if t.chance(150) {
        (t.pick(&[1u8, 2, 3, 4, 5, 6, 8, 0]), t.pick(&[1u8, 2, 3, 3, 3, 7, 8, 0]))
    } else {
        (t.u8(), t.u8())
    }
}

/// RFC 8446 4.1.3: the ServerHello.random that marks a HelloRetryRequest (SHA-256 of "HelloRetryRequest")
pub const HRR_RANDOM: [u8; 32] = [
    0xcf, 0x21, 0xad, 0x74, 0xe5, 0x9a, 0x61, 0x11, 0xbe, 0x1d, 0x8c, 0x02, 0x1e, 0x65, 0xb8, 0x91, 0xc2, 0xa2, 0x11, 0x16, 0x7a, 0xbb, 0x8c, 0x5e, 0x07, 0x9e, 0x09, 0xe2, 0xc8, 0xa8, 0x33, 0x9c,
];

/// a hello random: 32 arbitrary bytes, or (about one time in six) one of the values the RFCs give a meaning to - the
/// HelloRetryRequest marker, the two downgrade sentinels in the last eight bytes, a one-bit neighbour of the marker, all-zero / all-one.
/// A parser or state machine is required to treat all of them as opaque bytes.
pub fn gen_random(t: &mut Tape) -> Vec<u8> {
    let mut r = t.bytes(32);
    if t.chance(44) {
        match t.below(7) {
            0 | 1 | 2 => r = HRR_RANDOM.to_vec(),
            3 => r[24..].copy_from_slice(b"DOWNGRD\x01"),
            4 => r[24..].copy_from_slice(b"DOWNGRD\x00"),
            5 => {
                r = HRR_RANDOM.to_vec();
                let i = t.below(32);
                r[i] ^= 1 << t.below(8);
            }
            _ => r = vec![if t.bool() { 0 } else { 0xff }; 32],
        }
    }
    r
}

/// one handshake value of the given kind (0..HS_KINDS), encoded size <= about `budget` + 100
pub fn gen_hs_kind(t: &mut Tape, kind: usize, budget: usize) -> MHs {
    let b = budget;
    match kind {
        0 => MHs::HelloRequest,
        1 => {
            let version = if t.bool() { gen_version(t) } else { t.u16b() };
            let random = gen_random(t);
            let sid = gen_sid(t);
            let ciphers = gen_cipher_list(t, (b / 2).min(32767));
            let nc = t.small(255);
            let comp = t.bytes(nc);
            let left = b.saturating_sub(2 * ciphers.len());
            let ext = gen_opt_ext(t, left);
            if t.chance(24) && b >= 120 {
                // what a TLS 1.3 client really sends (RFC 8446 4.1.2, D.4): legacy version 0x0303, a 32-byte legacy session id in
                // compatibility mode (or none), only TLS 1.3 suites or those in front of older ones, null compression, supported_versions
                let n13 = 1 + t.below(4);
                let mut ciphers: Vec<u16> = (0..n13).map(|_| 0x1301 + t.below(5) as u16).collect();
                if t.chance(100) {
                    ciphers.extend(gen_cipher_list(t, 6));
                }
                let sid = if t.chance(200) { Some(t.bytes(32)) } else { None };
                let mut x = Enc::new();
                MExt::SupportedVersions(vec![0x0304, 0x0303], false).encode(&mut x);
                if t.bool() {
                    x.bytes(&gen_opt_ext(t, 80).unwrap_or_default());
                }
                return MHs::ClientHello { version: 0x0303, random, sid, ciphers, comp: vec![0], ext: Some(x.buf) };
            }
            MHs::ClientHello { version, random, sid, ciphers, comp, ext }
        }
        2 => {
            let mut version = t.pick(&[0x0303u16, 0x0301, 0x0302, 0x0300]);
            let random = gen_random(t);
            let sid = gen_sid(t);
            let cipher = gen_cipher_id(t);
            let comp = t.u8();
            let mut ext = if version == 0x0300 { None } else { gen_opt_ext(t, b) };
            // the TLS 1.3 shape (legacy version 0x0303 + supported_versions & co in the block): most of the time when the random is
            // one of the RFC 8446 markers, now and then otherwise
            let special = random == HRR_RANDOM || random[24..31] == *b"DOWNGRD";
            if t.chance(if special { 190 } else { 40 }) && b >= 40 {
                if t.chance(220) {
                    version = 0x0303;
                }
                if version != 0x0300 {
                    ext = Some(gen_tls13_server_ext(t));
                }
            }
            MHs::ServerHello { version, random, sid, cipher, comp, ext }
        }
        3 => MHs::ServerHelloD18 { version: 0x7f12, random: gen_random(t), cipher: gen_cipher_id(t), ext: gen_opt_ext(t, b) },
        4 => {
            // what follows the lifetime is opaque to the parser; on the wire it is `opaque ticket<0..2^16-1>` (RFC 5077) or the TLS 1.3
            // form (age_add, nonce, ticket, extensions)
            let lifetime = t.u32b();
            let ticket = match t.weighted(&[3, 4, 2]) {
                0 => t.blob(b),
                1 => {
                    let mut e = Enc::new();
                    e.vec(2, "nst.ticket", &t.blob(b.min(65535).saturating_sub(2)));
                    e.buf
                }
                _ => {
                    let mut e = Enc::new();
                    e.u32(t.u32b());
                    e.vec(1, "nst.nonce", &t.small_blob(8));
                    e.vec(2, "nst.ticket", &t.small_blob(b.min(200)));
                    e.vec(2, "nst.ext", &if t.bool() { vec![] } else { vec![0, 42, 0, 4, 0, 0, 0x40, 0] });
                    e.buf
                }
            };
            MHs::NewSessionTicket { lifetime, ticket }
        }
        5 => MHs::EndOfEarlyData,
        6 => {
            let version = if t.bool() { t.pick(&[0x7f12u16, 0x7f12, 0x0304, 0x7f1c, 0x7f17, 0x0303]) } else { t.u16b() };
            // the draft-18 message carries key_share (code point 40, a bare group), cookie, supported_versions
            let ext = if t.chance(100) && b >= 40 {
                let mut e = Enc::new();
                for _ in 0..1 + t.below(3) {
                    let g = COMMON_GROUPS[t.below(COMMON_GROUPS.len())];
                    match t.below(5) {
                        0 | 1 => MExt::KeyShareOld(vec![(g >> 8) as u8, g as u8]).encode(&mut e),
                        2 => MExt::KeyShare(vec![(g >> 8) as u8, g as u8]).encode(&mut e),
                        3 => MExt::Cookie({ let mut c = Enc::new(); c.vec(2, "cookie", &t.small_blob(20)); c.buf }).encode(&mut e),
                        _ => MExt::SupportedVersions(vec![0x7f12], true).encode(&mut e),
                    }
                }
                Some(e.buf)
            } else {
                gen_opt_ext(t, b)
            };
            MHs::HelloRetryRequest { version, cipher: gen_cipher_id(t), ext }
        }
        7 => {
            let n = t.count((b / 3).min(20000));
            let mut chain = Vec::new();
            let mut left = b;
            for i in 0..n {
                // long chains are made of tiny entries
                let c = if n > 20 { vec![i as u8; i % 3] } else if t.chance(90) { gen_der_certificate(t, left.min(3000)) } else { t.blob(left.min(3000)) };
                left = left.saturating_sub(c.len() + 3);
                chain.push(c);
            }
            MHs::Certificate { chain }
        }
        8 => MHs::ServerKeyExchange(if t.chance(110) { gen_ske_body(t, b) } else { t.blob(b) }),
        9 => {
            let nt = t.small(255);
            let types = t.bytes(nt);
            let mut sigalgs = if t.bool() { Some(gen_u16_list(t, 300.min(b / 2))) } else { None };
            if t.chance(24) {
                // a list whose byte image is a well-formed extension block holding signature_algorithms (the TLS 1.3 form of this
                // message is request_context + extensions: the TLS 1.2 list must not be re-read that way)
                let mut e = Enc::new();
                if t.bool() {
                    MExt::SupportedVersions(vec![0x0304], true).encode(&mut e);
                }
                MExt::SignatureAlgorithms((0..1 + t.below(3)).map(|_| t.pick(&[0x0403u16, 0x0804, 0x0401, 0x0503])).collect()).encode(&mut e);
                sigalgs = Some(e.buf.chunks(2).map(|c| (c[0] as u16) << 8 | c[1] as u16).collect());
            }
            let n = t.count((b / 4).min(5000));
            let mut cas = Vec::new();
            let mut left = b;
            for i in 0..n {
                let c = if n > 8 { vec![i as u8; i % 2] } else { t.blob(left.min(600)) };
                left = left.saturating_sub(c.len() + 2);
                cas.push(c);
            }
            if t.chance(20) && b >= 80 {
                // the layout WITHOUT signature algorithms (TLS 1.0 / 1.1) whose CA names, read as (type, length, data), chain like
                // an extension list: a name of 13 bytes starting with its own length minus two reads as signature_algorithms, one
                // of 47 bytes as certificate_authorities - the TLS 1.3 form of this message (context + extensions) has the same outer shape
                let mut cas = Vec::new();
                let algs: Vec<u8> = [0x04u8, 0x03, 0x05, 0x03, 0x06, 0x03, 0x08, 0x04][..2 * (1 + t.below(4))].to_vec();
                // 13-byte name: u16 (11) | u16 list length | algorithms | filler
                let mut n13 = vec![0u8, 11, 0, algs.len() as u8];
                n13.extend(&algs);
                n13.resize(13, 0x31);
                cas.push(n13);
                if t.bool() {
                    let mut n47 = vec![0u8, 45, 0, 43, 0, 41];
                    n47.resize(47, 0x41);
                    cas.push(n47);
                }
                let types = if t.bool() { vec![1u8] } else { types.into_iter().take(3).collect() };
                return MHs::CertificateRequest { types, sigalgs: None, cas };
            }
            MHs::CertificateRequest { types, sigalgs, cas }
        }
        10 => MHs::ServerDone(if t.chance(200) { vec![] } else { t.blob(b) }),
        11 => MHs::CertificateVerify(t.blob(b)),
        12 => MHs::ClientKeyExchange(gen_cke_body(t, b)),
        13 => MHs::Finished(t.blob(b.min(4096))),
        14 => {
            if t.chance(128) {
                MHs::CertificateStatus { ty: if t.chance(230) { 1 } else { t.u8() }, blob: gen_ocsp_response(t, b) }
            } else {
                MHs::CertificateStatus { ty: t.u8(), blob: t.blob(b) }
            }
        }
        15 => MHs::NextProtocol { proto: t.blob(255), padding: t.blob(255) },
        _ => MHs::KeyUpdate(t.u8()),
    }
}

pub fn gen_hs(t: &mut Tape, budget: usize) -> MHs {
    let k = t.below(HS_KINDS);
    gen_hs_kind(t, k, budget)
}

// ---------------------------------------------------------------------------------------------
// Extensions
// ---------------------------------------------------------------------------------------------

#[derive(Clone, Debug, PartialEq, Eq, Hash)]
pub enum MExt {
    Sni(Vec<(u8, Vec<u8>)>),
    MaxFragmentLength(u8),
    StatusRequest(Option<(u8, Vec<u8>)>),
    EllipticCurves(Vec<u16>),
    EcPointFormats(Vec<u8>),
    SignatureAlgorithms(Vec<u16>),
    RecordSizeLimit(u16),
    SessionTicket(Vec<u8>),
    KeyShareOld(Vec<u8>),
    KeyShare(Vec<u8>),
    PreSharedKey(Vec<u8>),
    EarlyData(Option<u32>),
    /// second field: encode in the ServerHello form (exactly one version, no list length)
    SupportedVersions(Vec<u16>, bool),
    Cookie(Vec<u8>),
    PskExchangeModes(Vec<u8>),
    Heartbeat(u8),
    Alpn(Vec<Vec<u8>>),
    Sct(Option<Vec<u8>>),
    Padding(Vec<u8>),
    EncryptThenMac,
    ExtendedMasterSecret,
    OidFilters(Vec<(Vec<u8>, Vec<u8>)>),
    PostHandshakeAuth,
    NextProtocolNegotiation,
    RenegotiationInfo(Vec<u8>),
    Esni { cipher: u16, group: u16, key_share: Vec<u8>, record_digest: Vec<u8>, encrypted_sni: Vec<u8> },
    Grease(u16, Vec<u8>),
    Unknown(u16, Vec<u8>),
}

/// the 26 extension types with a typed variant (IANA numbers)
pub const KNOWN_EXT_TYPES: [u16; 26] = [
    0, 1, 5, 10, 11, 13, 15, 16, 18, 21, 22, 23, 28, 35, 40, 41, 42, 43, 44, 45, 48, 49, 51, 13172, 0xff01, 0xffce,
];

/// RFC 8701: 0x0A0A, 0x1A1A, ... 0xFAFA
pub fn is_grease(t: u16) -> bool {
    (t >> 8) == (t & 0xff) && (t & 0x0f) == 0x0a
}

impl MExt {
    /// IANA ExtensionType of the encoding
    pub fn wire_type(&self) -> u16 {
        match self {
            MExt::Sni(_) => 0,
            MExt::MaxFragmentLength(_) => 1,
            MExt::StatusRequest(_) => 5,
            MExt::EllipticCurves(_) => 10,
            MExt::EcPointFormats(_) => 11,
            MExt::SignatureAlgorithms(_) => 13,
            MExt::Heartbeat(_) => 15,
            MExt::Alpn(_) => 16,
            MExt::Sct(_) => 18,
            MExt::Padding(_) => 21,
            MExt::EncryptThenMac => 22,
            MExt::ExtendedMasterSecret => 23,
            MExt::RecordSizeLimit(_) => 28,
            MExt::SessionTicket(_) => 35,
            MExt::KeyShareOld(_) => 40,
            MExt::PreSharedKey(_) => 41,
            MExt::EarlyData(_) => 42,
            MExt::SupportedVersions(..) => 43,
            MExt::Cookie(_) => 44,
            MExt::PskExchangeModes(_) => 45,
            MExt::OidFilters(_) => 48,
            MExt::PostHandshakeAuth => 49,
            MExt::KeyShare(_) => 51,
            MExt::NextProtocolNegotiation => 13172,
            MExt::RenegotiationInfo(_) => 0xff01,
            MExt::Esni { .. } => 0xffce,
            MExt::Grease(t, _) | MExt::Unknown(t, _) => *t,
        }
    }
    /// value with encoding-form flags cleared (what a parser can recover)
    pub fn canon(&self) -> MExt {
        match self {
            MExt::SupportedVersions(v, _) => MExt::SupportedVersions(v.clone(), false),
            x => x.clone(),
        }
    }
    pub fn has_content(&self) -> bool {
        let mut e = Enc::new();
        self.encode_content(&mut e);
        !e.buf.is_empty()
    }
    pub fn encode_content(&self, e: &mut Enc) {
        match self {
            MExt::Sni(l) => {
                if !l.is_empty() {
                    e.with_len(2, "sni.list", |e| {
                        for (ty, name) in l {
                            e.u8(*ty);
                            e.vec(2, "sni.name", name);
                        }
                    });
                }
            }
            MExt::MaxFragmentLength(v) | MExt::Heartbeat(v) => e.u8(*v),
            MExt::StatusRequest(o) => {
                if let Some((ty, d)) = o {
                    e.u8(*ty);
                    e.bytes(d);
                }
            }
            MExt::EllipticCurves(l) | MExt::SignatureAlgorithms(l) => e.with_len(2, "u16list", |e| {
                for x in l {
                    e.u16(*x)
                }
            }),
            MExt::EcPointFormats(v) | MExt::PskExchangeModes(v) | MExt::RenegotiationInfo(v) => e.vec(1, "u8vec", v),
            MExt::RecordSizeLimit(v) => e.u16(*v),
            MExt::SessionTicket(v) | MExt::KeyShareOld(v) | MExt::KeyShare(v) | MExt::PreSharedKey(v) | MExt::Cookie(v) | MExt::Padding(v) => e.bytes(v),
            MExt::EarlyData(o) => {
                if let Some(v) = o {
                    e.u32(*v)
                }
            }
            MExt::SupportedVersions(l, server_form) => {
                if *server_form && l.len() == 1 {
                    e.u16(l[0]);
                } else {
                    e.with_len(1, "sv.list", |e| {
                        for x in l {
                            e.u16(*x)
                        }
                    });
                }
            }
            MExt::Alpn(l) => e.with_len(2, "alpn.list", |e| {
                for p in l {
                    e.vec(1, "alpn.name", p);
                }
            }),
            MExt::Sct(o) => {
                if let Some(v) = o {
                    e.vec(2, "sct.list", v);
                }
            }
            MExt::EncryptThenMac | MExt::ExtendedMasterSecret | MExt::PostHandshakeAuth | MExt::NextProtocolNegotiation => {}
            MExt::OidFilters(l) => e.with_len(2, "oid.list", |e| {
                for (o, v) in l {
                    e.vec(1, "oid.oid", o);
                    e.vec(2, "oid.val", v);
                }
            }),
            MExt::Esni { cipher, group, key_share, record_digest, encrypted_sni } => {
                e.u16(*cipher);
                e.u16(*group);
                e.vec(2, "esni.ks", key_share);
                e.vec(2, "esni.rd", record_digest);
                e.vec(2, "esni.sni", encrypted_sni);
            }
            MExt::Grease(_, d) | MExt::Unknown(_, d) => e.bytes(d),
        }
    }
    pub fn encode(&self, e: &mut Enc) {
        e.u16(self.wire_type());
        e.with_len(2, "ext.len", |e| self.encode_content(e));
    }
    pub fn to_bytes(&self) -> Vec<u8> {
        let mut e = Enc::new();
        self.encode(&mut e);
        e.buf
    }
    pub fn name(&self) -> String {
        let s = format!("{:?}", self);
        s.split(|c: char| !c.is_alphanumeric()).next().unwrap_or("").to_string()
    }
}

/// well-formed extension of the given known type (index into KNOWN_EXT_TYPES)
pub fn gen_ext_known(t: &mut Tape, idx: usize, budget: usize) -> MExt {
    let b = budget.min(65535);
    match KNOWN_EXT_TYPES[idx] {
        0 => {
            let n = t.count((b / 4).min(4000));
            if n > 5 {
                return MExt::Sni((0..n).map(|i| ((i % 2) as u8, vec![b'a'; i % 2])).collect());
            }
            MExt::Sni(
                (0..n)
                    .map(|_| {
                        let ty = if t.chance(200) { 0 } else { t.u8() };
                        let name = match t.weighted(&[3, 3, 4]) {
                            0 => HOST_NAMES[t.below(HOST_NAMES.len())].as_bytes().to_vec(),
                            1 => t.utf8_text(b.min(600)),
                            _ => t.small_blob(b.min(300)),
                        };
                        (ty, name)
                    })
                    .collect(),
            )
        }
        1 => MExt::MaxFragmentLength(t.u8()),
        5 => MExt::StatusRequest(if t.chance(60) { None } else { Some((if t.bool() { 1 } else { t.u8() }, t.small_blob(b.saturating_sub(1).min(400)))) }),
        10 => MExt::EllipticCurves(gen_u16_list(t, (b.saturating_sub(2) / 2).min(200))),
        11 => MExt::EcPointFormats(t.small_blob(b.saturating_sub(1).min(255))),
        13 => MExt::SignatureAlgorithms(gen_u16_list(t, (b.saturating_sub(2) / 2).min(200))),
        15 => MExt::Heartbeat(t.u8()),
        16 => {
            let n = t.count((b / 3).min(6000));
            if n > 6 {
                return MExt::Alpn((0..n).map(|i| vec![b'h'; i % 2]).collect());
            }
            let mut l: Vec<Vec<u8>> = Vec::new();
            for _ in 0..n {
                let x = if !l.is_empty() && t.chance(30) {
                    l[l.len() - 1].clone()
                } else if t.chance(60) {
                    t.pick(&[&b"h2"[..], b"http/1.1", b"h3", b"\xca\xca", b"\xea\xea", b"caf\xc3", b"\xff"]).to_vec()
                } else if t.chance(90) {
                    t.utf8_text(b.min(255))
                } else {
                    t.small_blob(b.min(255) / 2)
                };
                l.push(x);
            }
            MExt::Alpn(l)
        }
        18 => MExt::Sct(if t.chance(80) { None } else { Some(t.small_blob(b.saturating_sub(2).min(500))) }),
        21 => MExt::Padding(t.blob(b.min(600))),
        22 => MExt::EncryptThenMac,
        23 => MExt::ExtendedMasterSecret,
        28 => MExt::RecordSizeLimit(if t.chance(120) { t.pick(&[0u16, 1, 63, 64, 65, 512, 16383, 16384, 16385, 0xffff]) } else { t.u16b() }),
        35 => MExt::SessionTicket(t.blob(b.min(600))),
        40 => MExt::KeyShareOld(if t.chance(90) { let g = COMMON_GROUPS[t.below(COMMON_GROUPS.len())]; vec![(g >> 8) as u8, g as u8] } else if t.chance(90) { gen_key_share_content(t, b.min(300)) } else { t.blob(b.min(300)) }),
        41 => MExt::PreSharedKey(if t.chance(170) { gen_psk_content(t, b.min(400)) } else { t.blob(b.min(300)) }),
        42 => MExt::EarlyData(if t.bool() { None } else { Some(t.u32b()) }),
        43 => {
            if t.chance(90) {
                MExt::SupportedVersions(vec![t.u16b()], true)
            } else {
                MExt::SupportedVersions(gen_u16_list(t, 127.min(b.saturating_sub(1) / 2)), false)
            }
        }
        44 => MExt::Cookie(t.blob(b.min(300))),
        45 => MExt::PskExchangeModes(t.small_blob(b.saturating_sub(1).min(255))),
        48 => {
            let n = t.count((b / 4).min(4000));
            if n > 4 {
                return MExt::OidFilters((0..n).map(|i| (vec![1u8; i % 2], vec![])).collect());
            }
            // arbitrary bytes, or what RFC 8446 4.2.5 really carries: the DER OID of a certificate extension (keyUsage, extKeyUsage,
            // basicConstraints, subjectAltName) and a DER value (BIT STRING of one or two octets, SEQUENCE OF OID in short and long form)
            MExt::OidFilters((0..n).map(|_| if t.chance(110) { gen_oid_filter(t) } else { (t.small_blob(b.min(60) / 2), t.small_blob(b.min(200) / 2)) }).collect())
        }
        49 => MExt::PostHandshakeAuth,
        51 => {
            let cap = if t.chance(40) { 2600 } else { 300 };
            MExt::KeyShare(if t.chance(180) { gen_key_share_content(t, b.min(cap)) } else { t.blob(b.min(300)) })
        }
        13172 => MExt::NextProtocolNegotiation,
        0xff01 => MExt::RenegotiationInfo(t.small_blob(b.saturating_sub(1).min(255))),
        _ => MExt::Esni {
            cipher: t.u16b(),
            group: t.u16b(),
            key_share: t.small_blob(b.min(300) / 4),
            record_digest: t.small_blob(b.min(300) / 4),
            encrypted_sni: t.small_blob(b.min(300) / 4),
        },
    }
}

pub fn gen_ext(t: &mut Tape, budget: usize) -> MExt {
    match t.weighted(&[10, 2, 3]) {
        0 => {
            let i = t.below(KNOWN_EXT_TYPES.len());
            gen_ext_known(t, i, budget)
        }
        1 => {
            let n = t.below(16) as u16;
            let ty = n << 12 | 0x0a00 | n << 4 | 0x0a;
            MExt::Grease(ty, t.small_blob(budget.min(200)))
        }
        _ => {
            let mut ty = t.u16b();
            if t.chance(64) {
                // near-GREASE look-alikes (0x?a?a with different nibbles) and neighbours of known types
                ty = t.pick(&[0x0a1au16, 0x1a0a, 0xfa0a, 0x0afa, 0x2a3a, 2, 3, 4, 6, 9, 12, 14, 17, 19, 20, 24, 27, 29, 34, 36, 39, 46, 47, 50, 52, 13171, 13173, 0xff00, 0xff02, 0xffcd, 0xffcf]);
            }
            if KNOWN_EXT_TYPES.contains(&ty) || is_grease(ty) {
                ty = 0x1234;
            }
            MExt::Unknown(ty, t.small_blob(budget.min(200)))
        }
    }
}

pub fn gen_ext_list(t: &mut Tape, max_n: usize, budget: usize) -> Vec<MExt> {
    let n = t.small(max_n);
    let mut v: Vec<MExt> = Vec::new();
    let mut left = budget;
    for _ in 0..n {
        let x = if !v.is_empty() && t.chance(25) { v[v.len() - 1].clone() } else { gen_ext(t, left.min(400)) };
        let l = x.to_bytes().len();
        if l > left {
            break;
        }
        left -= l;
        v.push(x);
    }
    v
}

pub fn encode_ext_list(l: &[MExt]) -> Enc {
    let mut e = Enc::new();
    for x in l {
        x.encode(&mut e);
    }
    e
}

// ---------------------------------------------------------------------------------------------
// Record-layer messages and records
// ---------------------------------------------------------------------------------------------

#[derive(Clone, Debug, PartialEq, Eq, Hash)]
pub enum MMsg {
    Hs(MHs),
    Ccs,
    Alert(u8, u8),
    AppData(Vec<u8>),
    Heartbeat { ty: u8, payload_len: u16, payload: Vec<u8> },
}

#[derive(Clone, Debug, PartialEq, Eq, Hash)]
pub struct MRecord {
    pub ctype: u8,
    pub version: u16,
    pub msgs: Vec<MMsg>,
    /// heartbeat padding (only for ctype 0x18); returned as remainder by two-step parsing
    pub padding: Vec<u8>,
}

impl MMsg {
    pub fn encode(&self, e: &mut Enc) {
        match self {
            MMsg::Hs(h) => h.encode(e),
            MMsg::Ccs => e.u8(1),
            MMsg::Alert(s, c) => {
                e.u8(*s);
                e.u8(*c)
            }
            MMsg::AppData(b) => e.bytes(b),
            MMsg::Heartbeat { ty, payload_len, payload } => {
                e.u8(*ty);
                e.u16(*payload_len);
                e.bytes(payload);
            }
        }
    }
}

impl MRecord {
    pub fn encode_payload(&self, e: &mut Enc) {
        for m in &self.msgs {
            m.encode(e);
        }
        e.bytes(&self.padding);
    }
    pub fn encode(&self, e: &mut Enc) {
        e.u8(self.ctype);
        e.u16(self.version);
        e.with_len(2, "rec.len", |e| self.encode_payload(e));
    }
    pub fn to_bytes(&self) -> Vec<u8> {
        let mut e = Enc::new();
        self.encode(&mut e);
        e.buf
    }
    pub fn payload_bytes(&self) -> Vec<u8> {
        let mut e = Enc::new();
        self.encode_payload(&mut e);
        e.buf
    }
}

pub fn gen_version(t: &mut Tape) -> u16 {
    match t.weighted(&[5, 3]) {
        0 => t.pick(&[0x0303u16, 0x0301, 0x0300, 0x0302, 0x0304, 0xfeff, 0xfefd, 0x7f12]),
        _ => t.u16b(),
    }
}

/// handshake messages whose concatenated encoding fits in `budget` bytes
pub fn gen_hs_list(t: &mut Tape, max_n: usize, budget: usize) -> Vec<MHs> {
    let n = 1 + t.small(max_n - 1);
    let mut out = Vec::new();
    let mut left = budget;
    for i in 0..n {
        if left < 4 {
            break;
        }
        // sizes: mostly small, sometimes taking most of what is left
        let b = if t.chance(40) { left.saturating_sub(700) } else { left.saturating_sub(700).min(400) };
        let h = gen_hs(t, b);
        let l = h.to_bytes().len();
        if l > left {
            if i == 0 {
                out.push(MHs::Finished(vec![0; 12]));
            }
            break;
        }
        left -= l;
        out.push(h);
    }
    if out.is_empty() {
        out.push(MHs::ServerDone(vec![]));
    }
    out
}

/// a well-formed record of one of the five content types
pub fn gen_record_of(t: &mut Tape, kind: usize) -> MRecord {
    let version = gen_version(t);
    match kind {
        0 => {
            let n = 1 + t.count(RECORD_CAP - 1);
            MRecord { ctype: 0x14, version, msgs: vec![MMsg::Ccs; n], padding: vec![] }
        }
        1 => {
            let n = 1 + t.count(RECORD_CAP / 2 - 1);
            let msgs = (0..n).map(|_| MMsg::Alert(if t.chance(128) { t.pick(&[1u8, 2]) } else { t.u8() }, t.u8())).collect();
            MRecord { ctype: 0x15, version, msgs, padding: vec![] }
        }
        2 => {
            if t.chance(10) {
                // hundreds or thousands of minimal handshake messages in one record
                let n = 1 + t.count(RECORD_CAP / 5 - 1);
                let msgs = (0..n).map(|i| MMsg::Hs(match i % 4 { 0 => MHs::HelloRequest, 1 => MHs::ServerDone(vec![]), 2 => MHs::KeyUpdate(i as u8), _ => MHs::EndOfEarlyData })).collect();
                return MRecord { ctype: 0x16, version, msgs, padding: vec![] };
            }
            let msgs = gen_hs_list(t, 6, RECORD_CAP).into_iter().map(MMsg::Hs).collect();
            MRecord { ctype: 0x16, version, msgs, padding: vec![] }
        }
        3 => MRecord { ctype: 0x17, version, msgs: vec![MMsg::AppData(t.blob(RECORD_CAP))], padding: vec![] },
        _ => {
            let payload = t.blob(16000);
            let padding = t.small_blob(64);
            MRecord {
                ctype: 0x18,
                version,
                msgs: vec![MMsg::Heartbeat { ty: if t.bool() { t.pick(&[1u8, 2]) } else { t.u8() }, payload_len: payload.len() as u16, payload }],
                padding,
            }
        }
    }
}

pub fn gen_record(t: &mut Tape) -> MRecord {
    let k = t.weighted(&[2, 2, 5, 2, 2]);
    gen_record_of(t, k)
}

// ---------------------------------------------------------------------------------------------
// DTLS
// ---------------------------------------------------------------------------------------------

#[derive(Clone, Debug, PartialEq, Eq, Hash)]
pub enum MDtlsBody {
    ClientHello { version: u16, random: Vec<u8>, sid: Option<Vec<u8>>, cookie: Vec<u8>, ciphers: Vec<u16>, comp: Vec<u8>, ext: Option<Vec<u8>> },
    HelloVerifyRequest { version: u16, cookie: Vec<u8> },
    ServerHello { version: u16, random: Vec<u8>, sid: Option<Vec<u8>>, cipher: u16, comp: u8, ext: Option<Vec<u8>> },
    Certificate { chain: Vec<Vec<u8>> },
    ServerDone(Vec<u8>),
    ClientKeyExchange(Vec<u8>),
    Fragment(Vec<u8>),
}

#[derive(Clone, Debug, PartialEq, Eq, Hash)]
pub struct MDtlsHs {
    pub msg_type: u8,
    pub length: u32,
    pub message_seq: u16,
    pub fragment_offset: u32,
    pub fragment_length: u32,
    pub body: MDtlsBody,
}

#[derive(Clone, Debug, PartialEq, Eq, Hash)]
pub enum MDtlsMsg {
    Hs(MDtlsHs),
    Ccs,
    Alert(u8, u8),
}

#[derive(Clone, Debug, PartialEq, Eq, Hash)]
pub struct MDtlsRecord {
    pub ctype: u8,
    pub version: u16,
    pub epoch: u16,
    pub seq: u64, // 48 bits
    pub msgs: Vec<MDtlsMsg>,
}

impl MDtlsBody {
    pub fn encode(&self, e: &mut Enc) {
        match self {
            MDtlsBody::ClientHello { version, random, sid, cookie, ciphers, comp, ext } => {
                e.u16(*version);
                e.bytes(random);
                e.vec(1, "dch.sid", sid.as_deref().unwrap_or(&[]));
                e.vec(1, "dch.cookie", cookie);
                e.with_len(2, "dch.ciphers", |e| {
                    for c in ciphers {
                        e.u16(*c)
                    }
                });
                e.vec(1, "dch.comp", comp);
                if let Some(x) = ext {
                    e.vec(2, "dch.ext", x);
                }
            }
            MDtlsBody::HelloVerifyRequest { version, cookie } => {
                e.u16(*version);
                e.vec(1, "hvr.cookie", cookie);
            }
            MDtlsBody::ServerHello { version, random, sid, cipher, comp, ext } => {
                MHs::ServerHello { version: *version, random: random.clone(), sid: sid.clone(), cipher: *cipher, comp: *comp, ext: ext.clone() }.encode_body(e)
            }
            MDtlsBody::Certificate { chain } => MHs::Certificate { chain: chain.clone() }.encode_body(e),
            MDtlsBody::ServerDone(b) | MDtlsBody::ClientKeyExchange(b) | MDtlsBody::Fragment(b) => e.bytes(b),
        }
    }
}

impl MDtlsHs {
    pub fn encode(&self, e: &mut Enc) {
        e.u8(self.msg_type);
        // (both size fields are registered as length fields, so that the corruption and congruence operators of the checks reach them)
        e.lens.push(crate::wire::LenField { off: e.buf.len(), width: 3, value: self.length as usize, label: "dhs.length" });
        e.u24(self.length);
        e.u16(self.message_seq);
        e.u24(self.fragment_offset);
        e.lens.push(crate::wire::LenField { off: e.buf.len(), width: 3, value: self.fragment_length as usize, label: "dhs.fragment_length" });
        e.u24(self.fragment_length);
        self.body.encode(e);
    }
    pub fn is_fragment(&self) -> bool {
        self.fragment_offset > 0 || self.fragment_length < self.length
    }
}

impl MDtlsMsg {
    pub fn encode(&self, e: &mut Enc) {
        match self {
            MDtlsMsg::Hs(h) => h.encode(e),
            MDtlsMsg::Ccs => e.u8(1),
            MDtlsMsg::Alert(s, c) => {
                e.u8(*s);
                e.u8(*c)
            }
        }
    }
}

impl MDtlsRecord {
    pub fn encode(&self, e: &mut Enc) {
        e.u8(self.ctype);
        e.u16(self.version);
        e.u16(self.epoch);
        e.u48(self.seq);
        e.with_len(2, "drec.len", |e| {
            for m in &self.msgs {
                m.encode(e)
            }
        });
    }
    pub fn to_bytes(&self) -> Vec<u8> {
        let mut e = Enc::new();
        self.encode(&mut e);
        e.buf
    }
}

/// a complete (unfragmented) DTLS handshake body of one of the six supported kinds
pub fn gen_dtls_body(t: &mut Tape, budget: usize) -> (u8, MDtlsBody) {
    let b = budget;
    match t.below(6) {
        0 => {
            let version = t.pick(&[0xfefdu16, 0xfeff, 0x0303, 0x1234]);
            let random = gen_random(t);
            let sid = gen_sid(t);
            let nck = t.len(255);
            let cookie = t.bytes(nck);
            let ciphers = gen_cipher_list(t, (b / 4).min(2000));
            let nc = t.small(255);
            let comp = t.bytes(nc);
            let mut ext = gen_opt_ext(t, b / 2);
            let mut cookie = cookie;
            if t.chance(50) && b >= 80 {
                // a DTLS 1.3 ClientHello (RFC 9147 5.3): legacy_cookie empty, supported_versions offering 0xfefc, the cookie in extension 44
                if t.chance(200) {
                    cookie = vec![];
                }
                let mut e = Enc::new();
                MExt::SupportedVersions(if t.bool() { vec![0xfefc, 0xfefd] } else { vec![0xfefd, 0xfefc, 0xfeff] }, false).encode(&mut e);
                if t.chance(200) {
                    MExt::Cookie({ let mut c = Enc::new(); c.vec(2, "cookie", &t.small_blob(24)); c.buf }).encode(&mut e);
                }
                if t.bool() {
                    MExt::EllipticCurves(vec![0x001d, 0x0017]).encode(&mut e);
                }
                ext = Some(e.buf);
            }
            (1, MDtlsBody::ClientHello { version, random, sid, cookie, ciphers, comp, ext })
        }
        1 => {
            let n = t.len(255);
            (3, MDtlsBody::HelloVerifyRequest { version: gen_version(t), cookie: t.bytes(n) })
        }
        2 => (
            2,
            MDtlsBody::ServerHello { version: gen_version(t), random: gen_random(t), sid: gen_sid(t), cipher: gen_cipher_id(t), comp: t.u8(), ext: gen_opt_ext(t, b) },
        ),
        3 => {
            let n = t.small(6);
            let mut chain = Vec::new();
            let mut left = b;
            for _ in 0..n {
                let c = t.blob(left.min(1500));
                left = left.saturating_sub(c.len() + 3);
                chain.push(c);
            }
            (11, MDtlsBody::Certificate { chain })
        }
        4 => (14, MDtlsBody::ServerDone(if t.chance(200) { vec![] } else { t.blob(b) })),
        _ => (16, MDtlsBody::ClientKeyExchange(gen_cke_body(t, b))),
    }
}

pub fn gen_dtls_hs(t: &mut Tape, budget: usize) -> MDtlsHs {
    let message_seq = t.u16b();
    if t.chance(90) {
        // a fragment: offset > 0 or fragment_length < length; any message type code
        let frag = t.blob(budget.min(2000));
        let fl = frag.len() as u32;
        let msg_type = if t.bool() { t.pick(&[1u8, 2, 3, 11, 12, 14, 16, 20]) } else { t.u8() };
        let (length, fragment_offset) = match t.below(5) {
            0 => (fl + 1, 0),                                  // first fragment, one byte missing
            1 => (fl, 1),                                       // offset 1, frag == length (overlong, still a fragment)
            2 => (0xff_ffff, 0),                                // huge message
            3 => {
                let off = t.u24b().max(1);
                (off.saturating_add(fl).min(0xff_ffff), off)   // last fragment: offset + frag == length (when it fits)
            }
            _ => {
                let length = t.u24b().max(fl + 1).min(0xff_ffff);
                if length > fl { (length, t.u24b()) } else { (length, 1) }
            }
        };
        let h = MDtlsHs { msg_type, length, message_seq, fragment_offset, fragment_length: fl, body: MDtlsBody::Fragment(frag) };
        debug_assert!(h.is_fragment());
        h
    } else {
        let (msg_type, body) = gen_dtls_body(t, budget);
        let mut e = Enc::new();
        body.encode(&mut e);
        let l = e.buf.len() as u32;
        MDtlsHs { msg_type, length: l, message_seq, fragment_offset: 0, fragment_length: l, body }
    }
}

pub fn gen_dtls_record(t: &mut Tape) -> MDtlsRecord {
    let mut r = gen_dtls_record_plain(t);
    if t.chance(12) {
        // a relation between header and body: epoch and sequence number equal to the first eight payload bytes (what the explicit
        // nonce of an AEAD-protected record looks like) - a plaintext record all the same
        let mut e = Enc::new();
        for m in &r.msgs {
            m.encode(&mut e);
        }
        if e.buf.len() >= 8 {
            r.epoch = (e.buf[0] as u16) << 8 | e.buf[1] as u16;
            r.seq = e.buf[2..8].iter().fold(0u64, |a, b| a << 8 | *b as u64);
        }
    }
    r
}

fn gen_dtls_record_plain(t: &mut Tape) -> MDtlsRecord {
    let version = if t.chance(160) { t.pick(&[0xfefdu16, 0xfeff]) } else { t.u16b() };
    let epoch = t.u16b();
    let seq = match t.weighted(&[3, 3, 4]) {
        0 => t.below(4) as u64,
        1 => t.u64() & 0xffff_ffff_ffff,
        _ => t.pick(&[0u64, 1, 0xffff_ffff, 0x1_0000_0000, 0x7fff_ffff_ffff, 0x8000_0000_0000, 0xffff_ffff_fffe, 0xffff_ffff_ffff]),
    };
    match t.weighted(&[2, 2, 6]) {
        0 => MDtlsRecord { ctype: 0x14, version, epoch, seq, msgs: vec![MDtlsMsg::Ccs; 1 + t.small(4)] },
        1 => {
            let n = 1 + t.small(4);
            MDtlsRecord { ctype: 0x15, version, epoch, seq, msgs: (0..n).map(|_| MDtlsMsg::Alert(t.u8(), t.u8())).collect() }
        }
        _ => {
            if t.chance(8) {
                let n = 1 + t.count(RECORD_CAP / 12 - 1);
                let msgs = (0..n).map(|i| MDtlsMsg::Hs(MDtlsHs { msg_type: 11, length: 100, message_seq: i as u16, fragment_offset: 1 + i as u32, fragment_length: 0, body: MDtlsBody::Fragment(vec![]) })).collect();
                return MDtlsRecord { ctype: 0x16, version, epoch, seq, msgs };
            }
            let n = 1 + t.small(3);
            let mut msgs = Vec::new();
            let mut left = RECORD_CAP;
            for _ in 0..n {
                let b = if t.chance(30) { left.saturating_sub(800) } else { left.saturating_sub(800).min(500) };
                let h = gen_dtls_hs(t, b);
                let mut e = Enc::new();
                h.encode(&mut e);
                if e.buf.len() > left {
                    break;
                }
                left -= e.buf.len();
                msgs.push(MDtlsMsg::Hs(h));
            }
            if msgs.is_empty() {
                msgs.push(MDtlsMsg::Hs(MDtlsHs { msg_type: 14, length: 0, message_seq: 0, fragment_offset: 0, fragment_length: 0, body: MDtlsBody::ServerDone(vec![]) }));
            }
            MDtlsRecord { ctype: 0x16, version, epoch, seq, msgs }
        }
    }
}

// ---------------------------------------------------------------------------------------------
// Key exchange parameters, signatures, SCTs
// ---------------------------------------------------------------------------------------------

#[derive(Clone, Debug, PartialEq, Eq, Hash)]
pub struct MDh {
    pub p: Vec<u8>,
    pub g: Vec<u8>,
    pub ys: Vec<u8>,
}

#[derive(Clone, Debug, PartialEq, Eq, Hash)]
pub enum MEcParams {
    Named(u16),
    ExplicitPrime { p: Vec<u8>, a: Vec<u8>, b: Vec<u8>, base: Vec<u8>, order: Vec<u8>, cofactor: Vec<u8> },
}

#[derive(Clone, Debug, PartialEq, Eq, Hash)]
pub struct MEcdh {
    pub params: MEcParams,
    pub public: Vec<u8>,
}

#[derive(Clone, Debug, PartialEq, Eq, Hash)]
pub struct MSigned {
    pub alg: Option<(u8, u8)>,
    pub data: Vec<u8>,
}

#[derive(Clone, Debug, PartialEq, Eq, Hash)]
pub struct MSct {
    pub version: u8,
    pub id: Vec<u8>, // 32
    pub timestamp: u64,
    pub extensions: Vec<u8>,
    pub hash: u8,
    pub sign: u8,
    /// the signature carries its (hash, signature) algorithm pair; always true on the wire (RFC 6962 uses the RFC 5246 form)
    pub alg_present: bool,
    pub signature: Vec<u8>,
}

impl MDh {
    pub fn encode(&self, e: &mut Enc) {
        e.vec(2, "dh.p", &self.p);
        e.vec(2, "dh.g", &self.g);
        e.vec(2, "dh.ys", &self.ys);
    }
}
impl MEcParams {
    pub fn encode(&self, e: &mut Enc) {
        match self {
            MEcParams::Named(g) => {
                e.u8(3);
                e.u16(*g);
            }
            MEcParams::ExplicitPrime { p, a, b, base, order, cofactor } => {
                e.u8(1);
                e.vec(1, "ec.p", p);
                e.vec(1, "ec.a", a);
                e.vec(1, "ec.b", b);
                e.vec(1, "ec.base", base);
                e.vec(1, "ec.order", order);
                e.vec(1, "ec.cofactor", cofactor);
            }
        }
    }
}
impl MEcdh {
    pub fn encode(&self, e: &mut Enc) {
        self.params.encode(e);
        e.vec(1, "ecdh.public", &self.public);
    }
}
impl MSigned {
    pub fn encode(&self, e: &mut Enc) {
        if let Some((h, s)) = self.alg {
            e.u8(h);
            e.u8(s);
        }
        e.vec(2, "sig.data", &self.data);
    }
}
impl MSct {
    pub fn encode_content(&self, e: &mut Enc) {
        e.u8(self.version);
        e.bytes(&self.id);
        e.u64(self.timestamp);
        e.vec(2, "sct.ext", &self.extensions);
        e.u8(self.hash);
        e.u8(self.sign);
        e.vec(2, "sct.sig", &self.signature);
    }
    pub fn encode(&self, e: &mut Enc) {
        e.with_len(2, "sct.entry", |e| self.encode_content(e));
    }
}

pub fn encode_sct_list(l: &[MSct]) -> Enc {
    let mut e = Enc::new();
    e.with_len(2, "sct.list", |e| {
        for s in l {
            s.encode(e);
        }
    });
    e
}

pub fn gen_dh(t: &mut Tape) -> MDh {
    if t.chance(60) {
        // the groups servers really use: the RFC 7919 FFDHE primes and the RFC 3526 MODP primes (all start and end with 64 one bits; the
        // leading bytes are what a parser that "knows" them would look at), with the generator that belongs to them and with others
        let n = t.pick(&[256usize, 384, 512, 128]);
        let head: &[u8] = if t.bool() { &[0xff, 0xff, 0xff, 0xff, 0xff, 0xff, 0xff, 0xff, 0xad, 0xf8, 0x54, 0x58, 0xa2, 0xbb, 0x4a, 0x9a, 0xaf, 0xdc, 0x56, 0x20] } else { &[0xff, 0xff, 0xff, 0xff, 0xff, 0xff, 0xff, 0xff, 0xc9, 0x0f, 0xda, 0xa2, 0x21, 0x68, 0xc2, 0x34, 0xc4, 0xc6, 0x62, 0x8b] };
        let mut p = t.bytes(n);
        p[..head.len()].copy_from_slice(head);
        for b in &mut p[n - 8..] {
            *b = 0xff;
        }
        let g = match t.below(6) {
            0 | 1 => vec![2],
            2 => vec![5],
            3 => vec![0, 2],
            4 => vec![],
            _ => t.bytes(n),
        };
        return MDh { p, g, ys: t.bytes(n) };
    }
    let p = t.blob(65535);
    let gmax = if t.chance(200) { 4 } else { 65535 };
    MDh { p, g: t.blob(gmax), ys: t.blob(65535) }
}

fn hexbytes(h: &str) -> Vec<u8> {
    (0..h.len() / 2).map(|i| u8::from_str_radix(&h[2 * i..2 * i + 2], 16).unwrap()).collect()
}

static PRIMES: std::sync::OnceLock<Vec<Vec<u8>>> = std::sync::OnceLock::new();

#[allow(non_snake_case)]
fn well_known_primes() -> &'static Vec<Vec<u8>> {
    PRIMES.get_or_init(|| {
        vec![
            hexbytes("ffffffff00000001000000000000000000000000ffffffffffffffffffffffff"),
            hexbytes("fffffffffffffffffffffffffffffffffffffffffffffffffffffffffffffffeffffffff0000000000000000ffffffff"),
            hexbytes("fffffffffffffffffffffffffffffffffffffffffffffffffffffffefffffc2f"),
            hexbytes("ffffffffffffffffffffffffffffffff000000000000000000000001"),
            hexbytes("7fffffffffffffffffffffffffffffffffffffffffffffffffffffffffffffed"),
        ]
    })
}

pub fn gen_ec_params(t: &mut Tape) -> MEcParams {
    if t.chance(150) {
        MEcParams::Named(if t.chance(100) { [0x001du16, 0x0017, 0x0018, 0x001e][t.below(4)] } else { t.u16b() })
    } else {
        let mut p = t.blob(255);
        if t.chance(70) {
            // the field primes of the curves servers really send in explicit form (secp256r1, secp384r1, secp256k1, secp224r1, curve25519)
            let ps = well_known_primes();
            p = ps[t.below(ps.len())].clone();
        }
        let base = if t.bool() {
            let mut v = t.bytes((2 * p.len() + 1).clamp(2, 255));
            v[0] = 4;
            v
        } else {
            t.blob(255)
        };
        MEcParams::ExplicitPrime { p, a: t.blob(255), b: t.blob(255), base, order: t.blob(255), cofactor: t.blob(255) }
    }
}

/// the X25519 public values implementations single out: the small-order points (0, 1, the two order-8 points, p-1, p, p+1) and the base point 9
pub const X25519_SPECIAL: [[u8; 32]; 8] = [
    [0; 32],
    [1, 0, 0, 0, 0, 0, 0, 0, 0, 0, 0, 0, 0, 0, 0, 0, 0, 0, 0, 0, 0, 0, 0, 0, 0, 0, 0, 0, 0, 0, 0, 0],
    [0xe0, 0xeb, 0x7a, 0x7c, 0x3b, 0x41, 0xb8, 0xae, 0x16, 0x56, 0xe3, 0xfa, 0xf1, 0x9f, 0xc4, 0x6a, 0xda, 0x09, 0x8d, 0xeb, 0x9c, 0x32, 0xb1, 0xfd, 0x86, 0x62, 0x05, 0x16, 0x5f, 0x49, 0xb8, 0x00],
    [0x5f, 0x9c, 0x95, 0xbc, 0xa3, 0x50, 0x8c, 0x24, 0xb1, 0xd0, 0xb1, 0x55, 0x9c, 0x83, 0xef, 0x5b, 0x04, 0x44, 0x5c, 0xc4, 0x58, 0x1c, 0x8e, 0x86, 0xd8, 0x22, 0x4e, 0xdd, 0xd0, 0x9f, 0x11, 0x57],
    [0xec, 0xff, 0xff, 0xff, 0xff, 0xff, 0xff, 0xff, 0xff, 0xff, 0xff, 0xff, 0xff, 0xff, 0xff, 0xff, 0xff, 0xff, 0xff, 0xff, 0xff, 0xff, 0xff, 0xff, 0xff, 0xff, 0xff, 0xff, 0xff, 0xff, 0xff, 0x7f],
    [0xed, 0xff, 0xff, 0xff, 0xff, 0xff, 0xff, 0xff, 0xff, 0xff, 0xff, 0xff, 0xff, 0xff, 0xff, 0xff, 0xff, 0xff, 0xff, 0xff, 0xff, 0xff, 0xff, 0xff, 0xff, 0xff, 0xff, 0xff, 0xff, 0xff, 0xff, 0x7f],
    [0xee, 0xff, 0xff, 0xff, 0xff, 0xff, 0xff, 0xff, 0xff, 0xff, 0xff, 0xff, 0xff, 0xff, 0xff, 0xff, 0xff, 0xff, 0xff, 0xff, 0xff, 0xff, 0xff, 0xff, 0xff, 0xff, 0xff, 0xff, 0xff, 0xff, 0xff, 0x7f],
    [9, 0, 0, 0, 0, 0, 0, 0, 0, 0, 0, 0, 0, 0, 0, 0, 0, 0, 0, 0, 0, 0, 0, 0, 0, 0, 0, 0, 0, 0, 0, 0],
];

pub fn gen_ecdh(t: &mut Tape) -> MEcdh {
    let params = gen_ec_params(t);
    // relations between the fields a validating parser might look for: the public point equal to the curve's base point, the point at
    // infinity (a single zero byte), an uncompressed point of the right size
    let public = match (&params, t.below(8)) {
        (MEcParams::ExplicitPrime { base, .. }, 0 | 1) => base.clone(),
        (MEcParams::ExplicitPrime { p, .. }, 2) => {
            let mut v = t.bytes((2 * p.len() + 1).min(255));
            v[0] = 4;
            v
        }
        (_, 3) => vec![0],
        (MEcParams::Named(0x001d), 4 | 5 | 6) => X25519_SPECIAL[t.below(X25519_SPECIAL.len())].to_vec(),
        _ => t.blob(255),
    };
    MEcdh { params, public }
}

pub fn gen_signed(t: &mut Tape, with_alg: bool) -> MSigned {
    let data = if t.chance(70) { gen_der_ecdsa_sig(t) } else { t.blob(65535) };
    let mut alg = if with_alg { Some(gen_sig_alg(t)) } else { None };
    if with_alg && t.chance(24) && data.len() + 2 <= 65535 {
        // the two algorithm octets, read as a u16, equal the number of bytes that follow them (length field + signature): what the
        // layout WITHOUT algorithm octets would look like
        let v = data.len() + 2;
        alg = Some(((v >> 8) as u8, v as u8));
    }
    MSigned { alg, data }
}

pub fn gen_sct(t: &mut Tape, budget: usize) -> MSct {
    let b = budget.saturating_sub(47);
    let extensions = t.blob((b / 2).min(65535));
    let signature = t.blob((b - extensions.len()).min(65535));
    let mut extensions = extensions;
    if t.chance(50) && b >= 60 {
        // CT extensions as newer logs fill them: typed items (u8 type, u16 length, data), bare or behind a u16 total - opaque bytes all the same
        let mut items = Enc::new();
        for _ in 0..1 + t.below(3) {
            items.u8(t.pick(&[0u8, 0, 1, 7]));
            items.vec(2, "ctext.item", &if t.bool() { vec![0, 0, 0, 0x30, 0x39] } else { t.small_blob(8) });
        }
        extensions = if t.bool() {
            items.buf
        } else {
            let mut e = Enc::new();
            e.vec(2, "ctext.total", &items.buf);
            e.buf
        };
    }
    if t.chance(18) {
        // extension data that reads like the fields FOLLOWING the extensions (algorithm pair, u16 signature length, signature bytes), with an
        // extension length that is a multiple of 256 when the budget allows: a decoder that peeks at "extensions length | algorithm" as one
        // word, or tests only part of the length, mistakes such data for the SCT's own tail
        let total = if b >= 1200 && t.chance(70) { 256 * (1 + t.below(4)) } else if b >= 60 { 4 + t.below(40) } else { 0 };
        if total >= 4 {
            let (h, s) = if t.chance(60) { (4u8, 3u8) } else { gen_sig_alg(t) };
            let inner = t.below(total - 3);
            let mut x = vec![h, s, (inner >> 8) as u8, inner as u8];
            x.extend((0..total - 4).map(|i| 0x30 + (i % 7) as u8));
            extensions = x;
        }
    }
    let mut id = t.bytes(32);
    if t.chance(20) {
        // a log id whose first octets read like an RFC 9162 (CT v2) TransItem: type 3 / 4, then a DER OID (length, 06, length - 2)
        let l = 2 + t.below(30) as u8;
        id[0] = t.pick(&[3u8, 4]);
        id[1] = l;
        id[2] = 6;
        id[3] = l - 2;
    }
    let (mut hash, mut sign) = gen_sig_alg(t);
    let signature = if t.chance(60) { gen_der_ecdsa_sig(t) } else { signature };
    if t.chance(16) {
        let v = signature.len() + 2;
        hash = (v >> 8) as u8;
        sign = v as u8;
    }
    MSct { version: if t.chance(128) { 0 } else { t.u8() }, id, timestamp: if t.chance(90) { gen_calendar_ms(t) } else { t.u64b() }, extensions, hash, sign, alg_present: true, signature }
}

pub fn gen_sct_list(t: &mut Tape) -> Vec<MSct> {
    if t.chance(8) {
        // many minimal SCTs (49 bytes each), up to what the u16 list length can hold
        let n = t.pick(&[255usize, 256, 257, 1024, 1025, 1336, 1337]);
        return (0..n).map(|i| MSct { version: 0, id: vec![i as u8; 32], timestamp: i as u64, extensions: vec![], hash: (i % 7) as u8, sign: (i % 5) as u8, alg_present: true, signature: vec![] }).collect();
    }
    let n = t.small(8);
    let mut left = 65535usize;
    let mut v: Vec<MSct> = Vec::new();
    for _ in 0..n {
        if left < 49 {
            break;
        }
        let b = if t.chance(30) { left - 2 } else { (left - 2).min(400) };
        // now and then the same entry again, next to its twin (a list is a list: equal neighbours are kept)
        let s = if !v.is_empty() && t.chance(40) { v[v.len() - 1].clone() } else { gen_sct(t, b) };
        let mut e = Enc::new();
        s.encode(&mut e);
        if e.buf.len() > left {
            break;
        }
        left -= e.buf.len();
        v.push(s);
    }
    v
}
