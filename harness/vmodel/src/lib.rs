pub mod tape; pub mod wire; pub mod model; pub mod iana; pub mod states; pub mod ciphers;
