//! IANA / RFC code points for the registries tls-parser exposes, typed in from the registries
//! (TLS ContentType, HandshakeType, Alert, ExtensionType, Supported Groups, SignatureScheme,
//! HashAlgorithm, SignatureAlgorithm, EC Curve Type, RFC 6066 / 6520 / 6962 / 8446 enums).
//! The identifier spelling is the crate's (it is part of its API); the numbers are the registry's.

pub struct Registry {
    pub ty: &'static str,
    /// width of the wire field in bits
    pub bits: u32,
    /// Display prints the constant name
    pub display_names: bool,
    /// Debug prints the constant name too
    pub debug_names: bool,
    pub consts: &'static [(&'static str, u32)],
}

pub const RECORD_TYPE: Registry = Registry {
    ty: "TlsRecordType",
    bits: 8,
    display_names: true,
    debug_names: true,
    consts: &[("ChangeCipherSpec", 20), ("Alert", 21), ("Handshake", 22), ("ApplicationData", 23), ("Heartbeat", 24)],
};

pub const HANDSHAKE_TYPE: Registry = Registry {
    ty: "TlsHandshakeType",
    bits: 8,
    display_names: true,
    debug_names: true,
    consts: &[
        ("HelloRequest", 0),
        ("ClientHello", 1),
        ("ServerHello", 2),
        ("HelloVerifyRequest", 3),
        ("NewSessionTicket", 4),
        ("EndOfEarlyData", 5),
        ("HelloRetryRequest", 6),
        ("EncryptedExtensions", 8),
        ("Certificate", 11),
        ("ServerKeyExchange", 12),
        ("CertificateRequest", 13),
        ("ServerDone", 14),
        ("CertificateVerify", 15),
        ("ClientKeyExchange", 16),
        ("Finished", 20),
        ("CertificateURL", 21),
        ("CertificateStatus", 22),
        ("KeyUpdate", 24),
        ("NextProtocol", 67),
    ],
};

pub const VERSION: Registry = Registry {
    ty: "TlsVersion",
    bits: 16,
    display_names: true,
    debug_names: true,
    consts: &[
        ("Ssl30", 0x0300),
        ("Tls10", 0x0301),
        ("Tls11", 0x0302),
        ("Tls12", 0x0303),
        ("Tls13", 0x0304),
        ("Tls13Draft18", 0x7f12),
        ("Tls13Draft19", 0x7f13),
        ("Tls13Draft20", 0x7f14),
        ("Tls13Draft21", 0x7f15),
        ("Tls13Draft22", 0x7f16),
        ("Tls13Draft23", 0x7f17),
        ("DTls10", 0xfeff),
        ("DTls11", 0xfefe),
        ("DTls12", 0xfefd),
    ],
};

pub const HEARTBEAT_TYPE: Registry =
    Registry { ty: "TlsHeartbeatMessageType", bits: 8, display_names: true, debug_names: true, consts: &[("HeartBeatRequest", 1), ("HeartBeatResponse", 2)] };

pub const COMPRESSION: Registry = Registry { ty: "TlsCompressionID", bits: 8, display_names: true, debug_names: true, consts: &[("Null", 0), ("Deflate", 1)] };

pub const KEY_UPDATE: Registry = Registry { ty: "KeyUpdateRequest", bits: 8, display_names: false, debug_names: false, consts: &[("NotRequested", 0), ("Requested", 1)] };

pub const ALERT_SEVERITY: Registry = Registry { ty: "TlsAlertSeverity", bits: 8, display_names: true, debug_names: false, consts: &[("Warning", 1), ("Fatal", 2)] };

pub const ALERT_DESCRIPTION: Registry = Registry {
    ty: "TlsAlertDescription",
    bits: 8,
    display_names: true,
    debug_names: false,
    consts: &[
        ("CloseNotify", 0),
        ("UnexpectedMessage", 10),
        ("BadRecordMac", 20),
        ("DecryptionFailed", 21),
        ("RecordOverflow", 22),
        ("DecompressionFailure", 30),
        ("HandshakeFailure", 40),
        ("NoCertificate", 41),
        ("BadCertificate", 42),
        ("UnsupportedCertificate", 43),
        ("CertificateRevoked", 44),
        ("CertificateExpired", 45),
        ("CertificateUnknown", 46),
        ("IllegalParameter", 47),
        ("UnknownCa", 48),
        ("AccessDenied", 49),
        ("DecodeError", 50),
        ("DecryptError", 51),
        ("ExportRestriction", 60),
        ("ProtocolVersion", 70),
        ("InsufficientSecurity", 71),
        ("InternalError", 80),
        ("InappropriateFallback", 86),
        ("UserCancelled", 90),
        ("NoRenegotiation", 100),
        ("MissingExtension", 109),
        ("UnsupportedExtension", 110),
        ("CertUnobtainable", 111),
        ("UnrecognizedName", 112),
        ("BadCertStatusResponse", 113),
        ("BadCertHashValue", 114),
        ("UnknownPskIdentity", 115),
        ("CertificateRequired", 116),
        ("NoApplicationProtocol", 120),
    ],
};

pub const EXTENSION_TYPE: Registry = Registry {
    ty: "TlsExtensionType",
    bits: 16,
    display_names: true,
    debug_names: false,
    consts: &[
        ("ServerName", 0),
        ("MaxFragmentLength", 1),
        ("ClientCertificate", 2),
        ("TrustedCaKeys", 3),
        ("TruncatedHMac", 4),
        ("StatusRequest", 5),
        ("UserMapping", 6),
        ("ClientAuthz", 7),
        ("ServerAuthz", 8),
        ("CertType", 9),
        ("SupportedGroups", 10),
        ("EcPointFormats", 11),
        ("Srp", 12),
        ("SignatureAlgorithms", 13),
        ("UseSrtp", 14),
        ("Heartbeat", 15),
        ("ApplicationLayerProtocolNegotiation", 16),
        ("StatusRequestv2", 17),
        ("SignedCertificateTimestamp", 18),
        ("ClientCertificateType", 19),
        ("ServerCertificateType", 20),
        ("Padding", 21),
        ("EncryptThenMac", 22),
        ("ExtendedMasterSecret", 23),
        ("TokenBinding", 24),
        ("CachedInfo", 25),
        ("RecordSizeLimit", 28),
        ("SessionTicketTLS", 35),
        ("KeyShareOld", 40),
        ("PreSharedKey", 41),
        ("EarlyData", 42),
        ("SupportedVersions", 43),
        ("Cookie", 44),
        ("PskExchangeModes", 45),
        ("TicketEarlyDataInfo", 46),
        ("CertificateAuthorities", 47),
        ("OidFilters", 48),
        ("PostHandshakeAuth", 49),
        ("SigAlgorithmsCert", 50),
        ("KeyShare", 51),
        ("NextProtocolNegotiation", 13172),
        ("Grease", 0xfafa),
        ("RenegotiationInfo", 0xff01),
        ("EncryptedServerName", 0xffce),
    ],
};

pub const PSK_MODE: Registry = Registry { ty: "PskKeyExchangeMode", bits: 8, display_names: false, debug_names: false, consts: &[("Psk", 0), ("PskDhe", 1)] };

pub const SNI_TYPE: Registry = Registry { ty: "SNIType", bits: 8, display_names: true, debug_names: false, consts: &[("HostName", 0)] };

pub const CERT_STATUS_TYPE: Registry = Registry { ty: "CertificateStatusType", bits: 8, display_names: true, debug_names: true, consts: &[("OCSP", 1)] };

pub const NAMED_GROUP: Registry = Registry {
    ty: "NamedGroup",
    bits: 16,
    display_names: true,
    debug_names: true,
    consts: &[
        ("Sect163k1", 1),
        ("Sect163r1", 2),
        ("Sect163r2", 3),
        ("Sect193r1", 4),
        ("Sect193r2", 5),
        ("Sect233k1", 6),
        ("Sect233r1", 7),
        ("Sect239k1", 8),
        ("Sect283k1", 9),
        ("Sect283r1", 10),
        ("Sect409k1", 11),
        ("Sect409r1", 12),
        ("Sect571k1", 13),
        ("Sect571r1", 14),
        ("Secp160k1", 15),
        ("Secp160r1", 16),
        ("Secp160r2", 17),
        ("Secp192k1", 18),
        ("Secp192r1", 19),
        ("Secp224k1", 20),
        ("Secp224r1", 21),
        ("Secp256k1", 22),
        ("Secp256r1", 23),
        ("Secp384r1", 24),
        ("Secp521r1", 25),
        ("BrainpoolP256r1", 26),
        ("BrainpoolP384r1", 27),
        ("BrainpoolP512r1", 28),
        ("EcdhX25519", 29),
        ("EcdhX448", 30),
        ("BrainpoolP256r1tls13", 31),
        ("BrainpoolP384r1tls13", 32),
        ("BrainpoolP512r1tls13", 33),
        ("Sm2", 41),
        ("Ffdhe2048", 256),
        ("Ffdhe3072", 257),
        ("Ffdhe4096", 258),
        ("Ffdhe6144", 259),
        ("Ffdhe8192", 260),
        ("ArbitraryExplicitPrimeCurves", 0xff01),
        ("ArbitraryExplicitChar2Curves", 0xff02),
    ],
};

pub const EC_CURVE_TYPE: Registry =
    Registry { ty: "ECCurveType", bits: 8, display_names: true, debug_names: false, consts: &[("ExplicitPrime", 1), ("ExplicitChar2", 2), ("NamedGroup", 3)] };

pub const HASH_ALG: Registry = Registry {
    ty: "HashAlgorithm",
    bits: 8,
    display_names: true,
    debug_names: false,
    consts: &[("None", 0), ("Md5", 1), ("Sha1", 2), ("Sha224", 3), ("Sha256", 4), ("Sha384", 5), ("Sha512", 6), ("Intrinsic", 8)],
};

pub const SIGN_ALG: Registry = Registry {
    ty: "SignAlgorithm",
    bits: 8,
    display_names: true,
    debug_names: false,
    consts: &[("Anonymous", 0), ("Rsa", 1), ("Dsa", 2), ("Ecdsa", 3), ("Ed25519", 7), ("Ed448", 8)],
};

pub const SIGNATURE_SCHEME: Registry = Registry {
    ty: "SignatureScheme",
    bits: 16,
    display_names: true,
    debug_names: false,
    consts: &[
        ("rsa_pkcs1_sha256", 0x0401),
        ("rsa_pkcs1_sha384", 0x0501),
        ("rsa_pkcs1_sha512", 0x0601),
        ("ecdsa_secp256r1_sha256", 0x0403),
        ("ecdsa_secp384r1_sha384", 0x0503),
        ("ecdsa_secp521r1_sha512", 0x0603),
        ("sm2sig_sm3", 0x0708),
        ("rsa_pss_rsae_sha256", 0x0804),
        ("rsa_pss_rsae_sha384", 0x0805),
        ("rsa_pss_rsae_sha512", 0x0806),
        ("ed25519", 0x0807),
        ("ed448", 0x0808),
        ("rsa_pss_pss_sha256", 0x0809),
        ("rsa_pss_pss_sha384", 0x080a),
        ("rsa_pss_pss_sha512", 0x080b),
        ("ecdsa_brainpoolP256r1tls13_sha256", 0x081a),
        ("ecdsa_brainpoolP384r1tls13_sha384", 0x081b),
        ("ecdsa_brainpoolP512r1tls13_sha512", 0x081c),
        ("rsa_pkcs1_sha1", 0x0201),
        ("ecdsa_sha1", 0x0203),
    ],
};

pub const CT_VERSION: Registry = Registry { ty: "CtVersion", bits: 8, display_names: true, debug_names: false, consts: &[("V1", 0)] };

pub const ALL: [&Registry; 18] = [
    &RECORD_TYPE,
    &HANDSHAKE_TYPE,
    &VERSION,
    &HEARTBEAT_TYPE,
    &COMPRESSION,
    &KEY_UPDATE,
    &ALERT_SEVERITY,
    &ALERT_DESCRIPTION,
    &EXTENSION_TYPE,
    &PSK_MODE,
    &SNI_TYPE,
    &CERT_STATUS_TYPE,
    &NAMED_GROUP,
    &EC_CURVE_TYPE,
    &HASH_ALG,
    &SIGN_ALG,
    &SIGNATURE_SCHEME,
    &CT_VERSION,
];

impl Registry {
    pub fn name_of(&self, v: u32) -> Option<&'static str> {
        self.consts.iter().find(|c| c.1 == v).map(|c| c.0)
    }
    pub fn has_name(&self, s: &str) -> bool {
        self.consts.iter().any(|c| c.0 == s)
    }
}

/// field size in bits stated by the name of a classic curve (ids 1..=28: sect/secp/brainpoolP NNN ..)
pub fn classic_curve_bits(id: u16) -> Option<u16> {
    let name = NAMED_GROUP.name_of(id as u32)?;
    if !(1..=28).contains(&id) {
        return None;
    }
    let digits: String = name.chars().skip_while(|c| !c.is_ascii_digit()).take_while(|c| c.is_ascii_digit()).collect();
    digits.parse().ok()
}

/// for the registered groups the crate's doc leaves open ("None if unknown"): the size the name states, if any
pub fn optional_group_bits(id: u16) -> Option<Option<u16>> {
    match id {
        29 => None,              // x25519: the name states no size -> unconstrained
        30 => Some(Some(448)),   // x448
        31 => Some(Some(256)),
        32 => Some(Some(384)),
        33 => Some(Some(512)),
        41 => Some(Some(256)),
        256 => Some(Some(2048)),
        257 => Some(Some(3072)),
        258 => Some(Some(4096)),
        259 => Some(Some(6144)),
        260 => Some(Some(8192)),
        0xff01 | 0xff02 => Some(None),
        _ => Some(None),
    }
}
