//! Minimal wire writer used by the reference encoders. Records where every length prefix lives,
//! so corruption operators can target them.

#[derive(Clone, Debug, PartialEq)]
pub struct LenField {
    pub off: usize,
    pub width: usize,
    pub value: usize,
    pub label: &'static str,
}

#[derive(Clone, Debug, Default)]
pub struct Enc {
    pub buf: Vec<u8>,
    pub lens: Vec<LenField>,
}

impl Enc {
    pub fn new() -> Self {
        Enc::default()
    }
    pub fn u8(&mut self, v: u8) {
        self.buf.push(v);
    }
    pub fn u16(&mut self, v: u16) {
        self.buf.extend_from_slice(&v.to_be_bytes());
    }
    pub fn u24(&mut self, v: u32) {
        self.buf.extend_from_slice(&v.to_be_bytes()[1..]);
    }
    pub fn u32(&mut self, v: u32) {
        self.buf.extend_from_slice(&v.to_be_bytes());
    }
    pub fn u48(&mut self, v: u64) {
        self.buf.extend_from_slice(&v.to_be_bytes()[2..]);
    }
    pub fn u64(&mut self, v: u64) {
        self.buf.extend_from_slice(&v.to_be_bytes());
    }
    pub fn bytes(&mut self, v: &[u8]) {
        self.buf.extend_from_slice(v);
    }
    /// write a `width`-byte big-endian length prefix followed by whatever `f` writes
    pub fn with_len(&mut self, width: usize, label: &'static str, f: impl FnOnce(&mut Enc)) {
        let off = self.buf.len();
        for _ in 0..width {
            self.buf.push(0);
        }
        let idx = self.lens.len();
        self.lens.push(LenField { off, width, value: 0, label });
        f(self);
        let n = self.buf.len() - off - width;
        self.lens[idx].value = n;
        set_be(&mut self.buf[off..off + width], n as u64);
    }
    /// length-prefixed opaque vector
    pub fn vec(&mut self, width: usize, label: &'static str, v: &[u8]) {
        self.with_len(width, label, |e| e.bytes(v));
    }
    pub fn len(&self) -> usize {
        self.buf.len()
    }
}

pub fn set_be(dst: &mut [u8], v: u64) {
    let w = dst.len();
    for (i, b) in dst.iter_mut().enumerate() {
        *b = (v >> (8 * (w - 1 - i))) as u8;
    }
}

pub fn get_be(src: &[u8]) -> u64 {
    src.iter().fold(0u64, |a, &b| a << 8 | b as u64)
}

pub fn hex(b: &[u8]) -> String {
    let mut s = String::with_capacity(b.len() * 2);
    for x in b {
        s.push_str(&format!("{:02x}", x));
    }
    s
}

/// hex with the middle elided for long strings (for evidence samples)
pub fn hex_short(b: &[u8]) -> String {
    if b.len() <= 48 {
        hex(b)
    } else {
        format!("{}..({} bytes)..{}", hex(&b[..24]), b.len(), hex(&b[b.len() - 8..]))
    }
}

pub fn unhex(s: &str) -> Option<Vec<u8>> {
    let s = s.trim();
    if s.len() % 2 != 0 {
        return None;
    }
    (0..s.len() / 2).map(|i| u8::from_str_radix(&s[2 * i..2 * i + 2], 16).ok()).collect()
}

pub fn fnv64(b: &[u8]) -> u64 {
    let mut h: u64 = 0xcbf29ce484222325;
    for &x in b {
        h ^= x as u64;
        h = h.wrapping_mul(0x100000001b3);
    }
    h
}
