//! cfgdiff: prints one digest line per corpus input (hex lines in the file given as argv[1]):
//! `<index> <number of entry points that returned Ok> <fnv64 over the {:?} of every result>`.
//! Built once per feature set of tls-parser; the outputs must be byte-identical (C18).

use tls_parser::*;

fn fnv(h: &mut u64, s: &str) {
    for b in s.as_bytes() {
        *h ^= *b as u64;
        *h = h.wrapping_mul(0x100000001b3);
    }
    *h ^= 0xff;
    *h = h.wrapping_mul(0x100000001b3);
}

fn unhex(s: &str) -> Vec<u8> {
    (0..s.len() / 2).filter_map(|i| u8::from_str_radix(&s[2 * i..2 * i + 2], 16).ok()).collect()
}

macro_rules! run {
    ($h:expr, $ok:expr, $e:expr) => {{
        let r = $e;
        if r.is_ok() {
            $ok += 1;
        }
        fnv(&mut $h, &format!("{:?}", r));
    }};
}

/// verdict of `==` between the results of one parser on two inputs (the previous corpus line and this one)
macro_rules! eqv {
    ($h:expr, $a:expr, $b:expr, $($p:expr),+) => {{
        $( fnv(&mut $h, if $p($a) == $p($b) { "eq" } else { "ne" }); )+
    }};
}

/// `cfgdiff --deep <kind> <n>`: one list parser on n minimal elements, on a thread with the default stack of a spawned Rust thread
/// (2 MiB). Used by C01 `deep_inputs` with this program built WITHOUT optimisation, where every call really has a stack frame: a parser
/// whose stack depth grows with the number of elements dies here (the process is killed by the stack guard), an iterative one prints
/// the number of elements it returned.
fn deep(kind: &str, n: usize) {
    let mut buf: Vec<u8> = Vec::new();
    let unit: &[u8] = match kind {
        "tls-records" => &[0x17, 3, 3, 0, 0],
        "tls-alert-records" => &[0x15, 3, 3, 0, 2, 1, 0],
        "dtls-records" => &[0x14, 0xfe, 0xfd, 0, 0, 0, 0, 0, 0, 0, 5, 0, 1, 1],
        "extensions" | "client-extensions" | "server-extensions" => &[0x40, 0x01, 0, 0],
        "handshake-messages" => &[0x0e, 0, 0, 0],
        "alerts" => &[1, 0],
        "sct-entries" => &[0, 1, 0xff],
        "named-groups" => &[0, 0x1d],
        _ => {
            println!("unknown kind");
            return;
        }
    };
    for _ in 0..n {
        buf.extend_from_slice(unit);
    }
    let kind = kind.to_string();
    let h = std::thread::Builder::new().stack_size(2 * 1024 * 1024).spawn(move || -> String {
        let i = buf.as_slice();
        let hs = TlsRecordHeader { record_type: TlsRecordType::Handshake, version: TlsVersion::Tls12, len: 0 };
        let al = TlsRecordHeader { record_type: TlsRecordType::Alert, version: TlsVersion::Tls12, len: 0 };
        let count = match kind.as_str() {
            "tls-records" | "tls-alert-records" => tls_parser_many(i).map(|(_, v)| v.len()),
            "dtls-records" => parse_dtls_plaintext_records(i).map(|(_, v)| v.len()),
            "extensions" => parse_tls_extensions(i).map(|(_, v)| v.len()),
            "client-extensions" => parse_tls_client_hello_extensions(i).map(|(_, v)| v.len()),
            "server-extensions" => parse_tls_server_hello_extensions(i).map(|(_, v)| v.len()),
            "handshake-messages" => parse_tls_record_with_header(i, &hs).map(|(_, v)| v.len()),
            "alerts" => parse_tls_record_with_header(i, &al).map(|(_, v)| v.len()),
            "named-groups" => parse_named_groups(i).map(|(_, v)| v.len()),
            _ => Ok(0),
        };
        match count {
            Ok(c) => format!("ok {}", c),
            Err(e) => format!("err {:?}", e.map(|x| x.code)),
        }
    });
    match h.map(|h| h.join()) {
        Ok(Ok(s)) => println!("{}", s),
        Ok(Err(_)) => println!("panicked"),
        Err(e) => println!("spawn failed: {}", e),
    }
}

fn main() {
    if std::env::args().nth(1).as_deref() == Some("--deep") {
        let kind = std::env::args().nth(2).unwrap_or_default();
        let n: usize = std::env::args().nth(3).and_then(|x| x.parse().ok()).unwrap_or(1000);
        deep(&kind, n);
        return;
    }
    let path = std::env::args().nth(1).expect("corpus file");
    let text = std::fs::read_to_string(path).expect("read corpus");
    let mut out = String::new();
    let mut prev: Vec<u8> = Vec::new();
    for (idx, line) in text.lines().enumerate() {
        let b = unhex(line.trim());
        let i = b.as_slice();
        let mut h: u64 = 0xcbf29ce484222325;
        let mut ok = 0u32;
        run!(h, ok, parse_tls_plaintext(i));
        run!(h, ok, parse_tls_encrypted(i));
        run!(h, ok, parse_tls_raw_record(i));
        run!(h, ok, tls_parser_many(i));
        run!(h, ok, parse_tls_message_handshake(i));
        run!(h, ok, parse_tls_handshake_client_hello(i));
        run!(h, ok, parse_tls_handshake_msg_server_hello(i));
        run!(h, ok, parse_tls_handshake_msg_certificate(i));
        run!(h, ok, parse_tls_handshake_certificaterequest(i));
        run!(h, ok, parse_tls_handshake_msg_newsessionticket(i, i.len()));
        run!(h, ok, parse_tls_extension(i));
        run!(h, ok, parse_tls_extensions(i));
        run!(h, ok, parse_tls_client_hello_extensions(i));
        run!(h, ok, parse_tls_server_hello_extensions(i));
        run!(h, ok, parse_tls_extension_sni(i));
        run!(h, ok, parse_tls_extension_supported_versions(i));
        run!(h, ok, parse_tls_extension_encrypted_server_name(i));
        run!(h, ok, parse_dtls_plaintext_record(i));
        run!(h, ok, parse_dtls_plaintext_records(i));
        run!(h, ok, parse_dtls_message_handshake(i));
        run!(h, ok, parse_ct_signed_certificate_timestamp_list(i));
        run!(h, ok, parse_dh_params(i));
        run!(h, ok, parse_ecdh_params(i));
        run!(h, ok, parse_ec_parameters(i));
        run!(h, ok, parse_digitally_signed(i));
        run!(h, ok, parse_digitally_signed_old(i));
        run!(h, ok, parse_content_and_signature(i, parse_dh_params, true));
        run!(h, ok, parse_content_and_signature(i, parse_ecdh_params, false));
        run!(h, ok, parse_tls_message_alert(i));
        run!(h, ok, parse_named_groups(i));
        // registry lookups keyed by the first bytes / a name built from them
        if i.len() >= 2 {
            let id = (i[0] as u16) << 8 | i[1] as u16;
            fnv(&mut h, &format!("{:?}", TlsCipherSuite::from_id(id)));
            fnv(&mut h, &format!("{:?} {} {:?}", TlsCipherSuiteID(id), TlsVersion(id), NamedGroup(id).key_bits()));
            fnv(&mut h, &format!("{} {} {}", TlsExtensionType(id), SignatureScheme(id), TlsAlertDescription(i[0])));
            if let Some(c) = TlsCipherSuite::from_id(id) {
                fnv(&mut h, &format!("{:?} {} {} {}", TlsCipherSuite::from_name(c.name).map(|x| x.id), c.enc_key_size(), c.enc_block_size(), c.mac_length()));
            }
        }
        // state machine over the messages of the record, and the defragmenter over the raw record
        if let Ok((_, p)) = parse_tls_plaintext(i) {
            let mut st = TlsState::None;
            for (k, m) in p.msg.iter().enumerate() {
                let r = tls_state_transition(st, m, k % 2 == 0);
                fnv(&mut h, &format!("{:?}", r));
                st = r.unwrap_or(TlsState::Invalid);
            }
        }
        if let Ok((_, raw)) = parse_tls_raw_record(i) {
            // a call history on one parser: three fragments of the payload, interleaved with calls that must be refused
            let n = raw.data.len();
            let (a, rest) = raw.data.split_at(n / 3);
            let (b2, c) = rest.split_at(rest.len() / 2);
            let rec = |d| TlsRawRecord { hdr: raw.hdr, data: d };
            let alert_hdr = TlsRecordHeader { record_type: TlsRecordType::Alert, version: raw.hdr.version, len: 2 };
            let app_hdr = TlsRecordHeader { record_type: TlsRecordType::ApplicationData, version: raw.hdr.version, len: 3 };
            let mut d = TlsRecordsParser::default();
            let s1 = format!("{:?}", d.parse_record(rec(a)));
            fnv(&mut h, &format!("{} {}", s1, d.defrag_in_progress()));
            let s2 = format!("{:?}", d.parse_record(TlsRawRecord { hdr: alert_hdr, data: &[1, 0] }));
            fnv(&mut h, &format!("{} {}", s2, d.defrag_in_progress()));
            let s3 = format!("{:?}", d.parse_record_nocopy(rec(a)));
            fnv(&mut h, &format!("{} {}", s3, d.defrag_in_progress()));
            let s4 = format!("{:?}", d.parse_record(TlsRawRecord { hdr: app_hdr, data: &[1, 2, 3] }));
            fnv(&mut h, &format!("{} {}", s4, d.defrag_in_progress()));
            let s5 = format!("{:?}", d.parse_record(rec(b2)));
            fnv(&mut h, &format!("{} {}", s5, d.defrag_in_progress()));
            let s6 = format!("{:?}", d.parse_record(rec(c)));
            fnv(&mut h, &format!("{} {}", s6, d.defrag_in_progress()));
            // reuse after completion / after reset
            let s7 = format!("{:?}", d.parse_record(rec(raw.data)));
            fnv(&mut h, &format!("{} {}", s7, d.defrag_in_progress()));
            d.reset();
            let s8 = format!("{:?}", d.parse_record(rec(c)));
            fnv(&mut h, &format!("{} {}", s8, d.defrag_in_progress()));
        }
        // what `==` says about the values decoded from the previous input and from this one (the corpus has runs of near-duplicates)
        {
            let p = prev.as_slice();
            eqv!(h, p, i, parse_tls_plaintext, parse_tls_raw_record, parse_tls_message_handshake, parse_tls_handshake_client_hello, parse_tls_handshake_msg_server_hello,
                parse_tls_handshake_msg_certificate, parse_tls_handshake_certificaterequest, parse_tls_extension, parse_tls_extensions, parse_dtls_plaintext_record,
                parse_dtls_message_handshake, parse_ct_signed_certificate_timestamp_list, parse_dh_params, parse_ecdh_params, parse_digitally_signed);
        }
        prev = b.clone();
        out.push_str(&format!("{} {} {:016x}\n", idx, ok, h));
    }
    // fixed probes, independent of the corpus: public limits, and long streams that only large inputs reach
    let mut h: u64 = 0xcbf29ce484222325;
    fnv(&mut h, &format!("{} {}", MAX_RECORD_LEN, MAX_RECORD_DATA));
    out.push_str(&format!("limits MAX_RECORD_LEN={} MAX_RECORD_DATA={}\n", MAX_RECORD_LEN, MAX_RECORD_DATA));
    // a never-completing handshake stream of 16 KiB records until the defragmenter refuses
    let mut d = TlsRecordsParser::default();
    let hdr = TlsRecordHeader { record_type: TlsRecordType::Handshake, version: TlsVersion::Tls12, len: 16384 };
    let mut first = vec![0u8; 16384];
    first[..4].copy_from_slice(&[0x0b, 0xff, 0xff, 0xff]);
    let fill = vec![0x5au8; 16384];
    let mut refused_at = 0usize;
    for k in 0..800usize {
        let r = d.parse_record(TlsRawRecord { hdr, data: if k == 0 { &first } else { &fill } });
        let s = match &r {
            Ok(_) => "ok".to_string(),
            Err(e) => format!("{:?}", e),
        };
        fnv(&mut h, &s);
        if !s.contains("Incomplete") {
            refused_at = k;
            break;
        }
    }
    out.push_str(&format!("defrag-stream refused_at_record={} digest={:016x}\n", refused_at, h));
    // one fragmented 70000-byte message
    let mut d = TlsRecordsParser::default();
    let mut body = vec![0x0cu8, 0x01, 0x11, 0x70];
    body.extend(std::iter::repeat(0x33u8).take(70000));
    let mut res = String::new();
    for c in body.chunks(16384) {
        let hdr = TlsRecordHeader { record_type: TlsRecordType::Handshake, version: TlsVersion::Tls12, len: c.len() as u16 };
        res = match d.parse_record(TlsRawRecord { hdr, data: c }) {
            Ok((rem, v)) => format!("ok rem={} msgs={}", rem.len(), v.len()),
            Err(e) => format!("{:?}", e),
        };
    }
    out.push_str(&format!("defrag-70000 {}\n", res));
    // records and hellos at their size limits
    for len in [16640usize, 16641] {
        let mut rec = vec![0x17u8, 3, 3, (len >> 8) as u8, len as u8];
        rec.extend(std::iter::repeat(7u8).take(len));
        let r = parse_tls_plaintext(&rec);
        out.push_str(&format!("record-{} {}\n", len, match r { Ok((rem, p)) => format!("ok rem={} msgs={}", rem.len(), p.msg.len()), Err(e) => format!("{:?}", e.map(|x| x.code)) }));
    }
    let mut ch = vec![3u8, 3];
    ch.extend([9u8; 32]);
    ch.push(0);
    ch.extend([0xffu8, 0xfe]);
    for i in 0..32767u32 {
        ch.extend((i as u16).to_be_bytes());
    }
    ch.extend([1u8, 0]);
    let r = parse_tls_handshake_client_hello(&ch);
    out.push_str(&format!("clienthello-32767 {}\n", match r { Ok((rem, c)) => format!("ok rem={} ciphers={} known={}", rem.len(), c.ciphers.len(), c.get_ciphers().iter().filter(|x| x.is_some()).count()), Err(e) => format!("{:?}", e.map(|x| x.code)) }));
    print!("{}", out);
}
