//! Lists the public value types of the tls-parser tree under test (module-level `pub struct` / `pub enum` in the modules that are
//! re-exported at the crate root), so that the Send + Sync assertions are not limited to the types that existed when src/lib.rs was
//! written: OUT_DIR/auto_types.rs asserts `Send + Sync` for every such type (lifetime parameters instantiated with 'static; types
//! with type parameters are left to the hand-written list).
use std::fs;
use std::path::{Path, PathBuf};

fn repo_path() -> PathBuf {
    let manifest = fs::read_to_string(Path::new(&std::env::var("CARGO_MANIFEST_DIR").unwrap()).join("Cargo.toml")).unwrap();
    for line in manifest.lines() {
        let l = line.trim();
        if l.starts_with("tls-parser") {
            if let Some(p) = l.split("path").nth(1) {
                let q: Vec<&str> = p.split('"').collect();
                if q.len() >= 2 {
                    return PathBuf::from(q[1]);
                }
            }
        }
    }
    PathBuf::from("/repo")
}

fn main() {
    let repo = repo_path();
    let srcdir = repo.join("src");
    println!("cargo:rerun-if-changed={}", srcdir.display());
    println!("cargo:rerun-if-changed=build.rs");
    println!("cargo:rerun-if-changed=Cargo.toml");
    let librs = fs::read_to_string(srcdir.join("lib.rs")).unwrap_or_default();
    let serialize = std::env::var("CARGO_FEATURE_SERIALIZE").is_ok();
    let mut files: Vec<PathBuf> = fs::read_dir(&srcdir).map(|d| d.filter_map(|e| e.ok()).map(|e| e.path()).filter(|p| p.extension().map_or(false, |x| x == "rs")).collect()).unwrap_or_default();
    files.sort();
    let mut out = String::from("pub fn auto_types() {\n");
    let mut n = 0;
    for f in &files {
        println!("cargo:rerun-if-changed={}", f.display());
        let module = f.file_stem().unwrap().to_string_lossy().to_string();
        if module == "lib" || !librs.contains(&format!("pub use {}::*", module)) {
            continue;
        }
        if module == "tls_serialize" && !serialize {
            continue;
        }
        let src = fs::read_to_string(f).unwrap_or_default();
        let src = match src.find("#[cfg(test)]") {
            Some(p) => src[..p].to_string(),
            None => src,
        };
        let mut cfg_pending = false;
        for line in src.lines() {
            let t = line.trim_end();
            if t.starts_with("#[cfg(") {
                // an item behind a cfg attribute may not exist in this configuration: left to the hand-written list
                cfg_pending = true;
                continue;
            }
            let rest = if let Some(r) = t.strip_prefix("pub struct ") { r } else if let Some(r) = t.strip_prefix("pub enum ") { r } else {
                if !t.starts_with("#[") && !t.starts_with("//") && !t.is_empty() {
                    cfg_pending = false;
                }
                continue;
            };
            if cfg_pending {
                cfg_pending = false;
                continue;
            }
            let name: String = rest.chars().take_while(|c| c.is_alphanumeric() || *c == '_').collect();
            let after = &rest[name.len()..];
            let ty = if after.starts_with('<') {
                let end = after.find('>').unwrap_or(0);
                let params: Vec<&str> = after[1..end].split(',').map(|p| p.trim()).collect();
                if params.iter().any(|p| !p.starts_with('\'')) {
                    continue;
                }
                format!("{}<{}>", name, params.iter().map(|_| "'static").collect::<Vec<_>>().join(", "))
            } else {
                name.clone()
            };
            if name.is_empty() {
                continue;
            }
            out.push_str(&format!("    assert_send_sync::<tls_parser::{}>();\n", ty));
            n += 1;
        }
    }
    out.push_str(&format!("}}\npub const AUTO_TYPES: usize = {};\n", n));
    fs::write(Path::new(&std::env::var("OUT_DIR").unwrap()).join("auto_types.rs"), out).unwrap();
}
