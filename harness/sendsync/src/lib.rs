//! Compile-time assertions: every public value type of tls-parser is Send + Sync (C18).
#![allow(dead_code)]
use tls_parser::*;

fn assert_send_sync<T: Send + Sync>() {}

pub fn all() {
    assert_send_sync::<TlsPlaintext>();
    assert_send_sync::<TlsEncrypted>();
    assert_send_sync::<TlsRawRecord>();
    assert_send_sync::<TlsRecordHeader>();
    assert_send_sync::<TlsMessage>();
    assert_send_sync::<TlsMessageHandshake>();
    assert_send_sync::<TlsClientHelloContents>();
    assert_send_sync::<TlsServerHelloContents>();
    assert_send_sync::<TlsServerHelloV13Draft18Contents>();
    assert_send_sync::<TlsHelloRetryRequestContents>();
    assert_send_sync::<TlsNewSessionTicketContent>();
    assert_send_sync::<TlsCertificateContents>();
    assert_send_sync::<TlsCertificateRequestContents>();
    assert_send_sync::<TlsServerKeyExchangeContents>();
    assert_send_sync::<TlsClientKeyExchangeContents>();
    assert_send_sync::<TlsCertificateStatusContents>();
    assert_send_sync::<TlsNextProtocolContent>();
    assert_send_sync::<TlsMessageAlert>();
    assert_send_sync::<TlsMessageApplicationData>();
    assert_send_sync::<TlsMessageHeartbeat>();
    assert_send_sync::<TlsExtension>();
    assert_send_sync::<KeyShareEntry>();
    assert_send_sync::<OidFilter>();
    assert_send_sync::<DTLSPlaintext>();
    assert_send_sync::<DTLSRawRecord>();
    assert_send_sync::<DTLSRecordHeader>();
    assert_send_sync::<DTLSMessage>();
    assert_send_sync::<DTLSMessageHandshake>();
    assert_send_sync::<DTLSClientHello>();
    assert_send_sync::<DTLSHelloVerifyRequest>();
    assert_send_sync::<ServerDHParams>();
    assert_send_sync::<ServerECDHParams>();
    assert_send_sync::<ECParameters>();
    assert_send_sync::<ECPoint>();
    assert_send_sync::<DigitallySigned>();
    assert_send_sync::<SignedCertificateTimestamp>();
    assert_send_sync::<TlsRecordsParser>();
    assert_send_sync::<TlsState>();
    assert_send_sync::<StateChangeError>();
    assert_send_sync::<TlsCipherSuite>();
    assert_send_sync::<&'static TlsCipherSuite>();
    assert_send_sync::<TlsVersion>();
    assert_send_sync::<TlsCipherSuiteID>();
    assert_send_sync::<NamedGroup>();
    assert_send_sync::<SignatureScheme>();
    // every remaining public struct / enum / registry newtype of the crate (list taken from `pub struct` / `pub enum` / newtype_enum! in src/)
    assert_send_sync::<CertificateStatusType>();
    assert_send_sync::<CipherSuiteNotFound>();
    assert_send_sync::<CtExtensions>();
    assert_send_sync::<CtLogID>();
    assert_send_sync::<CtVersion>();
    assert_send_sync::<DTLSMessageHandshakeBody>();
    assert_send_sync::<ECCurve>();
    assert_send_sync::<ECCurveType>();
    assert_send_sync::<ECParametersContent>();
    assert_send_sync::<ExplicitPrimeContent>();
    assert_send_sync::<HashAlgorithm>();
    assert_send_sync::<KeyUpdateRequest>();
    assert_send_sync::<PskKeyExchangeMode>();
    assert_send_sync::<RawCertificate>();
    assert_send_sync::<SNIType>();
    assert_send_sync::<SignAlgorithm>();
    assert_send_sync::<SignatureAndHashAlgorithm>();
    assert_send_sync::<TlsAlertDescription>();
    assert_send_sync::<TlsAlertSeverity>();
    assert_send_sync::<TlsCipherAu>();
    assert_send_sync::<TlsCipherEnc>();
    assert_send_sync::<TlsCipherEncMode>();
    assert_send_sync::<TlsCipherKx>();
    assert_send_sync::<TlsCipherMac>();
    assert_send_sync::<TlsCompressionID>();
    assert_send_sync::<TlsEncryptedContent>();
    assert_send_sync::<TlsExtensionType>();
    assert_send_sync::<TlsHandshakeType>();
    assert_send_sync::<TlsHeartbeatMessageType>();
    assert_send_sync::<TlsPRF>();
    assert_send_sync::<TlsRecordType>();
    assert_send_sync::<Result<&'static TlsCipherSuite, CipherSuiteNotFound>>();
}

/// Entries of the static cipher registry are `&'static`: each of these functions only type-checks if the API hands out a reference that
/// does not borrow from the query string, the hello or the input bytes (so it can be kept, sent to another thread, stored in a static).
pub fn registry_references_are_static() {
    use core::convert::TryFrom;
    fn by_name<'n>(n: &'n str) -> Option<&'static TlsCipherSuite> {
        TlsCipherSuite::from_name(n)
    }
    fn by_id(id: u16) -> Option<&'static TlsCipherSuite> {
        TlsCipherSuite::from_id(id)
    }
    fn by_suite_id(id: TlsCipherSuiteID) -> Option<&'static TlsCipherSuite> {
        id.get_ciphersuite()
    }
    fn by_try_from<'n>(n: &'n str) -> Result<&'static TlsCipherSuite, CipherSuiteNotFound> {
        <&'static TlsCipherSuite>::try_from(n)
    }
    fn trait_accessor<'a, 'h>(h: &'h TlsClientHelloContents<'a>) -> Vec<Option<&'static TlsCipherSuite>> {
        ClientHello::cipher_suites(h)
    }
    fn dtls_trait_accessor<'a, 'h>(h: &'h DTLSClientHello<'a>) -> Vec<Option<&'static TlsCipherSuite>> {
        ClientHello::cipher_suites(h)
    }
    fn inherent_accessor<'a, 'h>(h: &'h TlsClientHelloContents<'a>) -> Vec<Option<&'static TlsCipherSuite>> {
        h.get_ciphers()
    }
    fn server_accessor<'a, 'h>(h: &'h TlsServerHelloContents<'a>) -> Option<&'static TlsCipherSuite> {
        h.get_cipher()
    }
    let _ = (by_name as fn(&str) -> _, by_id as fn(u16) -> _, by_suite_id as fn(TlsCipherSuiteID) -> _, by_try_from as fn(&str) -> _);
    let _ = (trait_accessor as fn(&TlsClientHelloContents) -> _, dtls_trait_accessor as fn(&DTLSClientHello) -> _, inherent_accessor as fn(&TlsClientHelloContents) -> _, server_accessor as fn(&TlsServerHelloContents) -> _);
}

/// The serializers (feature `serialize`) hand out values too: every public `gen_*` function returns an `impl SerializeFn<W>` that borrows
/// the value to write. They cannot be named, so the assertion is made on the call results; like every other public value they must be
/// Send + Sync (a prepared serializer can be shared by threads that each write into their own buffer).
#[cfg(feature = "serialize")]
pub fn serializer_values_are_send_sync() {
    fn ss<T: Send + Sync>(_t: &T) {}
    type W = std::vec::Vec<u8>;
    let random = [0u8; 32];
    let exts: std::vec::Vec<TlsExtension> = std::vec::Vec::new();
    let ch = TlsClientHelloContents::new(0x0303, &random, None, std::vec::Vec::new(), std::vec::Vec::new(), None);
    let sh = TlsServerHelloContents::new(0x0303, &random, None, 0xc02f, 0, None);
    let sh18 = TlsServerHelloV13Draft18Contents { version: TlsVersion::Tls13Draft18, random: &random, cipher: TlsCipherSuiteID(0x1301), ext: None };
    let cke = TlsClientKeyExchangeContents::Unknown(&random);
    let msg = TlsMessage::ChangeCipherSpec;
    let rec = TlsPlaintext { hdr: TlsRecordHeader { record_type: TlsRecordType::ChangeCipherSpec, version: TlsVersion::Tls12, len: 1 }, msg: std::vec::Vec::new() };
    let ext = TlsExtension::MaxFragmentLength(1);
    ss(&gen_tls_extension::<W>(&ext));
    ss(&gen_tls_extensions::<W>(&exts));
    ss(&gen_tls_clienthello::<W>(&ch));
    ss(&gen_tls_serverhello::<W>(&sh));
    ss(&gen_tls_serverhellodraft18::<W>(&sh18));
    ss(&gen_tls_clientkeyexchange::<W>(&cke));
    ss(&gen_tls_hellorequest::<W>());
    ss(&gen_tls_finished::<W>(&random));
    ss(&gen_tls_changecipherspec::<W>());
    ss(&gen_tls_message::<W>(&msg));
    ss(&gen_tls_plaintext::<W>(&rec));
}

// every module-level `pub struct` / `pub enum` found in the sources of the tree under test (sendsync/build.rs)
include!(concat!(env!("OUT_DIR"), "/auto_types.rs"));
