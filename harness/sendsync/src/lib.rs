//! Compile-time assertions: every public value type of tls-parser is Send + Sync (C18).
#![allow(dead_code)]
use tls_parser::*;

fn assert_send_sync<T: Send + Sync>() {}

pub fn all() {
    assert_send_sync::<TlsPlaintext>();
    assert_send_sync::<TlsEncrypted>();
    assert_send_sync::<TlsRawRecord>();
    assert_send_sync::<TlsRecordHeader>();
    assert_send_sync::<TlsMessage>();
    assert_send_sync::<TlsMessageHandshake>();
    assert_send_sync::<TlsClientHelloContents>();
    assert_send_sync::<TlsServerHelloContents>();
    assert_send_sync::<TlsServerHelloV13Draft18Contents>();
    assert_send_sync::<TlsHelloRetryRequestContents>();
    assert_send_sync::<TlsNewSessionTicketContent>();
    assert_send_sync::<TlsCertificateContents>();
    assert_send_sync::<TlsCertificateRequestContents>();
    assert_send_sync::<TlsServerKeyExchangeContents>();
    assert_send_sync::<TlsClientKeyExchangeContents>();
    assert_send_sync::<TlsCertificateStatusContents>();
    assert_send_sync::<TlsNextProtocolContent>();
    assert_send_sync::<TlsMessageAlert>();
    assert_send_sync::<TlsMessageApplicationData>();
    assert_send_sync::<TlsMessageHeartbeat>();
    assert_send_sync::<TlsExtension>();
    assert_send_sync::<KeyShareEntry>();
    assert_send_sync::<OidFilter>();
    assert_send_sync::<DTLSPlaintext>();
    assert_send_sync::<DTLSRawRecord>();
    assert_send_sync::<DTLSRecordHeader>();
    assert_send_sync::<DTLSMessage>();
    assert_send_sync::<DTLSMessageHandshake>();
    assert_send_sync::<DTLSClientHello>();
    assert_send_sync::<DTLSHelloVerifyRequest>();
    assert_send_sync::<ServerDHParams>();
    assert_send_sync::<ServerECDHParams>();
    assert_send_sync::<ECParameters>();
    assert_send_sync::<ECPoint>();
    assert_send_sync::<DigitallySigned>();
    assert_send_sync::<SignedCertificateTimestamp>();
    assert_send_sync::<TlsRecordsParser>();
    assert_send_sync::<TlsState>();
    assert_send_sync::<StateChangeError>();
    assert_send_sync::<TlsCipherSuite>();
    assert_send_sync::<&'static TlsCipherSuite>();
    assert_send_sync::<TlsVersion>();
    assert_send_sync::<TlsCipherSuiteID>();
    assert_send_sync::<NamedGroup>();
    assert_send_sync::<SignatureScheme>();
}
