#!/usr/bin/env python3
"""Regenerates /verif/MANIFEST.json from the table below (run after adding a check)."""
import json, os, subprocess
V = os.path.dirname(os.path.dirname(os.path.abspath(__file__)))
ids = [json.loads(l)["id"] for l in open(f"{V}/properties.jsonl")]

# id -> (technique, level text, level note, design ref)
CHECKS = {
 "C02": ("exhaustive enumeration of (content type, declared length, cut point) + proptest-generated records, reference header decoder and pointer-identity oracle",
         "Every declared length 0..65535 for 17 (quick) / all 256 (thorough) content types is framed through the three record parsers at ten cut points each, and thousands of generated records (valid content of every type, random payloads, inner-overlong heartbeat/handshake) are cut at every prefix; the oracle states the iff of the streaming contract, the exact Needed value, the TooLarge cap and pointer identity of payload and remainder (also when they are empty), and nom's recognize over each parser must return exactly the consumed bytes; openers of 44 other protocols are framed like any other header. The cap boundary and the Incomplete contract are finite statements about small integers, so enumeration settles them for the enumerated types; payload-dependent behaviour is sampled.",
         "Trusts the hand-written 5-byte header decoder in the harness; plaintext content acceptance is not judged here (C03).", "4/C02"),
 "C03": ("proptest-generated message lists with an RFC reference encoder, one-step vs two-step differential, targeted negative and tail families",
         "Generated records of all five content types (1..12 messages, all alert codes, 17 handshake kinds, app data 0..16640, heartbeat with padding) must decode to exactly the model messages by both routes; empty / cut-short / malformed-first / unknown-type records must be rejected by both routes; valid prefix + invalid tail must yield the prefix and the tail as two-step remainder; on corrupted and random records the two routes must agree; handshake messages of 64 KiB, 10 MiB +- 1 and 2^24 - 1 body bytes followed by a second message through the payload parser. Single handshake messages with a consistent header and a body shorter than any decoder of the type accepts must be errors by both routes, never Incomplete.",
         "Trusts the harness's RFC encoders (vmodel) and the field-by-field conversion of parsed values; sampling, not exhaustive.", "4/C03"),
 "C04": ("proptest-generated handshake values with an RFC reference encoder (round-trip incl. every public body parser), targeted single-field corruptions, exhaustive type-code sweep",
         "Round-trip over generated values of the 17 variants with boundary-weighted field ranges and trailing bytes shaped like a continuation; each rejection rule of the statement instantiated by one targeted edit of a valid encoding, checked stand-alone and inside a record; two encodings that decode to field-wise different values must not compare equal, clones and clone_from copies (message, handshake enum, contents struct, Option, Vec) equal their source; the one Certificate whose framing reads as DER; all 256 type codes x 3 body shapes; bodies up to 2^24-1.",
         "Trusts the harness's RFC encoders; CertificateRequest cuts are asserted up to one byte into the length that follows the type list (beyond that the pre-1.2 layout makes a cut body decodable); the equality sub-check relies on the field-by-field conversion to tell when two decoded values differ.", "4/C04"),
 "C05": ("exhaustive sweep of all 65536 extension types through 3 dispatchers and 16 single-purpose parsers + proptest-generated extensions and lists with a reference encoder",
         "Classification (typed / Grease / Unknown), type-tag conversion, dispatcher agreement, single-purpose parser type discipline are enumerated over the whole 16-bit type space; contents, lists, must-be-empty (alone and inside a list, through the three list parsers) and overlong rules are generated; blocks that decode to field-wise different values must not compare equal; the catch-all unknown-extension parser called directly returns exactly the declared bytes.",
         "Trusts the harness's encoders for the 26 typed extensions; dispatcher tables may grow but not shrink relative to the pinned tree.", "4/C05"),
 "C08": ("exhaustive enumeration of the transition relation (25 states x 2 directions x all message kinds incl. 65536 alerts) against an edge-list reference model; proptest-generated content variation and message sequences",
         "Every cell of the relation is compared with a model transcribed from the documented flows; because the machine is memoryless beyond its state, cell-completeness implies agreement on every finite sequence; content-independence is sampled with generated payloads of every kind (structured ServerKeyExchange bodies, DER-shaped certificates, OCSP responses); random walks cross-check the composition.",
         "The reference model (vmodel/src/states.rs) is the harness's reading of the flows named in the statement.", "4/C08"),
 "C12": ("exhaustive enumeration: every registry row x 10 columns against an independent re-parse of the IANA text file and a pinned golden copy, all 65536 ids x 4 lookup routes; proptest-generated name perturbations",
         "Registry content, id lookups, derived sizes and name-token consistency are finite and enumerated completely; name lookup is probed with generated near-miss strings, 128 million generated unregistered names every prefix / suffix of the registry's own name strings and some forty other spellings of every row (id as text, other separators, other libraries' names); fresh processes whose first registry use is 8-16 threads resolving every name at once; a scratch copy of the tree is built, its list edited (generated row appended, row renamed, row deleted) and built again in the same target directory, and a probe program must see the edited list.",
         "Trusts scripts/tls-ciphersuites.txt as the specification and the golden copy taken from the pinned tree; enum variants compared via Debug names.", "4/C12"),
 "C17": ("exhaustive enumeration of every value of 18 registry newtypes against IANA tables typed into the harness, and of the text 31 composite structures print for their registry-typed fields",
         "All named constants, Display/Debug of every integer of each domain, all conversions over all u16/u8 values, SignatureScheme split and key_bits for all 65536 groups; lists of 130 / 300 entries printed whole; Display / LowerHex of ids under format flags.",
         "Trusts the harness's IANA tables; unknown new identifiers printed for unlisted values are tolerated (so adding constants upstream is not an alarm).", "4/C17"),
}

CHECKS.update({
 "C01": ("proptest-generated inputs (byte soup, every model encoder with 0..3 corruptions, allocation-dense shapes, asset prefixes) through ~120 entry points (plus every public parse function and Nom-deriving type found in the sources of the tree under test at build time that the table does not name) under a counting allocator, panic capture and a watchdog; generated operation histories on the defragmenter; libFuzzer campaigns in the thorough tier",
         "Every public parsing entry point is called on every generated input with generated extra arguments; results are formatted ({:?}, {:#?}, Display, under precision / width / sign / zero / hex flags, and into writers that fail after k bytes); a panic (debug assertions and overflow checks are on), an allocation beyond 64 KiB + K*len, or a stall is a violation. Histories of up to 40 (thorough 700) operations drive one TlsRecordsParser to the 10 MiB cap. Nine list parsers run on 200 000 (thorough 2 000 000) minimal elements in an unoptimised probe process with a 2 MiB stack (stack depth); one parser takes 4.5 GB in 270 900 calls (32-bit totals). Absence of panics cannot be established by sampling; the evidence reports how much was explored.",
         "Termination is observed through a watchdog, not proved; allocation is counted per calling thread.", "4/C01"),
 "C06": ("metamorphic relation P(b) vs P(b++x) over 40 self-delimiting parsers with proptest-generated structures, corruptions and suffixes; pointer-provenance oracle over every reachable slice (hand-written visitor); defragmenter provenance over generated histories",
         "Appending bytes (up to 16 MiB, and zero-filled buffers of 2^32 + k bytes) must not change value or outcome class and must extend the remainder (also when an inner length field is raised by a multiple of 256 / 65536 in front of that many bytes of valid structures); every non-empty slice reachable from a returned value must lie inside the consumed part of the caller's buffer (or, for defragmented results, inside the internal buffer exposed by the hook).",
         "Values compared after conversion to model types; empty slices carry no provenance.", "4/C06"),
 "C07": ("model-based stateful testing: proptest-generated operation histories interpreted against a reference model (accumulate then one-shot parse) and a shadow fresh parser; targeted split / refusal / size-cap generators",
         "k-way splits of generated handshake and heartbeat payloads, refusals (foreign type, nocopy, 10 MiB) with state preservation observed through the hook, histories of up to 120 operations in lock step with the model, exact boundary of the size limit, heartbeat messages of up to 3+65535+padding bytes in records within the cap with fragment boundaries steered onto 65535..65539 accumulated bytes; continuation records of 2^32 +- k bytes must be refused; a defragmentation left alone for 2 s (quick) / 65 s (thorough) completes as if no time had passed; a parser that has seen a hello with negotiating extensions treats later records like a fresh one.",
         "The model answers with the public one-shot parser on its own concatenation; where the statement is silent the model adopts the implementation's observable state.", "4/C07"),
 "C09": ("proptest-generated serializable values; oracle = byte equality with the harness's RFC encoder + parse-back round trip + re-serialization; unsupported values must give NotYetImplemented",
         "Messages, records (constructed and obtained by parsing), extensions and extension lists within wire limits (incl. bodies beyond 16 bits); every unsupported handshake variant, message kind and extension; the same records and extension lists through cookie_factory::gen into byte slices and cursors of every capacity around the full length and into a writer taking a few bytes per call (success only with every byte written and the reported position equal to their number); one serializer value used three times, the first time into a writer that is too small. Hand-built records whose header type and stale length do not describe their messages (length = message count, payload size, 0, 1, 2) serialize to the exact RFC bytes or NotYetImplemented.",
         "The harness's RFC encoder is the reference for emitted bytes; built with the crate's serialize feature.", "4/C09"),
 "C10": ("exhaustive enumeration of DTLS declared lengths x content types x cut points + proptest-generated DTLS records, handshake headers over full 24-bit ranges and datagrams, against reference header decoders and the model encoder",
         "13-byte header fields (epoch / 48-bit sequence split), cap, Incomplete contract with exact Needed, fragment predicate and header fields verbatim, supported bodies, multi-record datagrams, records packed to the cap with the smallest messages of each kind; the DTLS ChangeCipherSpec / alert message parsers against their TLS siblings on every input of 0..2 bytes. Handshake records whose decodable messages are followed inside the record by stray bytes, a cut header or an undecoded message type still yield those messages, consume the record and reach the next record.",
         "Quick tier samples the cuts beyond the record end for lengths > 512 (full in thorough).", "4/C10"),
 "C11": ("exhaustive enumeration of every value of 47 enumerated wire fields inside generated well-formed templates (templates vary with the value; RFC-meaningful neighbours), plus joint sweeps of the three record-header fields and of (hello version, cipher id, extension-block shape)",
         "Each field's whole integer domain is written into a well-formed structure and read back from the parsed value, for k template variants.",
         "ServerHello legacy version excluded as in the statement.", "4/C11"),
 "C13": ("proptest-generated DH / EC / signature values with an RFC reference encoder, exhaustive curve-type and named-group sweep, reference decoder for parse_content_and_signature",
         "Exact decode and self-delimitation with trailing bytes, prefix rejection, clones, caller-supplied content parsers (empty, confined) for parse_content_and_signature, all 256 curve types, all 65536 named groups, all 65536 (hash, signature) octet pairs through the derived and the hand-written decoders, both negotiation flag values against inputs of both forms.",
         "Reference decoder for the two DigitallySigned forms is written in the harness.", "4/C13"),
 "C14": ("proptest-generated SCT lists with an RFC 6962 reference encoder; targeted overlong-entry / overlong-list corruptions",
         "Lists of 0..8 SCTs with full-range fields, single-entry parser, entries exceeding the list, lists exceeding the input, prefixes, entries and lists of exactly 65531..65535 bytes; lists at the start of buffers of 10 MiB +- 1, 16 MiB and 2^32 + k bytes. Extension data shaped like the SCT's own tail (algorithm pair, length, bytes) at lengths n*256 is data.",
         "Model encoder per RFC 6962 3.2/3.3.", "4/C14"),
 "C15": ("proptest-generated parsed and constructed hellos (TLS and DTLS); oracle = accessor equals (and aliases) the field, rand_time/rand_bytes by reference computation, cipher accessors against the harness's own registry table",
         "All trait accessors and inherent getters on parsed TLS/DTLS ClientHello, constructed values with randoms of any length (accessors by method syntax, trait path and trait object must agree; vectors with spare capacity; fields edited after construction), ServerHello constructor and getters; accessors through a reference to a reference; 16 hello versions x all 65536 ids through the cipher accessors; one fresh process per registered id in which that id is the first registry lookup. Every registered id at every position of lists of 16, 17, 32 entries among unlisted ids above / below it, other listed ids and copies of itself (exhaustive).",
         "For randoms shorter than 4 bytes only absence of panics and agreement between the dispatch routes is required.", "4/C15"),
 "C16": ("differential: multi-record parsers vs an explicit loop over the single-record parser on proptest-generated record concatenations with six kinds of endings; alias differential on soup and corrupted structures",
         "Records, remainder position and failure condition must match the loop exactly (also for runs of thousands of identical or empty records and for 11 MiB of valid records in one buffer); the deprecated alias must be identical including errors. The stopping record may be a valid record with one inner byte changed or a ClientHello valid up to one inner length field (TLS and DTLS).",
         "Records compared after conversion to model types.", "4/C16"),
 "C18": ("configuration enumeration (4 feature sets, complete) + differential execution of a proptest-generated corpus under the three buildable configurations; source scan (also of the macro-expanded crate), compile-time Send/Sync probe per feature set and a multi-threaded lookup stress for the static sub-claims",
         "Build status per feature set, compile_error text (through a dependent package, and for the crate's own library and unit-test harness), byte-identical per-input digests of 30 entry points + registry + state machine + defragmenter + the verdict of == between the values decoded from consecutive (near-duplicate) inputs across configurations; forbid(unsafe_code) and absence of the unsafe token; Send + Sync of 77 listed public types, of every pub struct / pub enum found in the sources of the tree under test, and of the value every public gen_* serializer returns, by type-checking a probe package.",
         "The static sub-claims are compile-time facts, not decided by generated inputs (stated in DESIGN.md).", "4/C18"),
})

def main():
    checks = []
    for i in ids:
        if i in CHECKS:
            tech, text, note, ref = CHECKS[i]
            checks.append({
                "property_id": i,
                "quick_cmd": f"./check {i} quick",
                "thorough_cmd": f"./check {i} thorough",
                "evidence_file": f"/verif/evidence/{i}.json",
                "replay_cmd_template": "./check --replay {path}",
                "engine": "vcheck",
                "level_claimed": {"category": "exploration", "text": text, "design_ref": f"DESIGN.md section {ref}"},
                "level_note": note,
                "technique": "property-based testing: " + tech,
            })
    na = [{"property_id": i, "reason": "check not built yet (work in progress; DESIGN.md section 4 describes the planned generator and oracle)"} for i in ids if i not in CHECKS]
    hooks = subprocess.run(["git", "-C", "/repo", "log", "--format=%h", "--grep=^verif hooks"], capture_output=True, text=True).stdout.split()
    m = {
        "version": 1,
        "setup_cmd": "./setup.sh",
        "hooks": {
            "guard": "--cfg tls_parser_verif",
            "enable": "rustflags = [\"--cfg\", \"tls_parser_verif\"] in /verif/harness/.cargo/config.toml (and RUSTFLAGS for cargo-fuzz)",
            "baseline_off_cmd": "cd /repo && cargo test --workspace --no-fail-fast --offline",
            "source_commits": hooks,
            "add_only": True,
        },
        "engines": [
            {"name": "vcheck", "path": "/verif/harness", "serves_properties": sorted(CHECKS), "kind_free_text": "Rust harness: proptest TestRunner over choice tapes decoded by model generators (vmodel, no dependency on tls-parser), RFC reference encoders, reference models, exhaustive enumerators; oracles in vcheck/src/props"},
        ],
        "checks": checks,
        "not_applicable": na,
        "notes": "exit 0 = held on everything explored; 1 = VIOLATION line printed; 2 = build failure / inconclusive. VERIF_SEED selects the proptest seeds. Known findings: /verif/known_findings.json.",
    }
    if not na:
        del m["not_applicable"]
    json.dump(m, open(f"{V}/MANIFEST.json", "w"), indent=1)
    print("checks:", len(checks), "not_applicable:", len(na))

main()
