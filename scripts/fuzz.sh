#!/bin/bash
# Coverage-guided campaigns (libFuzzer via cargo-fuzz) for one property: thorough tier only, run by ./check after the
# proptest-driven part passed. The fuzzer's input is the choice tape of a vcheck sub-check oracle (or the raw bytes for *_raw
# sub-checks), so the oracle inside the target is exactly the one the property check uses.
# A crash artifact is re-judged by `vcheck replay` (strict, no proptest, no fuzzer) before anything is reported.
# exit 0 = nothing found; 1 = violation confirmed by replay (VIOLATION line printed); 2 = infrastructure problem / inconclusive.
set -u
PROP="$1"
V="${VERIF_DIR:-/verif}"
SEED="${VERIF_SEED:-0}"
BUDGET="${VERIF_FUZZ_SECONDS:-60}"      # wall-clock cap per sub-check (a cap that is reached is not a violation)
RUNS="${VERIF_FUZZ_RUNS:-400000}"       # executions per worker
WORKERS="${VERIF_FUZZ_WORKERS:-8}"
case "$PROP" in
  C01) SUBS="entry_points_raw entry_points histories";;
  C02) SUBS="frame_raw frame_generated frame_foreign";;
  C03) SUBS="differential_raw differential valid tail";;
  C04) SUBS="roundtrip invalid equality clone_from";;
  C05) SUBS="tag_arbitrary single overlong inner_overlong lists empty_only_in_list equality";;
  C06) SUBS="locality_raw locality defrag locality_congruent";;
  C07) SUBS="history splits refusals big_heartbeat";;
  C08) SUBS="content sequences";;
  C09) SUBS="messages records writers extensions";;
  C10) SUBS="frame_raw records hs_header datagram";;
  C13) SUBS="content_and_signature ec signed dh";;
  C14) SUBS="lists overlong";;
  C15) SUBS="tls_parsed dtls_parsed constructed server";;
  C16) SUBS="many_raw tls_many dtls_many";;
  *) exit 0;;
esac
export CARGO_NET_OFFLINE=true
cd "$V/harness/vcheck" || exit 2
if ! RUSTFLAGS="--cfg tls_parser_verif" cargo +nightly fuzz build --fuzz-dir "$V/fuzz" oracle >"$V/fuzz/build.log" 2>&1; then
    echo "fuzz target build failed (see $V/fuzz/build.log)" >&2; grep -E "^error" -A6 "$V/fuzz/build.log" | head -30 >&2; exit 2
fi
BIN="$V/fuzz/target/x86_64-unknown-linux-gnu/release/oracle"
WORK="$V/fuzz/corpus-work/$PROP"
mkdir -p "$WORK"; find "$WORK" -mindepth 1 -delete 2>/dev/null
VERIF_SEED="$SEED" "$V/harness/target/release/vcheck" gen-corpus "$WORK/seeds" || exit 2
rc=0
STATS="$WORK/stats.jsonl"; : > "$STATS"
for sub in $SUBS; do
    d="$WORK/run-$sub"; mkdir -p "$d/corpus" "$d/artifacts"
    seeds="$WORK/seeds/$PROP-$sub"; [ -d "$seeds" ] || mkdir -p "$seeds"
    maxlen=1024; case "$sub" in *_raw) maxlen=4096;; history|histories|defrag|tls_many|dtls_many|records|lists) maxlen=2048;; esac
    ( cd "$d" && VCHECK_FUZZ_SUB="$PROP/$sub" VERIF_DIR="$V" timeout $((BUDGET + 60)) "$BIN" -jobs="$WORKERS" -workers="$WORKERS" -runs="$RUNS" -max_total_time="$BUDGET" \
        -seed=$((SEED + 1)) -max_len=$maxlen -len_control=0 -artifact_prefix="$d/artifacts/" -print_final_stats=1 "$d/corpus" "$seeds" >"$d/driver.log" 2>&1 )
    execs=$(grep -h "stat::number_of_executed_units" "$d"/fuzz-*.log 2>/dev/null | awk '{s+=$2} END {print s+0}')
    cov=$(grep -hoE "cov: [0-9]+" "$d"/fuzz-*.log 2>/dev/null | awk '{if ($2>m) m=$2} END {print m+0}')
    corpus=$(ls "$d/corpus" 2>/dev/null | wc -l)
    arts=$(ls "$d/artifacts" 2>/dev/null | grep -cE "^(crash|oom|timeout)-")
    echo "{\"sub_check\": \"$sub\", \"executions\": $execs, \"edges_covered\": $cov, \"corpus_files\": $corpus, \"artifacts\": $arts, \"workers\": $WORKERS, \"seed\": $((SEED + 1))}" >> "$STATS"
    echo "[$PROP] fuzz $sub: $execs executions, cov $cov, corpus $corpus, artifacts $arts" >&2
    for a in "$d"/artifacts/crash-* "$d"/artifacts/oom-* "$d"/artifacts/timeout-*; do
        [ -f "$a" ] || continue
        rp="$V/replays/$PROP-$sub-fuzz-$(basename "$a").json"
        python3 - "$a" "$rp" "$PROP" "$sub" <<'PY'
import sys,json
a,rp,p,s=sys.argv[1:5]
json.dump({"property":p,"sub_check":s,"seed":0,"tier":"Thorough","tape_hex":open(a,'rb').read().hex(),"signature":"found by libFuzzer","message":"artifact "+a},open(rp,'w'),indent=1)
PY
        out=$("$V/harness/target/release/vcheck" replay "$rp" 2>&1); r=$?
        if [ $r -eq 1 ]; then echo "$out" | grep -v "^VIOLATION" >&2; echo "VIOLATION property=$PROP replay=$rp"; rc=1
        else echo "[$PROP] fuzz artifact $(basename "$a") did not reproduce through the plain oracle (rc=$r): ignored" >&2; rm -f "$rp"; [ $rc -eq 0 ] && [[ "$a" == *timeout-* || "$a" == *oom-* ]] && rc=2; fi
    done
done
# append the campaign statistics to the evidence file written by vcheck
python3 - "$V/evidence/$PROP.json" "$STATS" <<'PY'
import json,sys
ev=json.load(open(sys.argv[1])); st=[json.loads(l) for l in open(sys.argv[2]) if l.strip()]
ev["coverage"]["libfuzzer_campaigns"]=st
ev["coverage"]["evaluations"]+=sum(x["executions"] for x in st)
ev["coverage"]["rule"]+=" Thorough tier: libFuzzer campaigns whose input is the same oracle's choice tape (or the raw bytes for *_raw sub-checks); their executions are included in `evaluations` and listed under libfuzzer_campaigns."
if any(x["artifacts"] for x in st): ev["violations"]=ev.get("violations",0)
json.dump(ev,open(sys.argv[1],"w"),indent=1)
PY
exit $rc
