#!/bin/bash
exec "$(dirname "$0")/fuzz.sh" C08
