#!/usr/bin/env python3
"""Systematic one-line mutation trial (self-evaluation of the checks; not part of any registered command).

  automut.py gen  <repo> <out.jsonl> [max_per_file_and_op]   enumerate single-line mutants of <repo>/src/*.rs and build.rs
  automut.py run  <lane_dir> <mutants.jsonl> <lane> <lanes> <results.jsonl>
        lane_dir holds a scratch copy:  <lane_dir>/repo (git worktree of /repo) and <lane_dir>/verif (copy of /verif whose
        path dependencies point at <lane_dir>/repo).  For every mutant with index % lanes == lane: apply it, `cargo check`,
        run the crate's own test suite, then the quick checks (most relevant first) until one reports a violation.
  automut.py report <results.jsonl>...                        summary table

Nothing here touches /repo: mutants are applied to the lane's scratch worktree only.
"""
import json, os, re, subprocess, sys, random, time

ORDER = {
    "tls_record.rs": "C02 C03 C16 C11 C01 C06",
    "tls_message.rs": "C03 C02 C01 C06 C11",
    "tls_handshake.rs": "C04 C11 C15 C03 C06 C01 C09 C17",
    "tls_extensions.rs": "C05 C11 C06 C01 C17 C09",
    "dtls.rs": "C10 C16 C15 C11 C06 C01",
    "tls_ec.rs": "C13 C17 C11 C06 C01",
    "tls_dh.rs": "C13 C06 C01",
    "tls_sign_hash.rs": "C13 C17 C11 C14 C06 C05",
    "certificate_transparency.rs": "C14 C11 C06 C01 C17",
    "tls_records_parser.rs": "C07 C01 C06 C18",
    "tls_states.rs": "C08",
    "tls_alert.rs": "C17 C11 C03 C08",
    "tls_ciphers.rs": "C12 C15 C17",
    "tls_serialize.rs": "C09 C18",
    "tls_debug.rs": "C01 C17",
    "lib.rs": "C18",
    "build.rs": "C12 C15",
}
ALL = ["C%02d" % i for i in range(1, 19)]

REL = [(" >= ", " > "), (" > ", " >= "), (" <= ", " < "), (" < ", " <= "), (" == ", " != "), (" != ", " == ")]
ARITH = [(" + ", " - "), (" - ", " + "), (" * ", " / "), (" >> ", " << "), (" << ", " >> "), (" & ", " | "), (" | ", " & ")]
BOOL = [(" && ", " || "), (" || ", " && ")]
WORDS = [
    ("many0(", "many1("), ("many1(", "many0("), ("length_data(be_u16)", "length_data(be_u8)"), ("length_data(be_u8)", "length_data(be_u16)"),
    ("length_data(be_u24)", "length_data(be_u16)"), ("be_u16(", "be_u8(", ), (" as u16", " as u8"), (" as u32", " as u16"), (" as u64", " as u32"),
    ("true", "false"), ("false", "true"), ("Err::Error(", "Err::Failure("), ("Err::Failure(", "Err::Error("), ("opt(complete(", "opt(("),
    (".saturating_add(", ".wrapping_add("), ("Some(", "Some(&[][..]).and("),
]
NUM = re.compile(r"(?<![\w.\"'#])(0x[0-9a-fA-F_]+|\d[\d_]*)(?![\w.\"'])")


def code_part(line):
    # strip a trailing // comment (good enough for this code base: no "//" inside string literals on code lines we mutate)
    i = line.find("//")
    return line if i < 0 else line[:i]


def gen(repo, out, cap, extra=False):
    files = sorted(f for f in os.listdir(os.path.join(repo, "src")) if f.endswith(".rs"))
    paths = [os.path.join("src", f) for f in files] + ["build.rs"]
    rng = random.Random(20261003)
    allm = []
    for rel in paths:
        lines = open(os.path.join(repo, rel)).read().split("\n")
        per_op = {}
        in_tests = False
        for ln, line in enumerate(lines):
            s = line.strip()
            if s.startswith("#[cfg(test)]"):
                in_tests = True
            if in_tests or s.startswith("//") or s.startswith("#[") or s.startswith("#!") or s.startswith("use ") or not s:
                continue
            code = code_part(line)
            if "cfg(tls_parser_verif)" in code or "verif_" in code:
                continue
            cands = []
            for group, pairs in (("rel", REL), ("arith", ARITH), ("bool", BOOL), ("word", WORDS)):
                for a, b in pairs:
                    start = 0
                    while True:
                        i = code.find(a, start)
                        if i < 0:
                            break
                        start = i + len(a)
                        if a.strip() in (">", "<", ">=", "<=") and ("->" in code[max(0, i - 2):i + 3] or "=>" in code[max(0, i - 2):i + 3]):
                            continue
                        new = line[:i] + b + line[i + len(a):]
                        cands.append((group + ":" + a.strip() + "->" + b.strip(), new))
            for m in NUM.finditer(code):
                tok = m.group(1)
                try:
                    v = int(tok.replace("_", ""), 0)
                except ValueError:
                    continue
                for d in (1, -1):
                    nv = v + d
                    if nv < 0:
                        continue
                    nt = ("0x%x" % nv) if tok.startswith("0x") else str(nv)
                    new = line[:m.start(1)] + nt + line[m.end(1):]
                    cands.append(("num:%+d" % d, new))
            # classical structural operators: force a condition, drop a single-line statement
            mcond = re.match(r"^(\s*)(\}\s*else\s+)?if (?!let )(.+) \{\s*$", code.rstrip("\n"))
            if mcond and extra:
                ind, els, cond = mcond.group(1), mcond.group(2) or "", mcond.group(3)
                cands.append(("cond:false", "%s%sif false && (%s) {" % (ind, els, cond)))
                cands.append(("cond:true", "%s%sif true || (%s) {" % (ind, els, cond)))
            st = code.strip()
            if extra and st.endswith(";") and not st.startswith(("let ", "use ", "pub ", "const ", "static ", "type ", "//")) and "=>" not in st and not st.startswith("}"):
                cands.append(("stmt:delete", line[: len(line) - len(line.lstrip())] + "();" if st.startswith("return") and False else line[: len(line) - len(line.lstrip())] + "{}"))
            for op, new in cands:
                per_op.setdefault(op.split(":")[0], []).append({"file": rel, "line": ln + 1, "op": op, "old": line, "new": new})
        for grp, ms in per_op.items():
            if extra and grp not in ("cond", "stmt"):
                continue
            rng.shuffle(ms)
            allm.extend(ms[:cap] if grp == "num" else ms[: cap * 2])
    allm.sort(key=lambda m: (m["file"], m["line"], m["op"]))
    with open(out, "w") as f:
        for i, m in enumerate(allm):
            m["idx"] = i
            f.write(json.dumps(m) + "\n")
    print(len(allm), "mutants")


def sh(cmd, cwd, env, timeout):
    try:
        p = subprocess.run(cmd, cwd=cwd, env=env, shell=True, stdout=subprocess.PIPE, stderr=subprocess.STDOUT, timeout=timeout, text=True)
        return p.returncode, p.stdout
    except subprocess.TimeoutExpired as e:
        return 124, (e.stdout or "") if isinstance(e.stdout, str) else ""


def run(lane_dir, mfile, lane, lanes, out):
    repo = os.path.join(lane_dir, "repo")
    verif = os.path.join(lane_dir, "verif")
    env = dict(os.environ, CARGO_NET_OFFLINE="true", VERIF_REPO=repo, VERIF_DIR=verif, VERIF_SEED="0", CARGO_TARGET_DIR=os.path.join(lane_dir, "repo-target"))
    venv = dict(env)
    venv.pop("CARGO_TARGET_DIR")
    done = set()
    if os.path.exists(out):
        for l in open(out):
            done.add(json.loads(l)["idx"])
    muts = [json.loads(l) for l in open(mfile)]
    for m in muts:
        if m["idx"] % lanes != lane or m["idx"] in done:
            continue
        path = os.path.join(repo, m["file"])
        src = open(path).read()
        lines = src.split("\n")
        if lines[m["line"] - 1] != m["old"]:
            continue
        lines[m["line"] - 1] = m["new"]
        open(path, "w").write("\n".join(lines))
        res = dict(m)
        t0 = time.time()
        try:
            rc, o = sh("cargo check --offline -q --features serialize 2>&1 | tail -5", repo, env, 600)
            rc2, o2 = sh("cargo check --offline -q --no-default-features 2>&1 | tail -5", repo, env, 600)
            if "error" in o or "error" in o2:
                res["status"] = "does-not-compile"
            else:
                rc, o = sh("cargo test --offline 2>&1 | grep -E '^test result|^error|panicked' | head -20", repo, env, 1200)
                bad = re.search(r"FAILED|[1-9]\d* failed|^error", o, re.M)
                rc2, o2 = ("", "") if bad else sh("cargo test --offline --features serialize 2>&1 | grep -E '^test result|^error' | head -20", repo, env, 1200)
                if bad or re.search(r"FAILED|[1-9]\d* failed|^error", o2, re.M):
                    res["status"] = "killed-by-existing-tests"
                else:
                    base = os.path.basename(m["file"])
                    order = ORDER.get(base, "").split()
                    order += [p for p in ALL if p not in order]
                    res["status"] = "survived"
                    res["ran"] = []
                    for p in order:
                        rc, o = sh("./check %s quick 2>&1 | grep -E '^VIOLATION|signature:|harness build failed' | head -12" % p, verif, venv, 1800)
                        res["ran"].append(p)
                        if "VIOLATION" in o or "signature:" in o:
                            sig = re.search(r"signature: (.*)", o)
                            res["status"] = "detected"
                            res["by"] = p
                            res["signature"] = sig.group(1)[:160] if sig else ""
                            break
                        if "harness build failed" in o:
                            res["status"] = "harness-build-failed"
                            break
        finally:
            open(path, "w").write(src)
        res["secs"] = round(time.time() - t0, 1)
        with open(out, "a") as f:
            f.write(json.dumps(res) + "\n")
        print(res["idx"], res["file"], res["line"], res["op"], res["status"], res.get("by", ""), res["secs"], flush=True)


def report(files):
    rs = []
    for f in files:
        rs += [json.loads(l) for l in open(f)]
    from collections import Counter
    c = Counter(r["status"] for r in rs)
    print("total", len(rs), dict(c))
    byfile = {}
    for r in rs:
        byfile.setdefault(r["file"], Counter())[r["status"]] += 1
    for f, k in sorted(byfile.items()):
        print("  %-34s %s" % (f, dict(k)))
    print("survivors:")
    for r in sorted(rs, key=lambda r: (r["file"], r["line"])):
        if r["status"] == "survived":
            print("  %s:%d [%s]\n      - %s\n      + %s" % (r["file"], r["line"], r["op"], r["old"].strip(), r["new"].strip()))


if __name__ == "__main__":
    a = sys.argv[1:]
    if a[0] == "gen":
        gen(a[1], a[2], int(a[3]) if len(a) > 3 else 6, extra=(len(a) > 4 and a[4] == "extra"))
    elif a[0] == "run":
        run(a[1], a[2], int(a[3]), int(a[4]), a[5])
    else:
        report(a[1:])
