#!/bin/bash
# Confirm a sub-agent's seeded change independently and file it under /verif/seeded/<id>/.
# usage: scripts/ingest.sh <property> <worktree> <mutant-dir-name> [extra cargo test flags for the demo, e.g. "--features serialize"]
# Steps (all inside the scratch worktree, never /repo): clean tree -> apply patch -> existing suite must pass (default and serialize features)
# -> demo must fail -> revert -> demo must pass. Only then is the change copied to /verif/seeded.
set -u
P="$1"; WT="$2"; M="$3"; FLAGS="${4:-}"
D="$WT/deliver/$M"
export CARGO_TARGET_DIR="$WT/target" CARGO_NET_OFFLINE=true
cd "$WT" || exit 2
git checkout -q -- . ; rm -f tests/demo.rs
[ -f "$D/patch.diff" ] && [ -f "$D/demo.rs" ] || { echo "$P/$M: missing patch.diff or demo.rs"; exit 1; }
git apply --check "$D/patch.diff" || { echo "$P/$M: patch does not apply"; exit 1; }
git apply "$D/patch.diff"
suite=$(cargo test --offline 2>&1 | grep -E "^test result|^error" )
fails=$(echo "$suite" | grep -cE "FAILED|^error|[1-9][0-9]* failed")
passed=$(echo "$suite" | grep -oE "[0-9]+ passed" | awk '{s+=$1} END {print s}')
suite2=$(cargo test --offline --features serialize 2>&1 | grep -E "^test result|^error")
fails2=$(echo "$suite2" | grep -cE "FAILED|^error|[1-9][0-9]* failed")
if [ "$fails" != 0 ] || [ "$fails2" != 0 ] || [ "${passed:-0}" -lt 49 ]; then echo "$P/$M: existing suite does not pass with the change (passed=$passed fails=$fails/$fails2)"; git checkout -q -- .; exit 1; fi
cp "$D/demo.rs" tests/demo.rs
with=$(cargo test --offline $FLAGS --test demo 2>&1 | grep -E "^test result|^error" | head -3)
git checkout -q -- .
without=$(cargo test --offline $FLAGS --test demo 2>&1 | grep -E "^test result|^error" | head -3)
rm -f tests/demo.rs
echo "$P/$M: suite passed=$passed; demo WITH change: $with; demo WITHOUT: $without"
if echo "$with" | grep -qE "FAILED|^error" && echo "$without" | grep -q "test result: ok"; then
    id="$P-${ID_TAG:-}$M"
    mkdir -p "/verif/seeded/$id"
    cp "$D/patch.diff" "$D/demo.rs" "/verif/seeded/$id/"
    [ -f "$D/NOTES.md" ] && cp "$D/NOTES.md" "/verif/seeded/$id/"
    python3 - "$id" "$P" "$passed" "$with" "$without" "$FLAGS" <<'PY'
import json,sys,re
id,p,passed,w,wo,flags=sys.argv[1:7]
notes=open(f'/verif/seeded/{id}/NOTES.md').read() if __import__('os').path.exists(f'/verif/seeded/{id}/NOTES.md') else ''
json.dump({"id":id,"breaks":[p],"origin":"written by a sub-agent that saw only the property text and its own scratch worktree",
 "what":notes.strip().split('\n')[0][:300],"needs_to_manifest":"see NOTES.md",
 "verified":{"existing_suite_with_change":f"{passed} tests/doctests passed (default features), serialize feature suite passed",
   "demo_with_change":w,"demo_without_change":wo,"demo_cmd":f"cp demo.rs tests/demo.rs && cargo test --offline {flags} --test demo".replace('  ',' '),"confirmed_in":"scratch worktree under /tmp (removed afterwards)"}},
 open(f'/verif/seeded/{id}/meta.json','w'),indent=1)
PY
    echo "$P/$M: CONFIRMED -> /verif/seeded/$id"
else
    echo "$P/$M: NOT confirmed"; exit 1
fi
