#!/bin/bash
# Sensitivity trial: apply every seeded change under /verif/seeded/<id>/patch.diff to /repo in turn, run the quick
# check of each property it is recorded to break (meta.json "breaks"), and undo it. Prints one line per (change, property).
# usage: scripts/mutants.sh [id-glob]
cd "$(dirname "$0")/.." || exit 2
pat="${1:-*}"
if ! git -C /repo diff --quiet; then echo "/repo has uncommitted changes; refusing" >&2; exit 2; fi
for d in seeded/$pat/; do
    id=$(basename "$d")
    [ -f "$d/patch.diff" ] || continue
    props=$(python3 -c "import json;print(' '.join(json.load(open('$d/meta.json'))['breaks']))")
    # a change that only the thorough tier can see (it needs a minute of wall-clock time between two calls) says so in its meta.json
    tier=$(python3 -c "import json;print(json.load(open('$d/meta.json')).get('tier','quick'))")
    if [ -z "$props" ]; then echo "$id NOT-CLAIMED (judged outside the statement; see meta.json)"; continue; fi
    [ -z "$props" ] && { echo "$id (not claimed: see meta.json)"; continue; }
    if ! git -C /repo apply "$PWD/$d/patch.diff" 2>/dev/null; then echo "$id: patch does not apply"; continue; fi
    for p in $props; do
        out=$(VERIF_SEED=${VERIF_SEED:-0} VERIF_SKIP_FUZZ=1 ./check "$p" "$tier" 2>&1); rc=$?
        v=$(echo "$out" | grep -c '^VIOLATION')
        sig=$(echo "$out" | grep -m1 'signature:' | sed 's/^ *signature: //')
        case $rc in
            1) echo "$id $p DETECTED ($v violation line(s))$( [ "$tier" != quick ] && echo " [$tier tier]" ) $sig";;
            0) echo "$id $p MISSED";;
            *) echo "$id $p rc=$rc (build failure or inconclusive)"; echo "$out" | tail -5;;
        esac
    done
    git -C /repo checkout -- .
done
find replays -name '*.json' -delete 2>/dev/null
