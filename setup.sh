#!/bin/bash
# MANIFEST.setup_cmd: offline build of the harness from files on disk (cargo registry cache + /repo + /verif).
set -e
export CARGO_NET_OFFLINE=true
cd "$(dirname "$0")/harness"
cargo build --release -p vcheck 2>&1 | tail -3
