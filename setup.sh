#!/bin/bash
# MANIFEST.setup_cmd: offline build of everything the checks need, from files on disk only
# (cargo registry cache + /repo + /verif). Safe to re-run.
set -e
export CARGO_NET_OFFLINE=true
cd "$(dirname "$0")/harness"
cargo build --release -p vcheck 2>&1 | tail -2
# second build of the harness without debug assertions (thorough tier only; built here so that the first thorough run does not pay for it)
cargo build --profile plain -q -p vcheck 2>/dev/null || true
# C18 probes: one cfgdiff binary per buildable feature set of tls-parser, and the Send/Sync probe
( cd cfgdiff
  CARGO_TARGET_DIR=../target-cfg-none cargo build --release -q 2>/dev/null
  CARGO_TARGET_DIR=../target-cfg-std  cargo build --release -q --features std 2>/dev/null
  CARGO_TARGET_DIR=../target-cfg-ser  cargo build --release -q --features std,serialize 2>/dev/null
  CARGO_TARGET_DIR=../target-cfg-bad  cargo check --release -q --features serialize 2>/dev/null || true )
( cd sendsync
  for f in "" "--features std" "--features std,serialize"; do CARGO_TARGET_DIR=../target-cfg-sendsync cargo check --release -q $f 2>/dev/null; done )
# C18: macro-expanded source per feature set (nightly, -Zunpretty=expanded); optional - the check skips this part if it cannot run
( cd "${VERIF_REPO:-/repo}" && for f in "--no-default-features" "" "--features serialize"; do CARGO_TARGET_DIR="$OLDPWD/target-expand" cargo +nightly rustc --lib --offline -q $f -- -Zunpretty=expanded >/dev/null 2>&1 || true; done )
echo "setup done"
