//! One libFuzzer target for every sub-check oracle of vcheck: the fuzzer's input is the oracle's choice tape
//! (or, for the *_raw sub-checks, the bytes under test themselves). Select with VCHECK_FUZZ_SUB=<prop>/<sub-check>.
#![no_main]
use libfuzzer_sys::fuzz_target;

#[global_allocator]
static GLOBAL: vcheck::alloc::Counting = vcheck::alloc::Counting;

fuzz_target!(|data: &[u8]| {
    vcheck::fuzz::one_input(data);
});
